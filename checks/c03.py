SPEC = dict(
    id="C03",
    bin="c03",
    cases_quick=3200,
    cases_thorough=160000,
    level="proof",
    technique="Coq theorems over a Gallina model of PoolDelta::price_impact (both branches), adjusted_factors, swap_impact_value and position_price_impact (worse of real and virtual), generic in width/unit/exponent (unit multiples), using C01's monotonicity of the fixed-point power + differential correspondence on u64/9 and u128/20 + sign-rule / round-trip oracle on the Rust outputs",
    text="For every pool, delta, price, whole exponent and factor pair: a worsening change gets impact <= 0, an unchanged imbalance <= 0 (= 0 on the same side), a same-side improvement >= 0; a change followed by its exact reverse totals <= 0 when the heavier side flips and <= 1 unit otherwise; the positive factor is capped by the negative one; with virtual inventory the result is never better than the real impact and equals it when that is non-negative. Known findings: cross-over improvements can be charged (class 1) and same-side round trips can net exactly +1 (class 2).",
    level_note="Trusted: Coq kernel + vm_compute; hand-written model tied to the code on generated cases (u64/9, u128/20). Exponents are unit multiples only (non-integer exponents use rust_decimal powd and are outside the property's quantifier). swap_impact_value / position_price_impact run over the harness market (vmarket.rs: real trait default methods, harness pool with the default checked_cancel_amounts). The literal claims 'improving never negative' and 'round trip never positive' are proved for the complements of the two known-finding classes only.",
    design_ref="DESIGN.md section 6, C03",
    explanation="5 entry points x {u64/9, u128/20}; scenarios: same-side improve/worsen, cross-over improve/mirror/worsen, two-sided swaps, exact balance, rounding-sensitive tiny moves, virtual inventories equal / opposite / heavier.",
)
