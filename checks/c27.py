SPEC = dict(
    id="C27",
    bin="c27",
    cases_quick=6000,
    cases_thorough=120000,
    level="proof",
    technique="Coq theorem: the i64-saturating implementation of is_market_open equals the unbounded-Z specification for all i64/u32/u8 inputs (explicit analysis of both saturating subtractions) + status/policy table + differential correspondence on a Pod-constructed PriceFeedPrice + spec oracle on the Rust outputs",
    text="is_market_open is proved equal, for every current timestamp, report timestamp, last-update difference (seconds or nanoseconds rounded up), timeout, raw status byte, price-flag byte and policy-flag byte, to: status not closed under the policy AND open flag AND (tracking disabled OR report age <= timeout AND last-update age <= timeout) evaluated on unbounded integers.",
    level_note="Trusted: Coq kernel + vm_compute; hand-written model tied to the code on generated operands (timestamps at i64::MIN/MAX, differences overflowing in both directions, now within +-2 of the decision boundary, all 256 flag/status bytes). bitmaps::Bitmap<8>::get(i) is modelled as bit i of the byte.",
    design_ref="DESIGN.md section 6, C27",
    explanation="is_market_open, MarketStatus::openness (incl. invalid raw bytes), last_update_diff_secs.",
)
