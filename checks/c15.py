SPEC = dict(
    id="C15",
    bin="c15",
    cases_quick=3000,
    cases_thorough=30000,
    shard=500,
    level="proof",
    technique="Coq theorems over a Gallina model of Pool (is_pure byte + two u128 fields; views, checked_add_signed deltas, checked_apply_delta, the checked_cancel_amounts override carried by both Pool types, and the trait's default for contrast) + differential correspondence on op histories of BOTH real implementations (program Pool built from its 48 raw bytes, SDK gmsol_programs Pool) evaluated inside Coq + arithmetic oracle on the Rust outputs",
    text="For every stored total in u128 and every sequence of signed deltas on either side, both-side deltas and nettings: long view + short view = stored total (ceil/floor halves), a successful delta changes the total by exactly its amount and fails (pool unchanged) exactly when the total would leave u128, netting leaves total mod 2; the history theorem reduces a pure pool to a one-number ledger; the SDK pool is proved and observed to go through identical states on ALL pools (c15_sdk_eq_prog).",
    level_note="Pure pools are taken well-formed (flag set, unused short field zero — the only way the program creates them: zeroed account + Pools::init); with a non-zero short field the views hit a debug_assert (modelled as Err 100 in debug builds, driven as rare 'malformed' cases, not constrained by the oracle). The SDK Pool carries the same checked_cancel_amounts override as the program since fix c40-sdk-pool-cancel-override (before, it ran the trait default, which fails with Error::Convert when min(long, short) > i128::MAX: c15_default_cancel_impure_fails; that old output is now a negative case).",
    design_ref="DESIGN.md section 6, C15",
    explanation="One case = one history (1-10 ops) on one pool value of the program's or the SDK's Pool type.",
)
