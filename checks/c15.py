SPEC = dict(
    id="C15",
    bin="c15",
    cases_quick=3000,
    cases_thorough=30000,
    shard=500,
    level="proof",
    technique="Coq theorems over a Gallina model of Pool (is_pure byte + two u128 fields; views, checked_add_signed deltas, checked_apply_delta, the program's checked_cancel_amounts override and the trait's default used by the SDK pool) + differential correspondence on op histories of BOTH real implementations (program Pool built from its 48 raw bytes, SDK gmsol_programs Pool) evaluated inside Coq + arithmetic oracle on the Rust outputs",
    text="For every stored total in u128 and every sequence of signed deltas on either side, both-side deltas and nettings: long view + short view = stored total (ceil/floor halves), a successful delta changes the total by exactly its amount and fails (pool unchanged) exactly when the total would leave u128, netting leaves total mod 2; the history theorem reduces a pure pool to a one-number ledger; the SDK pool is proved and observed to go through identical states on pure pools.",
    level_note="Pure pools are taken well-formed (flag set, unused short field zero — the only way the program creates them: zeroed account + Pools::init); with a non-zero short field the views hit a debug_assert (modelled as Err 100 in debug builds, driven as rare 'malformed' cases, not constrained by the oracle). Reported for C40 (not a C15 violation): the SDK Pool has no checked_cancel_amounts override, so on TWO-token pools it fails with Error::Convert when min(long, short) > i128::MAX where the program succeeds (c15_sdk_cancel_impure_fails, witness long = u128::MAX, short = 2^127; reproduced on the real SDK code by the driver).",
    design_ref="DESIGN.md section 6, C15",
    explanation="One case = one history (1-10 ops) on one pool value of the program's or the SDK's Pool type.",
)
