SPEC = dict(
    id="C33",
    bin="c33",
    cases_quick=300,
    cases_thorough=12000,
    level="proof",
    technique="Coq invariant proofs over a Gallina model of the six referral instructions (handler checks and the Anchor #[account(...)] constraints, with the passed accounts as free, attacker-chosen arguments) + differential correspondence: whole instruction histories run through the REAL Anchor entrypoint gmsol_store::entry (real constraint code, real PDAs, real zero-copy accounts, system-program account creation emulated) and the state functions called directly on arbitrary zeroed structs + the property re-evaluated on all decoded user / code accounts after every instruction",
    text="For every sequence of prepare_user, initialize_referral_code, set_referrer, transfer / cancel / accept of a code transfer, with any choice of the passed accounts, it is proved that a referrer is never the user itself, never mutual, is written at most once and only by set_referrer signed by that user; that every referral code account is held by exactly one user (its recorded owner) and every held code is owned by its holder; and that the owner of a code changes only through accept_referral_code signed by the recorded next owner.",
    level_note="Trusted: Coq kernel + vm_compute; the model (including the constraint translation, done by hand from the attributes) is tied to the code on generated histories only — the histories run the real constraint code, and acceptance must coincide exactly; for rejections the observed reason must be one of the violated checks. PDA injectivity (one user account per (store, owner), one code account per (store, code)), signer verification and transaction atomicity are runtime facts. Single store only (has_one = store is exercised with one store).",
    design_ref="DESIGN.md section 6, C33",
    explanation="Histories over 2-5 owners and 1-5 codes (incl. the zero code) through gmsol_store::entry; direct calls of Referral::set_referrer / set_code / unchecked_transfer_code / unchecked_complete_code_transfer.",
    trusted_base=["g6 mini runtime (harness/src/g6rt.rs): syscall stubs, System-program CreateAccount emulation, rollback of failed instructions"],
)
