SPEC = dict(
    id="C36",
    bin="c36",
    cases_quick=900,
    cases_thorough=30000,
    level="proof",
    technique="Coq byte-level model of the instruction buffer (header layout, account table, load_and_init / load_instruction / to_instruction) with a round-trip theorem over list Z + protocol state machine (create/approve/cancel/execute/increase_delay/role changes/clock) with invariants by induction + differential correspondence on the raw account bytes written by the real load_and_init_instruction, the real to_instruction, approve, is_executable (clock stub), increase_delay and the real Store role table",
    text="The executed instruction is byte-for-byte the buffered one (program id, every account key with signer/writable flags, data) and only the executor wallet can be a signer; execution needs an approval by a holder of the timelocked role who still holds it and at least the current delay since approval; approval happens at most once; the delay never decreases; executed or cancelled buffers never run again.",
    level_note="Tied to real code: the full byte image of the buffer account after load_and_init_instruction and after approve, load_instruction, to_instruction(false/true), InstructionHeader::{approve,is_approved,approved_at,apporver,is_executable}, TimelockConfig::increase_delay, Executor::role_name, roles::timelocked_role, Store::{grant,revoke,has_role}. Hand-transcribed (partial): the order of checks inside the timelock instruction handlers, CpiAuthenticate role checks via CPI, Anchor constraints (has_one = executor / rent_receiver / store, close = rent_receiver), account closing, the invoke_signed call itself; clock monotonicity is an assumption about the runtime (TTick dt >= 0).",
    design_ref="DESIGN.md section 6, C36",
    explanation="Ix: byte-level round trip cases; Hist: protocol histories.",
    shard=100,
)
