SPEC = dict(
    id="C01",
    bin="c01",
    cases_quick=3600,
    cases_thorough=180000,
    level="proof",
    technique="Coq theorems over a Gallina model of num.rs/utils.rs/fixed.rs (all widths, all operands) + differential correspondence with the Rust helpers evaluated inside Coq (vm_compute) + exact-rounding oracle on the Rust outputs",
    text="Every helper is proved to return exactly the floor/ceil/clamped value or to fail exactly when the divisor is zero or the exact result does not fit, for every bit width and every operand; the model is tied to the code on u64/9 and u128/20 by a boundary-heavy differential check and the rounding predicates are re-evaluated on the Rust outputs.",
    level_note="Trusted: Coq kernel + vm_compute; the hand-written model is tied to the code only on generated operands (type limits, near-divisibility, products straddling 2^w). Non-integer exponents of checked_pow_fixed (rust_decimal powd) are outside the property's quantifier and not modelled.",
    design_ref="DESIGN.md section 6, C01",
    explanation="18 helpers x {u64/9, u128/20}.",
)
