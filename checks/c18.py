SPEC = dict(
    id="C18",
    bin="c18",
    cases_quick=192,
    cases_thorough=3000,
    shard=12,
    coq_dirs=["lib", "C34", "C35/Model.v", "C18"],
    level="proof",
    technique="Coq simulation proof: RoleStore (two C34 fixed maps, u32 bitmaps over role creation indices, name check through the C35 fixed-string model) refines an abstract machine over (role key -> name, enabled) and a set of (address, role) grants, for arbitrary op sequences, with exact error codes + restart-rule theorems for Store::has_role / has_admin_role; differential correspondence on whole histories of a real zeroed+initialised Store with the LastRestartSlot sysvar served by a syscall stub, including raw byte dumps of the RoleStore; independent grant-set oracle on the Rust outputs",
    text="After any sequence of enable/disable/grant/revoke, has_role is Ok(true) exactly when the role is enabled and the (address, role) pair is in the grant set; every failing operation leaves the store bit-for-bit unchanged; stored members are exactly the addresses with at least one grant; the 33rd role and the 65th member are refused; after a cluster restart Store::has_role authorises exactly the RESTART_ADMIN holders and for every role, and the store authority is always admin.",
    level_note="A role argument is a (SHA-256 key, name bytes) pair: the hash itself is not modelled, the abstract machine is keyed by the hash and carries the stored name, so no collision-freedom assumption is needed. Role names that cannot be read back (exactly 32 bytes, interior NUL) are driven too: since fix 71aae69 they are refused at creation (before it they occupied a role slot for good, reported under C35). disable_role of an unknown role returns Ok(()) (no-op) — allowed by the text. The restart flag is has_restarted = (cached slot != sysvar slot); update_last_restarted_slot and the authority hand-over are pub(crate) and exercised only through init. Trusted: the bitmaps crate (Bitmap<32> over u32) modelled as Z.testbit/setbit/clearbit with its debug_assert!(index < 32).",
    design_ref="DESIGN.md section 6, C18",
    explanation="Modes: small dense interleavings, role capacity (36 creations), member capacity (67 grants, revoke at full), restart regimes, unreadable names; every history ends with a raw dump of all 32 role slots and 64 member slots.",
)
