SPEC = dict(
    id="C34",
    bin="c34",
    cases_quick=160,
    cases_thorough=2400,
    shard=8,
    level="proof",
    technique="Coq refinement proof (sorted array + count, modelled access by access with an explicit panic channel, against std++ gmap) + differential correspondence on whole op histories of the real fixed_map! instances (own instantiations at capacity 1..5/32/64/512 and the programs' RoleMap/Members/Tokens/DisabledMap/GlvMarkets/PriceMap/TokenMap/TokenBalances) evaluated inside Coq + ordinary-map oracle on the Rust outputs",
    text="For every capacity and every op sequence (get, get_mut-write, insert_with_options, insert, remove, get_entry_by_index, len, entries, clear) the array model returns exactly what a finite map returns, a new key into a full map is refused with the map unchanged, every array access is in bounds and the count never over/underflows (no panic), entries stay strictly sorted with a zeroed tail; the model is tied to the macro-generated code by histories that fill, churn at full capacity and drain each map, including raw byte dumps of every slot.",
    level_note="Known finding (class 1, InsertExpectPanicsOnFull): `insert` (= insert_with_options(..).expect) panics when a NEW key is inserted into a FULL map; reachable in the store through DisabledFeatures::set_disabled (80 possible (domain, action) pairs, capacity 64) and PriceMap::set (capacity 512). The refinement theorem covers it explicitly (the model returns the P_EXPECT panic exactly there and nowhere else). Trusted: core::slice::binary_search_by is modelled from the Rust >= 1.82 source (branch-free loop) — on strictly sorted slices every correct implementation returns the same result (lemma slice_search_spec); keys are compared as big-endian integers (driver prints ranks of the byte-lexicographic order for large maps, full keys for small ones); values are opaque bytes printed as integers, Default = all-zero (checked by the raw dumps).",
    design_ref="DESIGN.md section 6, C34",
    explanation="One case = one op history on one map instance, ending with a raw dump of every slot and the count.",
)
