import os
import subprocess
import sys

ROOT = os.path.dirname(os.path.dirname(os.path.abspath(__file__)))

SPEC = dict(
    id="C20",
    bin="c20",
    cases_quick=900,
    cases_thorough=30000,
    cases_search=1500,
    level="proof",
    coq_dirs=["lib", "gen/C16Tables.v", "gen/C19Tables.v", "C20"],
    technique="Coq theorems over a Gallina model of the market-config update decision (Anchor account validation, ensure_has_any_role with error propagation, RoleStore::has_role, in-handler only_market_keeper for non-updatable keys, buffer ownership / expiry / scan / sequential application) for all environments, keys, values and buffers + differential correspondence and property oracle on the REAL update_market_config / update_market_config_flag / update_market_config_with_buffer entrypoints executed in-process (gmsol_store::entry with syscall stubs) on hand-built ledgers",
    text="keeper_any_key, config_keeper_only_updatable, accepted_update_is_entitled, others_rejected, buffer_all_or_nothing, keeper_buffer, accepted_buffer_is_entitled, expired_never_applied — for all stores, callers, keys, flags, updatable sets and buffers; model tied to the real entrypoints (exact error code, exact written values, nothing else changed).",
    level_note="Known finding class 1 (MarketKeeperRoleNotEnabled): ensure_has_any_role([MARKET_KEEPER, MARKET_CONFIG_KEEPER]) propagates the error of the MARKET_KEEPER lookup, so in a store where that role is disabled or was never created a config keeper is rejected even for updatable keys; the 'may update' clause is proved under mk_status = Enabled and refuted otherwise (c20_mk_role_not_enabled_refuted); the safety clauses (only entitled callers are accepted, all-or-nothing, expiry) hold in every store. Not modelled: cluster restart (RESTART_ADMIN substitution, covered in C19's driver), the bit container behind the updatable sets (index -> bool), realloc/close of buffers. Trusted: Anchor's order (accounts, attribute, handler), mini runtime.",
    design_ref="DESIGN.md section 6, C20",
    explanation="A case is one real instruction on a fresh ledger: role-table state x caller bits x updatable set (grant/revoke history through the real set_market_config_updatable, each step checked: SetUpd) x key/flag/buffer x signature x foreign market/buffer x expiry around the stubbed clock.",
    trusted_base=["in-process mini runtime harness/src/g7rt.rs", "Anchor 0.31 constraint / access_control ordering", "translate/c16.py key and flag lists (validated by C16)"],
    rule="one case = one real instruction call with its complete relevant pre-state; distinct = distinct lines; all non-trivial",
)


def repo_root():
    try:
        from vlib import driver
        return getattr(driver, "REPO", "/repo")
    except Exception:
        return os.environ.get("VERIF_REPO", "/repo")


def pre(ctx):
    for script, gen in (("c16.py", "C16Tables.v"), ("c19.py", "C19Tables.v")):
        p = subprocess.run([sys.executable, os.path.join(ROOT, "translate", script), repo_root(), os.path.join(ROOT, "coq", "gen", gen)],
                           stdout=subprocess.PIPE, stderr=subprocess.STDOUT, text=True)
        if p.returncode != 0:
            raise RuntimeError(f"translate/{script} failed: {p.stdout.strip()[-600:]}")
