SPEC = dict(
    id="C44",
    bin="c44",
    cases_quick=1600,
    cases_thorough=30000,
    level="proof",
    technique="Coq model of validate_path / validate_and_init and of revertible_swap -> revertible_swap_for_one_side -> swap_along_the_path / swap_with_current over an abstract single-market swap, with theorems on path order, token chain, rejection of duplicates / no-op steps and conservation of recorded balances + differential correspondence against the REAL SwapMarkets::revertible_swap running on real Market accounts (real gmsol-model swaps, real Bank layer, real Oracle), per-hop amounts read from the emitted SwapExecuted events",
    text="A successful swap executes exactly the declared markets in order, each hop taking the previous hop's output token and amount, ends in the declared token, never accepts duplicate markets or no-op (pure market) steps at creation or execution, and moves recorded balances only by paired record_transferred_out/in of the swapped amount, so every token's total recorded balance over the markets involved is unchanged.",
    level_note="Tied to real code: validated_*_swap_path, validate_and_init/validate_path on real Market accounts, SwapMarkets::new, revertible_swap incl. both directions, current market at the start/end of a path, missing markets, wrong stores, disabled markets, underflow of recorded balances, and the expect() panic of the final validation. Abstract/trusted: the single-market swap amounts (taken from the SwapExecuted events; property C04), the numeric part of the balance validations (C22; the driver funds markets so that they pass), oracle price lookup. The hook run_revertible_swap plumbs RevertibleMarket::new + SwapMarkets::new + revertible_swap exactly as ExecuteOrderOperation does (no virtual inventories).",
    design_ref="DESIGN.md section 6, C44",
    explanation="PathValid / Create / Swap cases over an 8-market universe sharing 4 tokens (one pure market, one reversed pair).",
    shard=200,
)
