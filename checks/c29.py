SPEC = dict(
    id="C29",
    bin="c29",
    cases_quick=2400,
    cases_thorough=50000,
    level="proof",
    technique="Coq theorems over a Gallina model of try_adjust_price_with_max_deviation_factor and of the pipeline adjust -> validate_one (deviation) -> SmallPrices::from_price + differential correspondence with (a) the private function through a cfg(gmsol_verif) wrapper, (b) the REAL pipeline Oracle::with_prices_opts on in-memory custom price-feed accounts with a stubbed clock, (c) a hook-composed pipeline reaching reference = mid and mixed multipliers + band oracle on the Rust outputs",
    text="For all u32 values, multipliers <= 20, explicit or mid reference and all u128 factors: an adjusted price keeps its multipliers, its max is floor((r+dev)/step) <= r+dev and its min is ceil((r-dev)/step) >= r-dev; if it is then accepted by validate_one and from_price it satisfies 0 < min <= max and r-dev <= min <= max <= r+dev; an inverted or zero price is never accepted.  Known class 1: when the adjustment function returns None because the clamped value is not representable, the unchanged price is accepted if it is inside the deviation rounded up to the precision step.",
    level_note="Trusted: Coq kernel + vm_compute; hand-written model tied to the code on generated operands (values within +-3 steps of both band edges, u32 limit, factors 1e-8..4290 %, mixed multipliers, multipliers > 20 -> trap).  The theorems assume multipliers <= 20 and u32 values, which C26 proves for every converted price.  c29_pipeline_unadjusted_partial is the complement statement of known class 1 (RoundedDeviationTolerance), refuted literally by c29_rounded_tolerance_refuted.",
    design_ref="DESIGN.md section 6, C24 / C29",
    explanation="Adjust (direct), Pipe via real with_prices_opts (tags pipe/*), Pipe via hooks (tags pipe_hooks/*).",
    coq_dirs=["C01", "C26", "C29"],
)
