SPEC = dict(
    id="C35",
    bin="c35",
    cases_quick=2400,
    cases_thorough=30000,
    shard=300,
    coq_dirs=["lib", "C34/Model.v", "C34/Proofs.v", "C34/Refine.v", "C18/Model.v", "C18/MapSpec.v", "C18/Proofs.v", "C35"],
    level="proof",
    technique="Coq theorems over a Gallina model of fixed_str_to_bytes / bytes_to_fixed_str (with a full well-formed-UTF-8 validator) + differential correspondence on the real helpers at widths 1/4/32/64, on arbitrary stored bytes, on Store key / RoleMetadata / Market / TokenConfig / Executor names and on the RoleStore enable-grant-has-disable-enable chain + round-trip oracle on the Rust outputs",
    text="Every accepted name reads back unchanged (c35_accepted_roundtrip: all field widths, all UTF-8 strings), creation accepts exactly the names that are strictly shorter than the field and contain no NUL (c35_accepted_iff_readable), names that exactly fill the field or contain NUL are rejected at creation with the modelled error, and a freshly created role can be granted, is held, and can be disabled (c35_created_role_works through the C18 abstract machine).",
    level_note="History: on the original tree this check reported two violation classes (exact-fill names and names with interior NUL were accepted but unreadable); they were repaired in /repo by fix 71aae69 (known/C35.json, status fixed) and the model, theorems and oracle now follow the repaired code — nothing is tolerated: known_b is constantly 0 and the pre-fix outputs are negative cases. TokenConfigExt::update and Executor::try_init are pub(crate): their single name line (fixed_str_to_bytes(name)?) is executed through the same store helper and read back with the real TokenConfig::name() / Executor::role_name(). The SDK copy crates/sdk/src/utils/fixed_str.rs (client-side PDA seeds) is unchanged by the fix and is not linked by the harness.",
    design_ref="DESIGN.md section 6 (C35) and section 7",
    explanation="Strings of 1-4 byte characters with lengths 0, 1, N-2, N-1, N, N+1, 2N and NUL at the start / inside / at the end; arbitrary 32-byte arrays with planted well- and ill-formed UTF-8 sequences.",
)
