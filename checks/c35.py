SPEC = dict(
    id="C35",
    bin="c35",
    cases_quick=2400,
    cases_thorough=30000,
    shard=300,
    coq_dirs=["lib", "C34/Model.v", "C34/Proofs.v", "C34/Refine.v", "C18/Model.v", "C18/MapSpec.v", "C18/Proofs.v", "C35"],
    level="proof",
    technique="Coq theorems over a Gallina model of fixed_str_to_bytes / bytes_to_fixed_str (with a full well-formed-UTF-8 validator) + differential correspondence on the real helpers at widths 1/4/32/64, on arbitrary stored bytes, on Store key / RoleMetadata / Market / TokenConfig / Executor names and on the RoleStore enable-grant-has-disable-enable chain + round-trip oracle on the Rust outputs",
    text="A name is accepted and reads back unchanged exactly when it is strictly shorter than the field and contains no NUL (c35_roundtrip_iff, all widths, all UTF-8 strings); the code accepts more, and the two excess classes are characterised exactly (exact fill -> InvalidFormat on read; interior NUL -> reads back the prefix before the first NUL) with concrete witnesses replayed on the real code at every site; outside the two classes the property is proved literally, and a role is usable iff its name is readable.",
    level_note="The unchanged tree VIOLATES the property text in exactly two classes (known/C35.json: ExactFillNameUnreadable, InteriorNulNameTruncated), reported on every run; known_b pins each class to the exact observed misbehaviour so that any other failure is a new violation. Proposed minimal fix (not applied): in fixed_str_to_bytes reject `bytes.len() >= MAX_LEN` and names containing a 0 byte. TokenConfigExt::update and Executor::try_init are pub(crate): their single name line (fixed_str_to_bytes(name)?) is executed through the same store helper and read back with the real TokenConfig::name() / Executor::role_name(). The SDK copy crates/sdk/src/utils/fixed_str.rs is not linked by the harness.",
    design_ref="DESIGN.md section 6 (C35) and section 7",
    explanation="Strings of 1-4 byte characters with lengths 0, 1, N-2, N-1, N, N+1, 2N and NUL at the start / inside / at the end; arbitrary 32-byte arrays with planted well- and ill-formed UTF-8 sequences.",
)
