SPEC = dict(
    id="C42",
    bin="c42",
    crate="/verif/harness-sdk",
    cases_quick=2400,
    cases_thorough=80000,
    level="proof",
    technique="Coq theorems over a Gallina model of the swap path search AS IMPLEMENTED (in-place Bellman-Ford rounds with frozen predecessors and cached distances, negative-cycle test, DFS fallback with visited set and pruning, predecessor walk with step guard) for every market list, source, target and step limit + differential correspondence of distances, predecessors, arbitrage flag and every `to()` answer with the real MarketGraph (edge costs injected through a cfg(gmsol_verif) setter) + an independent oracle (path follows existing edges, length, no repeated market, rate = path cost, exact dynamic programme for 'nothing better within the limit')",
    text="Proved for all graphs: every recommended path is a chain of estimated edges from source to target, at most max_steps long, with no token or market repeated, and the reported rate never overstates the path; after Bellman-Ford the rate equals the path cost and no walk within the limit is cheaper. The clause 'no better path within the limit' fails in two narrow, characterised ways (known findings): `to` drops a Bellman-Ford path whose predecessor chain exceeds max_steps, and DFS pruning misses cheaper routes.",
    level_note="Trusted: Coq kernel + vm_compute; hand model of petgraph's iteration order (node indices in insertion order, edges(i) most-recent-first) and of the HashMap-free parts of MarketGraph, tied by the differential check of the private distance/predecessor vectors. Costs are integers in units of 10^-2 (Decimals of scale 2, exact addition); the rate exp(-d) itself is rust_decimal's series and only checked for consistency in the driver. Partial: for DFS results 'rate = path cost' is proved only as 'rate <= path's rate' (distance >= cost); equality is checked by the oracle on every case. Edge estimation (SwapEstimationParams::estimate) is outside the property.",
    design_ref="DESIGN.md section 6, C42",
    explanation="random and chain+shortcut graphs (2-6 tokens, 1-8 markets, self-loop markets, missing estimations, negative edges and cycles), max_steps 0..5, Bellman-Ford / DFS / fallback, all targets incl. unknown tokens.",
    trusted_base=["hand model of petgraph StableDiGraph iteration order", "rust_decimal exp (rate from distance) not modelled"],
)
