SPEC = dict(
    id="C23",
    bin="c23",
    cases_quick=1600,
    cases_thorough=20000,
    level="proof",
    technique="Coq state-machine model of the action lifecycle (create / execute / close / cancel_order_if_no_position over arbitrary histories) with invariants proved by induction + differential correspondence with the real ActionState / ActionHeader transitions, the real Close::preprocess of CloseDeposit and CloseGlvShift (hand-built Anchor account structs, real Store role table), the real execution_lamports and PayExecutionFeeOperation + lifecycle oracle on the driver's outputs",
    text="Terminal states are absorbing, completion/cancellation happens exactly once, a pending action can be closed only by its owner (GLV shift: also its funder) with every escrowed token and all lamports returned, a non-owner needs the keeper role and a terminal action, and a failed execution cancels the action leaving escrow and market untouched; proved for all histories of the model.",
    level_note="Tied to real code: ActionState, ActionHeader byte-level transitions, Close::preprocess (deposit + GLV-shift override), execution_lamports, PayExecutionFeeOperation. Hand-transcribed (partial): the order of steps inside the execute_* / close_* handlers, the soft/hard failure decision of Execute*Operation::execute, escrow token movements (SPL CPIs), Anchor account constraints, transaction atomicity. GLV shift: the funder (a keeper, rent payer) may close a pending shift; the model treats the funder as that action's owner-equivalent.",
    design_ref="DESIGN.md section 6, C23",
    explanation="StTrans/HdrTrans/Preproc/PayFee drive real functions; Hist composes them into lifecycles.",
    shard=150,
)
