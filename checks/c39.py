SPEC = dict(
    id="C39",
    bin="c39",
    cases_quick=400,
    cases_thorough=12000,
    level="proof",
    technique="Coq invariant proofs over a Gallina model of the competition program (on_executed callback, participant create/close, the leaderboard list operations exactly as coded) + differential correspondence: whole instruction histories run through the real Anchor entrypoint gmsol_competition::entry in an in-process mini runtime (real account validation, real borsh state), and the private update_leaderboard / extend_competition_time called directly on arbitrary boards and i64 boundary values + the property re-evaluated on the decoded accounts after every instruction",
    text="For every history of trade reports and participant creations at arbitrary times, and for every history that also closes participants under a monotone clock, the leaderboard is proved to hold at most five distinct traders in non-increasing volume order, each shown with the participant's current volume, with every participant that is not shown at or below the last entry of a full board (participant volumes are proved monotone); the end time is proved never to move earlier and never past max(old end, trigger time + cap), per instruction and over histories.",
    level_note="Trusted: Coq kernel + vm_compute; the hand-written model is tied to the code on generated histories only (real entrypoint incl. Anchor account validation, saturation boundaries, rejected instructions). The monotone-clock hypothesis of the theorem with close_participant is a Solana runtime fact, not checked by the program; with a non-monotone clock a closed-and-recreated participant can re-enter with a smaller volume (stated in notes/C39.md). After the end time the account is proved frozen, so 'latest volume' then means the volume at the last counted trade. PDA uniqueness (one participant account per trader) and transaction atomicity are runtime facts modelled as a map / no-op on failure.",
    design_ref="DESIGN.md section 6, C39",
    explanation="Histories: initialize_competition, create_participant_idempotent, on_executed (incl. malformed callbacks, wrong authority, missing event, foreign event), close_participant; direct calls of the two private functions through the cfg(gmsol_verif) re-export.",
    trusted_base=["g6 mini runtime (harness/src/g6rt.rs): Clock/Rent syscall stubs, System-program CreateAccount/Allocate/Assign/Transfer emulation, rollback of failed instructions"],
)
