SPEC = dict(
    id="C31",
    bin="c31",
    cases_quick=1500,
    cases_thorough=30000,
    level="proof",
    technique="Coq theorems over a Gallina model of Store::order_fee_discount_factor, GtState::{init(max_rank), set_order_fee_discount_factors, order_fee_discount_factor} and the SDK copy (generic in width and unit; invariant over whole update histories) + differential correspondence of program AND SDK (run on the same account bytes) with the model + range/formula/agreement oracle on both outputs",
    text="For every state reachable from GT init by any sequence of table updates (accepted or rejected) and referral-factor inserts: the discount is in [0, 100%]; the referred discount is >= the unreferred one and >= the referral discount, equal to 1-(1-rank)(1-referral) rounded down by < 1 unit; ranks above max_rank are rejected; tables with a factor above 100% are rejected; a referral factor above 100% makes the referred query fail; the SDK function is equal to the program function.",
    level_note="Trusted: Coq kernel + vm_compute; hand-written model tied to the code on generated histories (u128 / 10^20 only - the code is not generic). The program side is driven through cfg(gmsol_verif) wrappers of the pub(crate) GtState methods (hook commit in checks/hook_commits.txt) on a zeroed Store; the SDK side reads the same bytes (sizes asserted equal; field layout agreement is C40's subject). GT init is modelled only as far as max_rank (rest is C30).",
    design_ref="DESIGN.md section 6, C31",
    explanation="One case = one history (GT init, 3-12 steps: set table / insert referral factor / rank lookup / discount query with and without referral on program and SDK).",
)
