SPEC = dict(
    id="C21",
    bin="c21",
    cases_quick=1500,
    cases_thorough=20000,
    shard=200,
    level="proof",
    technique="Coq simulation proof: the revision-stamped copy-on-write buffer (storage entries, buffer entries, buffer revision; start / get / get_mut / commit exactly as buffer.rs) refines plain transactions over a store with a per-operation write-set, for arbitrary histories; differential correspondence on histories of the REAL RevertibleMarket on a real Market account (RevertibleMarket::new, accesses through its gmsol-model trait impls for all 16 pool kinds, clocks and other state, commit or drop), with the committed storage read back through Market getters and the MarketStateUpdated CPI event decoded; independent transaction-semantics oracle on the Rust outputs",
    text="For every history of operations (begin, any reads and writes of pools, clocks and other state, then commit or abandon; repeated abandonment; empty commits; clock changes in between): stored state changes only on commit, commit writes exactly the keys the operation accessed mutably with the values it observed, an operation reads its own writes, and a new operation never sees anything left in the buffer by an abandoned one (invariant: entry.rev <= buffer.rev, strictly below after start).",
    level_note="PARTIAL: the mint/burn deferral of RevertibleLiquidityMarket is modelled (to_mint/to_burn accumulate, nothing happens without commit: c21_mint_burn_deferred_partial) but NOT driven — it needs token-program CPIs (mini runtime); RevertibleSwapMarket / RevertiblePosition / virtual inventories use the same buffer pattern (RevertiblePoolBuffer) and are not driven here. Hypothesis of the history theorem: the u64 buffer revision does not overflow (start panics with 'rev overflow'; 2^64 operations). Uses the existing cfg(gmsol_verif) hook verif_hooks_g9::with_revertible_market (commit 6fe18ab) — no new hook. A mutable access marks the entry even if the value is not changed (e.g. a clock tick with zero elapsed time, a failed checked_add): modelled and observed through the event.",
    design_ref="DESIGN.md section 6, C21",
    explanation="2-8 operations per history, 0-8 accesses each, commit with probability 1/2; pools touched earlier are revisited with probability 1/2.",
)
