import os
import re
import subprocess
import sys

ROOT = os.path.dirname(os.path.dirname(os.path.abspath(__file__)))

SPEC = dict(
    id="C40",
    bin="c40",
    cases_quick=70,         # per 10: 1 random-bytes decode, 3 structured decodes, 2 x 6 pool ops, 1 discount, 3 actions; + sizes + full byte map
    cases_thorough=4000,
    cases_search=200,
    shard=25,
    level="translation_validation",
    coq_dirs=["lib", "gen/C16Tables.v", "gen/C40Tables.v", "C01", "C16", "C40"],
    technique="byte-level differential between the program's and the SDK's view of the SAME account bytes (random bytes, structured markets from the real Market::init + mutated fields): every flag, config key, pool (raw and through the gmsol_model traits), every parameter accessor, clocks, balances, meta; per-byte observable map of the whole Market account on both sides (layout/offsets); size_of of 22 zero-copy types; the Pool trait operations of the two Pool types; Store::order_fee_discount_factor on both sides; the gmsol_model actions swap / update_funding / distribute_position_impact / deposit / withdraw / increase / decrease executed on the program's RevertibleMarket / RevertibleLiquidityMarket / RevertiblePosition and on the SDK's MarketModel / PositionModel from the same state with an aligned clock, comparing report and full resulting state + Coq theorems over Gallina tables REGENERATED from both sources (pool / clock / config arms, flag orders, helper rows, constants, trait method bodies, parameter slots)",
    text="sdk_tables_eq_program_tables and sdk_param_slots_eq_program over the regenerated tables of both sides; on the real code: identical observables for identical bytes, identical byte->observable maps, identical sizes, identical pool operations (incl. checked_cancel_amounts on all pools: c40_cancel_agree), identical order-fee discount, identical action reports and resulting states.",
    level_note="Translation validation: the two implementations are compared by behaviour on generated account bytes; the Coq theorems cover the hand-duplicated tables (finite, vm_compute over regenerated tables). Finding class 1 SdkCancelAmountsAboveI128Max is FIXED (the SDK Pool carries the program's checked_cancel_amounts override; a fixed entry suppresses nothing). Limits: update_borrowing cannot be compared — the SDK MarketModel does not implement BorrowingFeeMarketMut at all (reported, not a disagreement); virtual inventories are disabled on both sides; action states are plausible trading states built through the SDK struct fields (no long histories); the program side uses the uncommitted revertible views (hooks 6fe18ab, 2e8e959); SDK clock = wall clock, program clock stub set to the same second (retry on tick); debug-assert-only differences on invalid pools (pure with a short amount) are excluded.",
    design_ref="DESIGN.md section 6, C40",
    explanation="Cases: Size, Decode (all observables, program vs SDK), ByteMap (byte range -> observables on each side), PoolOp, Discount, Act (action report hash + resulting state on each side).",
    trusted_base=["translate/c16.py, translate/c40.py", "harness/src/g7mm.rs observable extraction (Debug flattening of parameter structs)", "hooks verif_hooks_g9::with_revertible_market, verif_hooks_g7::{with_revertible_liquidity_market, with_revertible_position}"],
    rule="one case = one comparison of both sides on the same bytes/state; distinct = distinct lines; a skipped action (clock tick) is tagged /trivial",
)


def repo_root():
    try:
        from vlib import driver
        return getattr(driver, "REPO", "/repo")
    except Exception:
        return os.environ.get("VERIF_REPO", "/repo")


def pre(ctx):
    for script, gen in (("c16.py", "C16Tables.v"), ("c40.py", "C40Tables.v")):
        p = subprocess.run([sys.executable, os.path.join(ROOT, "translate", script), repo_root(), os.path.join(ROOT, "coq", "gen", gen)],
                           stdout=subprocess.PIPE, stderr=subprocess.STDOUT, text=True)
        if p.returncode != 0:
            raise RuntimeError(f"translate/{script} failed: {p.stdout.strip()[-600:]}")
        ctx.notes.append(p.stdout.strip())


def extra(ctx, problems_A, problems_B, violations):
    ev = os.path.join(ROOT, "evidence", "C40.json")
    ctx.extra_cov["programs"] = 2            # the two implementations compared (program, SDK)
    ctx.extra_cov["translator_tables"] = "pool arms, clock arms, config arms, flag orders, helper rows, constants, trait bodies, parameter slots (both sides)"
