import os, re

SPEC = dict(
    id="C09",
    bin="ps",
    bin_args=["--mode", "c09"],
    cases_quick=128,
    cases_thorough=4000,
    cases_search=96,
    shard=8,
    level="proof",
    coq_dirs=["lib", "C01", "C11/Proofs.v", "PS", "C07", "C09"],
    technique="Coq theorems over the Gallina model of check_liquidatable / validate / increase / decrease and of the liquidation and ADL gates of ops/order.rs::execute_decrease_position + full-state differential correspondence over generated histories (incl. check_liquidatable before and after every operation, evaluated by the real code) + the property evaluated on the implementation's observations + a source check that the gates are present in ops/order.rs in the modelled order",
    text="History level (c09_gate_history): from any world satisfying the C07 invariant, every successful operation of every history obeys its gate. Action level: Proved for all states, prices and configurations: a successful increase leaves check_liquidatable(validate thresholds) = None and, when the liquidation factor does not exceed the validation factor, also under the liquidation thresholds; a decrease that leaves the position open leaves it validated (factor-based reasons excluded) and the only reason it can be liquidatable for is MinCollateral (known class); a liquidation order succeeds only if check_liquidatable(pre-state, true, true) = Some _ and then size_delta = size, the position is removed and zeroed; an ADL order succeeds only if the pnl factor exceeded max_pnl_factor_for_adl, and then the factor after is strictly lower and not below min_pnl_factor_after_adl. The driver evaluates the real check_liquidatable before and after each operation of each history and the oracle checks these clauses on those observations.",
    level_note="Known finding (class 1, MinCollateralAfterPartialDecrease, replayed on the real code, proved as c09_min_collateral_after_partial_decrease_refuted): a partial decrease with a collateral withdrawal is validated without the minimum-collateral-value test and check_partial_close estimates the remaining collateral without fees, so the position can be left open yet liquidatable (MinCollateral) at the same prices. Hypothesis liq_factor_le (min_collateral_factor_for_liquidation <= min_collateral_factor when set) is a configuration constraint NOT validated by the model crate; the driver only generates configurations satisfying it. The liquidation/ADL gates live in programs/store/src/ops/order.rs::execute_decrease_position, which cannot run without the on-chain runtime: they are modelled in Coq (liquidate, auto_deleverage), replicated in the driver around the real model-crate calls, and checks/c09.py verifies on every run that the source still contains the gate statements in the modelled order (a dropped or reordered gate fails the check); the numeric behaviour of the gates' ingredients (pnl_factor_exceeded, pnl_factor, decrease flags) is covered by the correspondence.",
    design_ref="DESIGN.md section 6, C09",
    explanation="Histories as for C07 with more liquidation / ADL attempts, adverse and favourable price jumps, scarce pools, and partial decreases whose withdrawal leaves about the minimum collateral; case 0 is the scripted replay of the design-phase finding.",
    trusted_base=["harness/src/vmarket.rs", "driver replica of the gates of ops/order.rs::execute_decrease_position (guarded by the source check in checks/c09.py)"],
)

GATES = [
    # (name, regex on the whitespace-normalised body of execute_decrease_position), in source order
    ("liquidation flag", r"let is_liquidation_order = matches!\( ?secondary_order_type, Some\(SecondaryOrderType::Liquidation\) ?\);"),
    ("adl flag", r"let is_adl_order = matches!\( ?secondary_order_type, Some\(SecondaryOrderType::AutoDeleveraging\) ?,? ?\);"),
    ("liquidation closes whole position", r"if is_liquidation_order \{ require_gte!\( ?size_delta_usd, \*position\.size_in_usd\(\), CoreError::InvalidArgument ?,? ?\); \}"),
    ("adl required", r"if is_adl_order \{ let Some\(pnl_factor\) = position \.market\(\) \.pnl_factor_exceeded\(&prices, PnlFactorKind::ForAdl, params\.side\(\)\?\.is_long\(\)\) \.map_err\(ModelError::from\)\? \.map\(\|exceeded\| exceeded\.pnl_factor\) else \{ return err!\(CoreError::AdlNotRequired\); \}; pnl_factor_before_execution = Some\(pnl_factor\); \}"),
    ("decrease call", r"let report = position \.decrease\( ?prices, size_delta_usd, Some\(acceptable_price\), collateral_withdrawal_amount, DecreasePositionFlags \{ is_insolvent_close_allowed, is_liquidation_order, is_cap_size_delta_usd_allowed, \}, \)"),
    ("adl lowers factor", r"if is_adl_order \{ let pnl_factor_after_execution = position \.market\(\) \.pnl_factor\(&prices, params\.side\(\)\?\.is_long\(\), true\) \.map_err\(ModelError::from\)\?; require_gt!\( ?pnl_factor_before_execution\.expect\(\"must be some\"\), pnl_factor_after_execution, CoreError::InvalidAdl ?,? ?\);"),
    ("adl minimum", r"let min_pnl_factor = position \.market\(\) \.pnl_factor_config\(PnlFactorKind::MinAfterAdl, params\.side\(\)\?\.is_long\(\)\) \.and_then\(\|factor\| factor\.to_signed\(\)\) \.map_err\(ModelError::from\)\?; require_gte!\( ?pnl_factor_after_execution, min_pnl_factor, CoreError::InvalidAdl ?,? ?\); \}"),
]
CALLERS = [
    ("liquidation order kind", r"OrderKind::Liquidation => execute_decrease_position\( ?self\.oracle, prices, &mut position, &mut swap_markets, &mut transfer_out, &mut \*event_loader\.load_mut\(\)\?, &mut \*self\.order\.load_mut\(\)\?, true, Some\(SecondaryOrderType::Liquidation\),"),
    ("adl order kind", r"OrderKind::AutoDeleveraging => execute_decrease_position\( ?self\.oracle, prices, &mut position, &mut swap_markets, &mut transfer_out, &mut \*event_loader\.load_mut\(\)\?, &mut \*self\.order\.load_mut\(\)\?, true, Some\(SecondaryOrderType::AutoDeleveraging\),"),
    ("cap only for limit / stop-loss decreases", r"let is_cap_size_delta_usd_allowed = matches!\( ?order\.params\(\)\.kind\(\)\?, OrderKind::LimitDecrease \| OrderKind::StopLossDecrease ?,? ?\);"),
]


def _strip_comments(src):
    src = re.sub(r"//[^\n]*", "", src)
    return re.sub(r"\s+", " ", src)


def pre(ctx):
    """Translator-style source check: the gates modelled by PS/Actions.v (liquidate, auto_deleverage) are present
    in execute_decrease_position, in the modelled order, and the callers wire the order kinds as modelled."""
    repo = os.environ.get("VERIF_REPO", "/repo").rstrip("/")
    path = os.path.join(repo, "programs/store/src/ops/order.rs")
    src = _strip_comments(open(path).read())
    i = src.find("fn execute_decrease_position(")
    if i < 0:
        raise RuntimeError("execute_decrease_position not found in ops/order.rs")
    body = src[i:]
    pos = 0
    for name, rx in GATES:
        m = re.compile(rx).search(body, pos)
        if not m:
            raise RuntimeError(f"gate '{name}' not found (or out of order) in ops/order.rs::execute_decrease_position")
        pos = m.end()
    for name, rx in CALLERS:
        if not re.search(rx, src):
            raise RuntimeError(f"caller wiring '{name}' not found in ops/order.rs")
    ctx.notes.append(f"source check: {len(GATES)} gate statements and {len(CALLERS)} caller wirings of ops/order.rs::execute_decrease_position present in the modelled order.")
