SPEC = dict(
    id="C14",
    bin="c14",
    cases_quick=800,
    cases_thorough=20000,
    level="proof",
    technique="Coq theorems over a Gallina model of pending_position_impact_pool_distribution_amount and DistributePositionImpact::execute (all widths, all pools/minimums/rates/times, histories by induction) + differential correspondence with the real action run over vmarket::TestMarket (u64/9 and u128/20) + oracle re-evaluating the property on the Rust reports and pool read-backs",
    text="For every pool amount, minimum, rate and elapsed time the distributed amount is proved to be min(floor(elapsed*rate/UNIT), max(0, pool-min)); a distribution never increases the pool, never takes it below the minimum when it started above it and leaves it untouched at or below the minimum; by induction the same holds over any history of repeated distributions. The only failures are an overflow of elapsed*rate/UNIT (proved unreachable for u128/20 with u64 seconds) and an amount >= 2^(w-1); both leave the pool unchanged.",
    level_note="Trusted: Coq kernel + vm_compute; the hand-written model is tied to the code on generated histories (rates 0/whole/fractional/arbitrary, pools at type limits, minimum at/around the pool, elapsed times that land on, just below and just above the excess, clock ahead of now). The clock and pool are the harness TestMarket (same trait bodies as the model crate's test market); on failure the action itself does not roll the clock back (transaction atomicity is the runtime's job) and the model says so.",
    design_ref="DESIGN.md section 6, C14",
    explanation="Histories of 1-8 steps (Dist / external SetPool) plus single calls of the pure function, on u64/9 and u128/20.",
)
