SPEC = dict(
    id="C11",
    bin="c11",
    cases_quick=600,
    cases_thorough=30000,
    level="proof",
    coq_dirs=["lib", "C01", "PS/Model.v", "PS/Lemmas.v", "C11"],
    technique="Coq theorems over a Gallina model of PositionExt::pnl_value / size_delta_in_tokens, BaseMarketExt::pnl, pool_value_without_pnl_for_one_side and MarketUtils::cap_pnl (all widths, all positions, prices, pool states and caps) + differential correspondence with the real functions on the harness market at u64/9 and u128/20, evaluated inside Coq + the property evaluated on the Rust outputs",
    text="Proved for every width, position, market state, trader cap and pair of index prices: the uncapped pnl of a close never decreases (long) / increases (short) as the index price rises; the realised pnl does the same whenever the credited pnl equals the uncapped one in both evaluations (complement of the known class TraderCapBinding), and the cap provably does not bind while pool pnl <= pool value * factor; the credited pnl never exceeds the uncapped pnl, keeps its sign and never reduces a loss; both are exactly trunc(closed_tokens * total / size_in_tokens) with the total priced at the index price that is worse for the trader and closed tokens rounded against the trader; a partial close realises |x - X*d/S| < 1 + |X|/T of the full-close pnl X. The same predicates are evaluated on the Rust outputs (one evaluation, two prices, partial+full).",
    level_note="Known finding (class 1, TraderCapBinding, replayed on the real code and proved as c11_trader_cap_binding_refuted): when the trader cap binds, the realised pnl is cap*pnl/pool_pnl and is not monotone in the index price. Hypotheses of the theorems are machine-range facts only (unsigned values >= 0, 1 <= w, 0 < unit). Trusted: the hand-written model is tied to the code on generated states only (position sizes from 0 to the type limit, prices with min/max spread, pools sized so that the cap binds in about a quarter of the cases); vmarket.rs (harness copy of the test market with explicit fields).",
    design_ref="DESIGN.md section 6, C11",
    explanation="3 case kinds (one evaluation / two index prices / partial next to full close) x {u64/9, u128/20}; tags */capped are evaluations in which the trader cap changed the result.",
    trusted_base=["harness/src/vmarket.rs: harness market implementing the gmsol-model traits with public fields"],
)
