SPEC = dict(
    id="C41",
    bin="c41",
    crate="/verif/harness-sdk",
    cases_quick=1500,
    cases_thorough=45000,
    level="proof",
    technique="Coq theorems over a Gallina model of TransactionGroup::add/optimize, ParallelGroup::optimize, TransactionGroupOptions::optimizable/optimize, AtomicGroup::merge and transaction_size_with_luts, for every sequence of groups, options, payers and lookup tables + differential correspondence (acceptance of every add, the complete group structure after optimize, the size estimate and the real bincode size of every transaction built by the real code) + an independent oracle on the real outputs",
    text="Proved for all inputs: optimize keeps the flattened instruction sequence, never splits an atomic group, every final group is made from original groups by merges that `optimizable` admitted (all parts mergeable, same payer unless a change is allowed, count and size limits), everything accepted by add passed validate_one; the estimate equals the serialized size below 128 tables / 128 distinct accounts and differs from it by exactly the uncounted compact-u16 bytes otherwise. Both former findings (memo not counted by add; compact-u16 bytes missing from the estimate) are repaired: the estimate is proved EQUAL to the serialized size for all inputs and every produced transaction is proved within max_transaction_size.",
    level_note="Trusted: Coq kernel + vm_compute; the hand model of solana-sdk 2.1 message compilation and (short_vec/bincode) serialization length [real_size], of spl-memo/compute-budget instruction shapes, and of BTreeMap table order, all tied by the differential check against bincode::serialize of the transactions the real code builds. Signatures are NullSigner placeholders (size only). Partial: the parallel-group level condition (both parallel groups mergeable and single) is modelled, checked by corr and by the oracle, but the Made-provenance theorem is stated on atomic groups only; memo_signers is always None.",
    design_ref="DESIGN.md section 6, C41",
    explanation="histories of 1-6 adds of parallel groups (0-3 atomic groups, 0-8 instructions with up to 6 accounts, signer/writable flags, shared keys, compute-budget/memo program ids used as accounts), 0-3 lookup tables, limits 300..1232 bytes and 1..14 instructions, memo of 1..200 bytes, payer change allowed or not; 1/25 cases around the 128-entry compact-u16 boundary.",
    trusted_base=["hand model of solana-sdk v0 message compilation + serialized length", "spl-memo / ComputeBudget instruction shapes"],
)
