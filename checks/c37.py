SPEC = dict(
    id="C37",
    bin="c37",
    cases_quick=1200,
    cases_thorough=50000,
    level="proof",
    technique="Coq theorems: invariant over Config update histories; the claim sequence as a pure Z induction per token (invariant B_cur*G_0 >= B_0*G_rem); refinement of the bank-level transfer loop to that arithmetic, generic in the amount width + differential correspondence driving the real GtBank / Config methods through cfg(gmsol_verif) wrappers (whole bank life cycles) + proportionality / floor-share / drain oracle on the Rust outputs",
    text="GT and buyback factors never exceed 100% over any update history. A claim is refused iff it exceeds the remaining confirmed GT; otherwise it pays, per token, floor(balance*gt/remaining), never more than the balance; over any claim order every claimant gets at least floor(original balance * gt / confirmed total), the payouts plus the final balance equal the original balance, and when the claims add up to the confirmed total the bank is drained to zero for every token.",
    level_note="Trusted: Coq kernel + vm_compute; hand-written model tied to the code on generated histories. The per-token transfer loop of CompleteGtExchange::execute is NOT run through the instruction (it interleaves SPL-token CPIs and a store CPI); the driver replays its calls in the same order (get_balance, u64 checked_mul_div, record_transferred_out, record_claimed) on the real GtBank - that replay (25 lines in harness/src/bin/c37.rs::claim) is trusted to mirror instructions/gt_bank.rs. A failing multi-token call is rolled back by the driver as the transaction would be. Account constraints / CPIs of the instruction are out of scope here (C19/C22).",
    design_ref="DESIGN.md section 6, C37",
    explanation="1/5 Config histories, 4/5 GT bank life cycles (deposits, withdrawals, map overflow, confirm, reserve / all-out, claims in random order with refused over-claims, snapshots).",
)
