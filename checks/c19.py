import os
import re
import subprocess
import sys

ROOT = os.path.dirname(os.path.dirname(os.path.abspath(__file__)))
GEN = os.path.join(ROOT, "coq", "gen", "C19Tables.v")

SPEC = dict(
    id="C19",
    bin="c19",
    cases_quick=1,        # rounds = 1 + n/1500; one round = (not restarted, restarted) x 25 instructions x 26 callers x (signed, unsigned)
    cases_thorough=6000,
    cases_search=1,
    release_too=False,
    level="proof",
    coq_dirs=["lib", "gen/C19Tables.v", "C19"],
    technique="access table of all 184 entrypoints of the store/treasury/timelock/competition/liquidity-provider programs REGENERATED from the Rust source on every check (translate/c19.py: #[access_control] expression resolved through the Authenticate helpers and role constants, Context<T> accounts struct with Signer/has_one/constraint/seeds, Authentication impls, authentication calls in the delegated handler, roles named in doc comments) + hand-written policy table (coq/C19/Policy.v, one row per instruction) + Coq theorem every_instruction_guarded decided by vm_compute over the regenerated table + generic dispatcher theorems (reject_unchanged etc.) + dynamic part: the real gmsol_store::entry invoked in-process (syscall stubs) for 25 store-only instructions x 26 callers x signed/unsigned x restarted/not",
    text="Every entrypoint has a policy row and its source implements it (exact role guard on a Signer, or the listed ownership evidence and no role guard); the role installed is one the documentation names; in the dispatcher model a call whose guard fails returns the state unchanged for any handler body; on the real code, for the reachable instructions: accepted only with the documented privilege and signature, accepted with it, rejection leaves every account byte untouched.",
    level_note="PARTIAL dynamic coverage: 25 of 184 instructions are executed (store roles/config/features/market flags/market-config/GT factors/token map pointer/oracle clear/authority and receiver hand-over/buffer authority); the other 159 (orders, deposits, GLV, GT, oracle, treasury, timelock, competition, liquidity-provider) need token / oracle / CPI account sets and are covered by the static table theorem only. Static part trusts: Anchor's macro semantics (account constraints, then #[access_control], then the body; Signer check), the regex translator (shape-specific, fails hard), and that account constraints named as evidence mean what they say. Transaction atomicity on failure is the runtime's (modelled in the harness and in exec); additionally observed: no reachable instruction writes before rejecting. CpiAuthenticate (treasury/timelock) is checked statically only.",
    design_ref="DESIGN.md section 6, C19",
    explanation="A case is one real entrypoint call: Access prog name caller signed is_admin roles needs_owner is_owner restarted -> ok code touched_on_reject unchanged.",
    trusted_base=["translate/c19.py + translate/rustlite.py", "Anchor 0.31 macro expansion order and constraint semantics", "in-process mini runtime harness/src/g7rt.rs (AccountInfo construction, rollback on error, Clock/LastRestartSlot stubs, CPI swallowed)"],
    rule="one case per (instruction, caller, signed, restarted) call of the real entrypoint; all are non-trivial (a DenialCodes line carries the real error numbers); distinct = distinct lines",
)


def repo_root():
    try:
        from vlib import driver
        return getattr(driver, "REPO", "/repo")
    except Exception:
        return os.environ.get("VERIF_REPO", "/repo")


def pre(ctx):
    p = subprocess.run([sys.executable, os.path.join(ROOT, "translate", "c19.py"), repo_root(), GEN], stdout=subprocess.PIPE, stderr=subprocess.STDOUT, text=True)
    if p.returncode != 0:
        raise RuntimeError(f"translate/c19.py failed: {p.stdout.strip()[-600:]}")
    ctx.notes.append(p.stdout.strip())


def extra(ctx, problems_A, problems_B, violations):
    src = open(GEN).read()
    total = len(re.findall(r"^\s*mkInstr ", src, re.M))
    guarded = total - len(re.findall(r"\(GNone\)", src))
    ev = os.path.join(ROOT, "evidence")
    dyn = set()
    binp = os.path.join(ROOT, ".cache", "target", "debug", SPEC["bin"])
    if os.path.exists(binp):
        out = subprocess.run([binp, "--seed", str(ctx.seed), "--n", "1"], stdout=subprocess.PIPE, stderr=subprocess.DEVNULL, text=True).stdout
        dyn = set(re.findall(r'\tAccess "store"%string "([a-z_0-9]+)"%string', out))
        oks = set(re.findall(r'\tAccess "store"%string "([a-z_0-9]+)"%string "[^"]*"%string true (?:true|false) \[[^\]]*\] (?:true|false) (?:true|false) (?:true|false) true ', out))
        never_ok = sorted(dyn - oks)
        if never_ok:
            problems_B.append("dynamic part: no authorised call succeeded for: " + ", ".join(never_ok))
    ctx.extra_cov["instructions_total"] = total
    ctx.extra_cov["instructions_with_role_guard"] = guarded
    ctx.extra_cov["instructions_executed_dynamically"] = len(dyn)
    ctx.extra_cov["instructions_static_only"] = total - len(dyn)
    ctx.extra_cov["programs"] = 5
    ctx.notes.append(f"dynamic coverage: {len(dyn)} of {total} instructions executed; the rest static-only (partial)")
