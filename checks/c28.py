SPEC = dict(
    id="C28",
    bin="c28",
    cases_quick=1600,
    cases_thorough=36000,
    level="proof",
    technique="Coq theorems over a Gallina model of decode_full_report on byte lists (every slice expression is checked: out-of-range = None) and of the decode field mapping + PriceFeedPrice::from_chainlink_report + differential correspondence with the Rust functions (blob reported as pointer offset and length; reports built with the third-party encoder, decoded and converted by the real code) + panic probes of the unmodelled third-party decoders under catch_unwind",
    text="decode_full_report is proved total on all byte strings (no slice index out of range, no usize overflow), to fail exactly when the payload is shorter than 128 bytes or the described length word / blob does not lie inside it, and otherwise to return exactly payload[off+32 .. off+32+len] with off / len the big-endian low 8 bytes of the offset / length words (= the ABI-described slice when the high 24 bytes are zero; known class 1 otherwise).  from_chainlink_report is proved total, to reject negative or misordered bid / price / ask, to preserve bid <= price <= ask, and to divide all three by the same 10^k with k = find_divisor_decimals(ask) <= 18 so that they fit u128.",
    level_note="PARTIAL on the clause 'decoding never panics on any byte string': the third-party ReportDataVx::decode (chainlink-data-streams-report 1.2.1) and snap decompression are not modelled; their panic-freedom is only probed (random, mutated, truncated and compressed inputs under catch_unwind, tag probe*/...).  Trusted: Coq kernel + vm_compute; hand-written model tied to the code on generated inputs (offsets / lengths at every guard +-1, u64 overflow of offset + 32 and of length_end + length, non-zero high bytes, asks around (2^128-1)*10^i and 2^128*10^i, negative and misordered values, last-update stamps around +-1 s).",
    design_ref="DESIGN.md section 6, C28",
    explanation="FullReport, FromFields (versions 2, 3, 7, 8, 11 and unsupported), NoPanic probes.",
    coq_dirs=["C01", "C26", "C28"],
)
