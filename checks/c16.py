import os
import re
import subprocess
import sys

ROOT = os.path.dirname(os.path.dirname(os.path.abspath(__file__)))
GEN = os.path.join(ROOT, "coq", "gen", "C16Tables.v")

SPEC = dict(
    id="C16",
    bin="c16",
    cases_quick=120,       # random observations on top of the systematic sweep (one write per key / flag / store key, 6 snapshots x 2 sides)
    cases_thorough=4000,
    cases_search=200,
    shard=40,
    level="proof",
    coq_dirs=["lib", "gen/C16Tables.v", "C16"],
    technique="generic Coq theorem table_law (any agreeing, injective arm tables; all records, keys, values) + its side conditions and the parameter-slot/naming/SDK-agreement facts decided by vm_compute over Gallina tables REGENERATED from the Rust source on every check (translate/c16.py) + hand-written naming spec (coq/C16/ParamSpec.v) + behavioural cross-check on the real program Market/Store and the real SDK Market/MarketModel (write through each key, read every key, flag and model parameter slot)",
    text="get(set c k v) k' = if k = k' then v else get c k' for market config keys, config flags and store amount/factor/address keys; every market-model parameter slot reads exactly the key it is named after (closed-market key while closed and enabled); long/short slots use the ...long/...short keys; the SDK's duplicated tables and MarketModel slots agree with the program's.",
    level_note="Proof over tables produced by a shape-specific translator, tied to the code by behaviour on every run (translation validation): every key/flag/store key is written once through the real API and all keys/flags/slots read back on both the program and the SDK side; parameter slots are discovered from the Debug output of the real parameter structs. The bit container behind the flags (flags!/Bitmap) is modelled as index -> bool (C15 owns it). Store::get_amount_mut rejects claimable_time_window by design (documented in the source) — modelled as a guarded key. Value 0 of min_collateral_factor_for_liquidation reads as 'unset' (falls back to min_collateral_factor) — part of the spec.",
    design_ref="DESIGN.md section 6, C16",
    explanation="Cases: Snap = full snapshot (flags, keys, parameter slots) of a random market, program side and SDK side of the same bytes, all (closed, enable) states; KeyWrite / FlagWrite / StoreWrite = one write through a key and all keys before/after.",
    trusted_base=["translate/c16.py + translate/rustlite.py (validated by behaviour each run)", "Debug formatting of gmsol_model parameter structs (slot discovery)"],
    rule="a case is one observation of the real structs (snapshot or single write with full before/after key lists); distinct = distinct lines; rejected writes of unknown names are tagged */rejected and count as non-trivial failure-path cases",
)


def repo_root():
    try:
        from vlib import driver
        return getattr(driver, "REPO", "/repo")
    except Exception:
        return os.environ.get("VERIF_REPO", "/repo")


def pre(ctx):
    p = subprocess.run([sys.executable, os.path.join(ROOT, "translate", "c16.py"), repo_root(), GEN], stdout=subprocess.PIPE, stderr=subprocess.STDOUT, text=True)
    if p.returncode != 0:
        raise RuntimeError(f"translate/c16.py failed: {p.stdout.strip()[-600:]}")
    ctx.notes.append(p.stdout.strip())


def _table(name, src):
    m = re.search(r"Definition " + name + r" : [^=]*:= \[(.*?)\n\]\.", src, re.S)
    return re.findall(r'^\s*\(?"([^"]*)"', m.group(1), re.M) if m else []


def extra(ctx, problems_A, problems_B, violations):
    """The sweep must have touched every translated key / flag / store key / slot on the real code."""
    src = open(GEN).read()
    binp = os.path.join(ROOT, ".cache", "target", "debug", SPEC["bin"])
    if not os.path.exists(binp):
        return
    out = subprocess.run([binp, "--seed", str(ctx.seed), "--n", "0"], stdout=subprocess.PIPE, text=True).stdout
    written = set(re.findall(r'\tKeyWrite 0 "([^"]+)"%string \d+ true', out))
    fwritten = set(re.findall(r'\tFlagWrite "([^"]+)"%string (?:true|false) true', out))
    swritten = set((k, n) for k, n in re.findall(r'\tStoreWrite "([^"]+)"%string "([^"]+)"%string', out))
    slots = {0: set(), 1: set()}
    for m in re.finditer(r"\tSnap ([01]) (?:true|false) \[.*?\] \[.*?\] \[(.*)\]$", out, re.M):
        slots[int(m.group(1))] |= set(re.findall(r'\("([^"]+)"%string, ', m.group(2)))
    missing = [f"key {k}" for k in _table("config_keys", src) if k not in written]
    missing += [f"flag {k}" for k in _table("config_flags", src) if k not in fwritten]
    for kind in ("amount", "factor", "address"):
        missing += [f"{kind} key {k}" for k in _table(kind + "_keys", src) if (kind, k) not in swritten]
    missing += [f"program slot {s}" for s in _table("p_params", src) if s not in slots[0]]
    missing += [f"SDK slot {s}" for s in _table("s_params", src) if s not in slots[1]]
    unknown = [f"program slot {s}" for s in slots[0] if s not in _table("p_params", src)] + [f"SDK slot {s}" for s in slots[1] if s not in _table("s_params", src)]
    if missing:
        problems_B.append("behavioural sweep does not cover: " + "; ".join(missing[:8]))
    if unknown:
        problems_B.append("real parameter structs have slots the translated tables lack: " + "; ".join(sorted(unknown)[:8]))
    ctx.extra_cov["translator_tables"] = dict(
        config_keys=len(_table("config_keys", src)), config_flags=len(_table("config_flags", src)),
        program_slots=len(_table("p_params", src)), sdk_slots=len(_table("s_params", src)),
        store_keys=sum(len(_table(k + "_keys", src)) for k in ("amount", "factor", "address")))
    ctx.extra_cov["programs"] = 12  # translated tables validated by behaviour: p_get, p_get_mut, s_get, flags x2, p_params, s_params, helpers x2, amount, factor, address
