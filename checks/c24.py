SPEC = dict(
    id="C24",
    bin="c24",
    cases_quick=2400,
    cases_thorough=50000,
    level="proof",
    technique="Coq theorems over a Gallina model of the whole acceptance path for custom price feeds (with_prices_opts -> parse_from_feed_account / check_and_get_price -> adjustment -> validate_one -> from_price -> merge_range / finish -> f -> clear_all_prices, and validate_time), reusing the C26/C27/C29 models + differential correspondence with the REAL Oracle::with_prices_opts driven in-process on Store / TokenMap / PriceFeed accounts with a stubbed clock + literal-property oracle on the outputs",
    text="For all token configs, feed accounts, clock values and store limits: an accepted token is known, enabled, from a program-owned feed of the expected provider and feed id, 0 < min <= max with one multiplier, not older than max age after the timestamp adjustment, not beyond now + max future excess, within the feed heartbeat, open unless closed prices are allowed; the recorded range is the exact min / max of the adjusted timestamps and its spread is within the allowed range; the wrapped operation runs only if every token was accepted; the oracle is cleared on every path (histories).  Deviation: inside reference +- configured deviation except for two known classes (rounded-up tolerance, zero computed deviation).",
    level_note="Trusted: Coq kernel + vm_compute; hand-written model tied to the real pipeline on generated inputs (timestamps within +-2 of the age / future / heartbeat edges and at the i64 limits, limits 0 / u64::MAX, prices within +-2 steps of the band edges, every rejection cause, operation failing, too few accounts, uncleared start).  Only custom (program-owned) feeds are modelled; Pyth / Switchboard account parsing is outside the model (Err 99) and not driven.  c24_accepted_in_band_partial is the complement statement of known classes 1 and 2, each refuted literally by a vm_compute witness that is also replayed on the real code (corpus/C24/witness.txt).",
    design_ref="DESIGN.md section 6, C24 / C29",
    explanation="Run = one with_prices_opts call (1..5 tokens); VTime = Oracle::validate_time on crafted states.",
    coq_dirs=["C01", "C26", "C27", "C29", "C24"],
)
