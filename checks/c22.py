SPEC = dict(
    id="C22",
    bin="c22",
    cases_quick=900,
    cases_thorough=30000,
    level="proof",
    technique="Coq model of validate_market_balance_for_the_given_token / validate_market_balances(_excluding…), the store Pool (pure pools, ceil/floor halves), the Bank layer (record_transferred_in/out) and a bank-level world of several markets sharing vaults (transfer in, failed-execution round trip, validated move between markets, donation, validated market operation followed by pay-out, fee claim); invariants by induction over histories + differential correspondence with the real validation functions, the real Bank layer and the real pool mutators running on real Market accounts through the real RevertibleMarket (commit included)",
    text="An accepted validation implies that the recorded balance of each pool token, minus what is still to be paid out, covers liquidity + swap impact + claimable fees and separately all position collateral; every modelled operation ends with every touched market covered; for every token the recorded balances of all markets sharing the vault never exceed the vault, for all histories.",
    level_note="Partial: the history-level theorem is about the bank-level model whose operations mirror the compositions found in the handlers (MarketTransferIn/Out, swap hops and shifts with validation of the giving market, unchecked_deposit/withdraw and order execution as 'validate with outputs excluded, then pay out', claim_fees_from_market); that the handlers use only these compositions, the SPL transfers (vault counter), and funding-fee / GT / builder-fee flows are read, not executed. The real instruction entrypoints are not run. Pool amounts are unsigned (op_wf).",
    design_ref="DESIGN.md section 6, C22",
    explanation="Val: the three validation functions on one real market with balances straddling both thresholds (also pure markets); Hist: 4 real markets over 3 tokens sharing vaults; SwapVault: the real SwapMarkets::revertible_swap committed over 8 real markets sharing 4 vaults (paths ending in the current market included), oracle: recorded balances per token conserved and within the ghost vault counter.",
    shard=100,
)
