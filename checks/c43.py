SPEC = dict(
    id="C43",
    bin="c43",
    crate="/verif/harness-sdk",
    cases_quick=2700,
    cases_thorough=120000,
    level="proof",
    technique="Coq theorems over a Gallina model of crates/sdk/src/utils/fixed.rs and of the rust_decimal 1.37.2 operations it calls (try_from_i128_with_scale, from_i128_with_scale, rescale loops, mantissa, scale, Neg) + differential correspondence with the real SDK functions evaluated inside Coq (vm_compute) + exactness/round-trip oracle on the Rust outputs",
    text="Round trip integer -> Decimal -> integer is proved exact for every value of magnitude <= 2^96-1 with decimals <= 28 (all six conversion pairs), every returned Decimal is proved to denote num/10^decimals exactly and every way back to return the original or an error, for ALL inputs outside the known-finding classes (silent digit loss above 2^96-1 / above 28 decimals, two error-not-silent classes); the conversions are proved never to panic in either direction and the digit loss is characterised exactly.",
    level_note="Trusted: Coq kernel + vm_compute; hand model of rust_decimal 1.37.2 (96-bit magnitude, 8-bit scale field, rescale's multiply-while-fits / divide-and-round-on-last-remainder loops, try_from range checks) read from ~/.cargo/registry source and tied to the crate only through the differential check. Back conversions of arbitrary Decimals to fewer decimals round half-up (rust_decimal's documented rescale rule): proved and checked, but outside the property's quantifier (integers and decimals).",
    design_ref="DESIGN.md section 6, C43",
    explanation="6 round-trip kinds (u128/i128 fixed, u64/i64 amount, u128/i128 value at 20 decimals) + 3 back conversions on arbitrary Decimals; decimals 0..255.",
    trusted_base=["hand model of rust_decimal 1.37.2 Decimal (flags/scale/96-bit magnitude, rescale, try_from_i128_with_scale)"],
)
