SPEC = dict(
    id="C26",
    bin="c26",
    cases_quick=3000,
    cases_thorough=75000,
    level="proof",
    technique="Coq theorems over a branch-by-branch Gallina model of Decimal::try_from_price / to_unit_price / with_unit_price, find_divisor_decimals / convert_to_u128_storage and the Pyth conversions (all u128 prices, all u8 decimals) + differential correspondence with the Rust functions evaluated inside Coq + exact-truncation oracle on the Rust outputs",
    text="try_from_price is proved to return exactly floor(price*10^precision/10^decimals) with multiplier 20-token_decimals-precision, ExceedMaxDecimals exactly when a decimal setting is above 20 (or token_decimals+precision > 20), and Overflow exactly when that floor does not fit u32; hence the unit price never exceeds the exact price and is less than one step 10^multiplier below it.  The same exactness is proved for with_unit_price (floor/ceil), the U192->u128 storage conversion (no panic, floor, digit count minimal up to the u128::MAX edge) and the Pyth conversions.",
    level_note="Trusted: Coq kernel + vm_compute; the hand-written model is tied to the code on generated operands (values straddling 2^32, multiples of the truncation divisor +-1, intermediate products straddling 2^128, every table entry of get_power_bounds +-k, all decimal settings 0..255). Panics of to_unit_price/with_unit_price for decimal_multiplier >= 39 (pub field, never produced by try_from_price) and of -i32::MIN in the Pyth exponent are modelled as explicit outcomes.",
    design_ref="DESIGN.md section 6, C26",
    explanation="8 entry points: try_from_price(+to_unit_price), to_unit_price, with_unit_price, PriceFeedPrice::try_to_price, find_divisor_decimals, convert_to_u128_storage, pyth_price_value_to_decimal, pyth_price_with_confidence_to_price.",
)
