SPEC = dict(
    id="C25",
    bin="c25",
    cases_quick=700,
    cases_thorough=15000,
    level="proof",
    technique="Coq history theorems (fold_left over arbitrary update lists from a zero-initialised feed) over a Gallina model of PriceFeed::update + differential correspondence with the real function through a cfg(gmsol_verif) wrapper under a stubbed clock, whole histories per case + property oracle on the observed states",
    text="For every sequence of updates with arbitrary timestamps, prices, slots, clock values (even going backwards), future-excess settings and modes: the price timestamp, the publication slot and the publication time never decrease at any point of the history, the stored price always satisfies min <= price <= max (and ts >= 0), a rejected update leaves the account unchanged, an accepted update stores the whole price and is not from the future, and in idempotent mode an older update is skipped (Ok(false), no change) exactly when the clock is sane.",
    level_note="Trusted: Coq kernel + vm_compute; hand-written model tied to the code on generated histories (1..30 updates; older / equal / future-edge / i64::MAX timestamps; clock stalls and regressions; inverted and out-of-range prices; max_future_excess 0 / u64::MAX).  The rest of the PriceFeedPrice payload is represented by its decimals byte (copied as a whole by the code).",
    design_ref="DESIGN.md section 6, C25",
    explanation="One case = one history on one account; state read back from the Pod bytes after every update.",
)
