SPEC = dict(
    id="C45",
    bin="c45",
    cases_quick=1600,
    cases_thorough=30000,
    level="proof",
    technique="Coq model of Glv composition (init / insert / remove / config / balance), GlvMarketConfig::validate_balance and the GLV pricing of deposits and withdrawals (crates/model/src/glv.rs + the pricing part of ops/glv.rs) on top of C01's usd<->token conversions; theorems by induction over histories and by integer arithmetic + differential correspondence with the real Glv methods on a real Glv with real Market accounts, the real validate_market_token_balance, and the real get_glv_value_for_market / get_market_token_amount_for_glv_value / pool_value on markets implementing the real model traits",
    text="Every market in a GLV carries the GLV's long and short token for every history of management operations; after a deposit the market's GLV balance is within the configured maximum amount and value; a deposit immediately followed by a withdrawal of the minted GLV tokens never returns more market tokens, provided the deposit-side minimised pool value does not exceed the withdrawal-side maximised pool value (the complement is the listed known finding).",
    level_note="Partial: the pool values per market (pool_value for MaxAfterDeposit / MaxAfterWithdrawal, min / max) are inputs of the model (measured on the real pool_value in the driver; their ordering min <= max is C06's subject); the orchestration of perform_glv_deposit / perform_glv_withdrawal (which value is maximised, index-price override, order of steps, market deposit before the GLV pricing, token transfers, mint / burn) is re-stated in the driver; the theorem needs GLV supply > 0 (first deposits go to the locked first-deposit receiver unless min_tokens_for_first_deposit = 0). Known finding class 1: max_pnl_factor_for_deposit < max_pnl_factor_for_withdrawal.",
    design_ref="DESIGN.md section 6, C45",
    explanation="Comp: management histories on a real Glv; Limit: validate_balance; Price: the two model-crate pricing functions; RoundTrip: deposit then immediate withdrawal.",
    shard=200,
)
