SPEC = dict(
    id="C32",
    bin="c32",
    cases_quick=2400,
    cases_thorough=90000,
    level="proof",
    technique="Coq theorems over a Gallina model of the builder-fee helpers, Order::record_builder_fee and SettleBuilderFee::invoke (generic in value width, amount width and unit; invariant over whole order lives) + differential correspondence: helpers through cfg(gmsol_verif) wrappers, and the REAL settle_builder_fee instruction executed in-process through the program entrypoint (account arena, Anchor constraints, SPL-token transfer_checked emulated on the account bytes) + oracle on the Rust outputs",
    text="fee = ceil(floor(size*factor/UNIT)/min price) or failure exactly for zero price / overflow; increase: after + fee = increment, or the order fails (fee not computable, not a u64, or above the increment - never a partial charge); decrease: the amount recorded by one execution is min(fee, output) <= output; settlement transfers min(recorded, escrow), zeroes the record, and a second settlement is a no-op; over any order life with charges routed into the escrow, the escrow always covers the record and settlement pays it in full.",
    level_note="Trusted: Coq kernel + vm_compute; hand-written model tied to the code on generated cases. The four helpers are private: driven through thin cfg(gmsol_verif) wrappers (hook commit in checks/hook_commits.txt). The INLINE charge sequences of execute_increase_position / execute_decrease_position (compute -> clamp -> u64 -> record) are replayed by the driver with the real helpers in the same order (they sit in the middle of position execution; their replay is trusted to mirror ops/order.rs). Settlement is the real instruction; the SPL token program is emulated (transfer_checked only: mint/owner/decimals checks, insufficient funds, overflow) and the event self-CPI is accepted without decoding.",
    design_ref="DESIGN.md section 6, C32",
    explanation="compute / clamp / charge / estimate cases plus order histories (record, decrease path, increase path, settlement twice in a row, short escrow).",
)
