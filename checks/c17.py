import os
import re
import subprocess
import sys

ROOT = os.path.dirname(os.path.dirname(os.path.abspath(__file__)))
GEN = os.path.join(ROOT, "coq", "gen", "C17Tables.v")

SPEC = dict(
    id="C17",
    bin="c17",
    cases_quick=12,      # number of real Market::init runs (2 canonical + random); ~87 lines each + 64 constants
    cases_thorough=400,
    cases_search=40,
    release_too=True,
    level="proof",
    coq_dirs=["lib", "gen/C17Tables.v", "C17"],
    technique="Gallina tables REGENERATED from the Rust source on every check (translate/c17.py: MarketConfig::init assignments, get arms, folded constants, Pools::init, Market::init) + hand-written documentation spec (coq/C17/DefaultsSpec.v) + finite-domain Coq theorems decided by vm_compute over the regenerated tables + behavioural validation: the real Market::init run natively and every key/flag/pool/constant compared with the tables",
    text="For every config key, flag and pool kind of the translated enums: the value right after Market::init equals the documented default constant; pools are pure iff the token mints coincide except position-impact / borrowing-factor / total-borrowing; all amounts are zero. Proved over the regenerated tables (finite domain), tables validated against the real code by behaviour on every run.",
    level_note="Proof is over tables produced by a shape-specific translator (fallible regex reader, fails hard on unknown shapes); tie to the code = behavioural cross-check of every table entry on the real Market::init / constants in the same run (translation validation). 'Documented default' = the DEFAULT_<KEY> naming rule plus 11+2 hand-listed exceptions (DESIGN.md 6 C17); the numeric value of a constant is itself the documentation, so a changed constant value is not a violation. Zeroed account before init is assumed (Anchor `init`).",
    design_ref="DESIGN.md section 6, C17",
    explanation="One generated case = one observation of the real code: CfgDefault/FlagDefault/PoolDefault after a real Market::init (pure and impure, random mints/bump/name/clock), ConstVal/ConstBool = real constant values.",
    trusted_base=["translate/c17.py + translate/rustlite.py (validated by behaviour each run)", "solana_program syscall stubs for Clock"],
    rule="every line is one key/flag/pool/constant observed on the real code after a real Market::init; distinct = distinct lines; none is trivial",
)


def repo_root():
    try:
        from vlib import driver
        return getattr(driver, "REPO", "/repo")
    except Exception:
        return os.environ.get("VERIF_REPO", "/repo")


def pre(ctx):
    p = subprocess.run([sys.executable, os.path.join(ROOT, "translate", "c17.py"), repo_root(), GEN], stdout=subprocess.PIPE, stderr=subprocess.STDOUT, text=True)
    ctx.translator_out = p.stdout.strip()
    if p.returncode != 0:
        raise RuntimeError(f"translate/c17.py failed: {p.stdout.strip()[-600:]}")
    ctx.notes.append(ctx.translator_out)


def _table(name, src):
    m = re.search(r"Definition " + name + r" : [^=]*:= \[(.*?)\n\]\.", src, re.S)
    return re.findall(r'^\s*\(?"([^"]*)"', m.group(1), re.M) if m else []


def extra(ctx, problems_A, problems_B, violations):
    """Coverage of the behavioural validation: every translated key / flag / pool kind must have been
    observed on the real code (pure and impure), and every constant the proofs rely on must have been
    compared with the real constant."""
    src = open(GEN).read()
    keys, flags, kinds = _table("config_keys", src), _table("config_flags", src), _table("pool_kinds", src)
    used_consts = set(re.findall(r'"(?:DEFAULT|MARKET)_[A-Z0-9_]+"', re.search(r"Definition init_assign.*?\n\]\.", src, re.S).group(0)))
    used_consts |= set(re.findall(r'"DEFAULT_[A-Z0-9_]+"', re.search(r"Definition init_flag_assign.*?\n\]\.", src, re.S).group(0)))
    used_consts = {c.strip('"') for c in used_consts}
    # + the constants the spec names
    spec = open(os.path.join(ROOT, "coq", "C17", "DefaultsSpec.v")).read()
    exc = dict(re.findall(r'\("([a-z_]+)", "(DEFAULT_[A-Z0-9_]+)"\)', spec))
    for k in keys:
        used_consts.add(exc.get(k, "DEFAULT_" + k.upper()))
    binp = os.path.join(ROOT, ".cache", "target", "debug", SPEC["bin"])
    if not os.path.exists(binp):
        return
    out = subprocess.run([binp, "--seed", str(ctx.seed), "--n", "2"], stdout=subprocess.PIPE, text=True).stdout
    seen = dict(cfg=set(), flag=set(), pool=set(), const=set())
    for l in out.split("\n"):
        m = re.match(r'\S+\t(CfgDefault|FlagDefault|PoolDefault) (true|false) "([^"]+)"', l)
        if m:
            seen[{"CfgDefault": "cfg", "FlagDefault": "flag", "PoolDefault": "pool"}[m.group(1)]].add((m.group(2), m.group(3)))
        m = re.match(r'\S+\t(ConstVal|ConstBool) "([^"]+)"', l)
        if m:
            seen["const"].add(m.group(2))
    missing = []
    for pure in ("true", "false"):
        missing += [f"key {k} (same={pure})" for k in keys if (pure, k) not in seen["cfg"]]
        missing += [f"flag {k} (same={pure})" for k in flags if (pure, k) not in seen["flag"]]
        missing += [f"pool {k} (same={pure})" for k in kinds if (pure, k) not in seen["pool"]]
    missing += [f"constant {c}" for c in sorted(used_consts) if c not in seen["const"]]
    # and nothing observed that the tables do not know
    extra_seen = [k for _, k in seen["cfg"] if k not in keys] + [k for _, k in seen["flag"] if k not in flags] + [k for _, k in seen["pool"] if k not in kinds]
    if missing:
        problems_B.append("behavioural validation does not cover: " + "; ".join(missing[:8]))
    if extra_seen:
        problems_B.append("real enums have variants the translated tables lack: " + "; ".join(sorted(set(extra_seen))[:8]))
    tables = dict(config_keys=len(keys), config_flags=len(flags), pool_kinds=len(kinds), constants_used=len(used_consts))
    ctx.extra_cov["translator_tables"] = tables
    ctx.extra_cov["programs"] = 9  # translated tables validated by behaviour: keys, flags, kinds, get arms, init assigns, init flags, constants, pools init, pool arms
    ctx.extra_cov["exhaustive"] = True
