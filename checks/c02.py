SPEC = dict(
    id="C02",
    bin="c02",
    cases_quick=2800,
    cases_thorough=140000,
    level="proof",
    technique="Coq theorems over a Gallina model of params/fee.rs (all widths, all operands and factors) + differential correspondence with FeeParams::{fee,receiver_fee,apply_fees,base_position_fees}, PositionExt::position_fees (liquidation fee, borrowing split, totals) evaluated inside Coq + exact-split oracle on the Rust outputs",
    text="apply_fees is proved to split the gross amount exactly (net + pool + receiver = amount, fee <= amount) whenever it returns, to return for every configuration with factors <= 100%, and to fail exactly when a share would exceed its base; the discount is monotone; order fees split fee_value/min_price exactly and are bounded by the size delta for factors <= 100%; the liquidation fee amount is the ceiling of value/min_price; pool share + receiver share of PositionFees equals the total cost. Known finding: factors above 100% are not rejected on the order / liquidation path.",
    level_note="Trusted: Coq kernel + vm_compute; hand-written model tied to the code on generated operands (u64/9 and u128/20). LiquidationFeeParams::fee is pub(crate) and is reached through PositionExt::position_fees on the harness market; its zero-price branch is reachable only in release builds (debug_assert in position_fees), so it is exercised in the thorough tier only. The bound fee_value <= size_delta_usd is proved for factor <= UNIT only: for factor > UNIT the code does not fail (known finding classes 1 and 2).",
    design_ref="DESIGN.md section 6, C02",
    explanation="5 entry points x {u64/9, u128/20}; ~1/4 of the configurations have a factor above 100%.",
)
