SPEC = dict(
    id="C30",
    bin="c30",
    cases_quick=400,
    cases_thorough=15000,
    level="proof",
    technique="Coq invariant proofs over a Gallina model of GtState / UserGtState / GtExchangeVault and Order::unchecked_process_gt (histories over several users and vaults) + differential correspondence driving the REAL structs (bytemuck-zeroed GtState inside a real Store, UserHeader, GtExchangeVault, GtExchange, Order) through cfg(gmsol_verif) thin wrappers with a stubbed Clock + the property re-evaluated on the observed fields after every operation",
    text="For every history of mints, burns, fee-driven mints, exchange requests and vault confirmations over several users it is proved that the buyback-able supply equals the sum of user balances (and total minted the sum of per-user totals), total minted never decreases, the minting cost equals the initial cost grown floor(total/step) times (hence independent of how minting was split), every user's rank is the number of thresholds at or below the balance (init rejects a zero threshold), minting for a USD amount yields floor(value/cost) units with the remainder carried unminted, and a vault is depositable exactly in its own time window and confirmable exactly in a later one.",
    level_note="The defect ZeroThresholdFreshUser (a rank table with threshold 0 was accepted, leaving never-minted users with rank 0) is repaired in /repo: GtState::init rejects it, and the rank theorem now holds for all users. Trusted: Coq kernel + vm_compute; the model is tied to the code on generated histories only; failed operations are rolled back by the driver (transaction atomicity is a runtime fact; the code itself documents unchecked_request_exchange as non-atomic). The cumulative inverse cost factor is modelled and compared but no theorem is stated about it. Event emission is a stubbed CPI.",
    design_ref="DESIGN.md section 6, C30",
    explanation="Histories (Mint/Burn/Proc/VInit/Req/Conf over 1-4 users, 3 vaults) + direct get_mint_amount / next_minting_cost / window predicate cases.",
)
