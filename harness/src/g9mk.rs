//! g9 market environment: real `Market` accounts (Market::init + pools / recorded balances set through the
//! real `RevertibleMarket`), a real `Oracle` with injected prices, and event capture.
use crate::g9rt::{self, Arena};
use anchor_lang::prelude::*;
use anchor_lang::{AnchorDeserialize, Discriminator};
use gmsol_model::{Bank, BaseMarketMutExt};
use gmsol_store::events::SwapExecuted;
use gmsol_store::states::market::revertible::market::RevertibleMarket;
use gmsol_store::states::{Market, Oracle};
use gmsol_store::verif_hooks_g9 as hk;

/// Keeps `AccountInfo`s alive and hands out references with erased lifetimes (valid while `self` lives).
#[derive(Default)]
pub struct Refs {
    infos: Vec<Box<AccountInfo<'static>>>,
}
impl Refs {
    pub fn new() -> Self {
        Self::default()
    }
    pub fn r(&mut self, a: AccountInfo<'static>) -> &'static AccountInfo<'static> {
        self.infos.push(Box::new(a));
        let p: *const AccountInfo<'static> = &**self.infos.last().unwrap();
        unsafe { &*p }
    }
}

/// Heap-allocated all-zero value of a Pod type (no large stack temporaries).
pub fn zeroed_box<T: bytemuck::Zeroable>() -> Box<T> {
    unsafe {
        let layout = std::alloc::Layout::new::<T>();
        let p = std::alloc::alloc_zeroed(layout) as *mut T;
        assert!(!p.is_null());
        Box::from_raw(p)
    }
}

pub fn token(i: u64) -> Pubkey {
    g9rt::key(5000 + i)
}
pub fn market_token(i: u64) -> Pubkey {
    g9rt::key(6000 + i)
}

#[derive(Clone)]
pub struct Mk {
    pub idx: usize, // arena index
    pub id: u64,
    pub address: Pubkey,
    pub mt: Pubkey,
    pub index: u64,
    pub long: u64,
    pub short: u64,
}

pub struct Env {
    pub arena: Arena,
    pub refs: Refs,
    pub store: Pubkey,
    pub markets: Vec<Mk>,
    pub oracle: Box<Oracle>,
    pub ev: usize,
}

impl Env {
    pub fn new() -> Self {
        let mut arena = Arena::new();
        let ev = arena.add(g9rt::key(17), anchor_lang::system_program::ID, 0, &[], false, false, false);
        Env {
            arena,
            refs: Refs::new(),
            store: g9rt::key(10),
            markets: vec![],
            oracle: zeroed_box::<Oracle>(),
            ev,
        }
    }

    pub fn ev_info(&mut self) -> &'static AccountInfo<'static> {
        let i = self.arena.info(self.ev);
        self.refs.r(i)
    }

    /// Price of `token(t)`: unit price min/max = v * 10^m (synthetic = false, open = true).
    pub fn set_price(&mut self, t: u64, vmin: u32, vmax: u32, m: u8) {
        use gmsol_utils::price::Decimal;
        let p = gmsol_utils::Price {
            min: Decimal { value: vmin, decimal_multiplier: m },
            max: Decimal { value: vmax, decimal_multiplier: m },
        };
        self.oracle.verif_set_primary_price(&token(t), p, false, true).unwrap();
    }

    /// Create a real market account (enabled), owned by the store program, at its PDA address.
    pub fn add_market(&mut self, id: u64, index: u64, long: u64, short: u64, store: Option<Pubkey>, enabled: bool) -> usize {
        let mt = market_token(id);
        let store_key = store.unwrap_or(self.store);
        let (address, bump) = Market::find_market_address(&store_key, &mt, &gmsol_store::ID);
        let mut m: Box<Market> = zeroed_box::<Market>();
        m.init(bump, store_key, &format!("m{id}"), mt, token(index), token(long), token(short), enabled).unwrap();
        for k in ["max_pool_amount_for_long_token", "max_pool_amount_for_short_token"] {
            *m.get_config_mut(k).unwrap() = 10u128.pow(30);
        }
        let data = g9rt::zero_copy_data::<Market>(&m);
        let idx = self.arena.add(address, gmsol_store::ID, 100_000_000, &data, false, true, false);
        self.markets.push(Mk { idx, id, address, mt, index, long, short });
        self.markets.len() - 1
    }

    pub fn loader(&mut self, k: usize) -> AccountLoader<'static, Market> {
        let i = self.arena.info(self.markets[k].idx);
        AccountLoader::try_from(self.refs.r(i)).unwrap()
    }

    pub fn info(&mut self, k: usize) -> AccountInfo<'static> {
        self.arena.info(self.markets[k].idx)
    }

    /// Run `f` on the real `RevertibleMarket` of market `k` and commit.
    pub fn with_market<R>(&mut self, k: usize, f: impl FnOnce(&mut RevertibleMarket<'static, 'static>) -> R) -> R {
        let loader = self.loader(k);
        let lref: &'static AccountLoader<'static, Market> = unsafe { &*(&loader as *const _) };
        let ev = self.ev_info();
        let r = hk::with_revertible_market(lref, ev, 255, true, f).unwrap();
        drop(loader);
        r
    }

    /// Fund the liquidity pool and the recorded balances of market `k`.
    pub fn fund(&mut self, k: usize, liq_long: u64, liq_short: u64, bal_long: u64, bal_short: u64) {
        let (lt, st) = (token(self.markets[k].long), token(self.markets[k].short));
        let pure = lt == st;
        self.with_market(k, |m| {
            if liq_long != 0 {
                m.apply_delta(true, &(liq_long as i128)).unwrap();
            }
            if liq_short != 0 {
                m.apply_delta(false, &(liq_short as i128)).unwrap();
            }
            if bal_long != 0 {
                m.record_transferred_in_by_token(&lt, &bal_long).unwrap();
            }
            if bal_short != 0 && !pure {
                m.record_transferred_in_by_token(&st, &bal_short).unwrap();
            }
        });
    }

    /// Recorded balances (long, short) of market `k` read from the committed account.
    pub fn balances(&mut self, k: usize) -> (u64, u64) {
        let l = self.loader(k);
        let m = l.load().unwrap();
        let s = m.state();
        (s.long_token_balance_raw(), s.short_token_balance_raw())
    }
}

impl Default for Env {
    fn default() -> Self {
        Self::new()
    }
}

/// Decode the `SwapExecuted` events among the recorded CPI instructions:
/// (market token, token-in is long, token in amount, token out amount).
pub fn swap_events(ixs: &[anchor_lang::solana_program::instruction::Instruction]) -> Vec<(Pubkey, bool, u128, u128)> {
    let mut out = vec![];
    for ix in ixs {
        let d = &ix.data;
        if d.len() >= 16 && d[..8] == *anchor_lang::event::EVENT_IX_TAG_LE && d[8..16] == *SwapExecuted::DISCRIMINATOR {
            let mut rest = &d[16..];
            if let Ok(e) = SwapExecuted::deserialize(&mut rest) {
                out.push((
                    e.market_token,
                    e.report.params().is_token_in_long(),
                    *e.report.params().token_in_amount(),
                    *e.report.token_out_amount(),
                ));
            }
        }
    }
    out
}
