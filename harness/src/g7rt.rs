//! g7 runtime helpers: syscall stubs (Clock / Rent / log / CPI) so that program code which
//! calls `Clock::get()` runs natively, plus (further down) hand-built `AccountInfo`s for
//! invoking the real Anchor entrypoints in-process (C19 / C20).
use anchor_lang::solana_program::{
    account_info::AccountInfo, clock::Clock, entrypoint::ProgramResult, instruction::Instruction,
    program_stubs, rent::Rent,
};
use std::sync::atomic::{AtomicI64, AtomicU64, Ordering};

pub static NOW: AtomicI64 = AtomicI64::new(0);
pub static SLOT: AtomicU64 = AtomicU64::new(0);
/// number of CPIs the stub swallowed (event CPI etc.)
pub static CPI_COUNT: AtomicU64 = AtomicU64::new(0);

pub fn set_now(t: i64) {
    NOW.store(t, Ordering::SeqCst);
}

struct Stubs;

impl program_stubs::SyscallStubs for Stubs {
    fn sol_log(&self, _m: &str) {}
    fn sol_log_data(&self, _f: &[&[u8]]) {}
    fn sol_log_compute_units(&self) {}
    fn sol_get_clock_sysvar(&self, var_addr: *mut u8) -> u64 {
        let c = Clock {
            slot: SLOT.load(Ordering::SeqCst),
            epoch_start_timestamp: 0,
            epoch: 0,
            leader_schedule_epoch: 0,
            unix_timestamp: NOW.load(Ordering::SeqCst),
        };
        // SAFETY: the caller (`Clock::get`) passes a pointer to a `Clock`.
        unsafe { std::ptr::write_unaligned(var_addr as *mut Clock, c) };
        0
    }
    fn sol_get_rent_sysvar(&self, var_addr: *mut u8) -> u64 {
        // SAFETY: the caller (`Rent::get`) passes a pointer to a `Rent`.
        unsafe { std::ptr::write_unaligned(var_addr as *mut Rent, Rent::default()) };
        0
    }
    fn sol_invoke_signed(&self, _ix: &Instruction, _infos: &[AccountInfo], _seeds: &[&[&[u8]]]) -> ProgramResult {
        CPI_COUNT.fetch_add(1, Ordering::SeqCst);
        Ok(())
    }
}

/// Install the stubs (idempotent).
pub fn install_stubs() {
    let _ = program_stubs::set_syscall_stubs(Box::new(Stubs));
}
