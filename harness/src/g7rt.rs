//! g7 runtime helpers: syscall stubs (Clock / Rent / log / CPI) so that program code which
//! calls `Clock::get()` runs natively, plus (further down) hand-built `AccountInfo`s for
//! invoking the real Anchor entrypoints in-process (C19 / C20).
use anchor_lang::solana_program::{
    account_info::AccountInfo, clock::Clock, entrypoint::ProgramResult, instruction::Instruction,
    program_stubs, rent::Rent,
};
use std::sync::atomic::{AtomicI64, AtomicU64, Ordering};

pub static NOW: AtomicI64 = AtomicI64::new(0);
pub static SLOT: AtomicU64 = AtomicU64::new(0);
/// number of CPIs the stub swallowed (event CPI etc.)
pub static CPI_COUNT: AtomicU64 = AtomicU64::new(0);

pub fn set_now(t: i64) {
    NOW.store(t, Ordering::SeqCst);
}

struct Stubs;

impl program_stubs::SyscallStubs for Stubs {
    fn sol_log(&self, _m: &str) {}
    fn sol_log_data(&self, _f: &[&[u8]]) {}
    fn sol_log_compute_units(&self) {}
    fn sol_get_clock_sysvar(&self, var_addr: *mut u8) -> u64 {
        let c = Clock {
            slot: SLOT.load(Ordering::SeqCst),
            epoch_start_timestamp: 0,
            epoch: 0,
            leader_schedule_epoch: 0,
            unix_timestamp: NOW.load(Ordering::SeqCst),
        };
        // SAFETY: the caller (`Clock::get`) passes a pointer to a `Clock`.
        unsafe { std::ptr::write_unaligned(var_addr as *mut Clock, c) };
        0
    }
    fn sol_get_rent_sysvar(&self, var_addr: *mut u8) -> u64 {
        // SAFETY: the caller (`Rent::get`) passes a pointer to a `Rent`.
        unsafe { std::ptr::write_unaligned(var_addr as *mut Rent, Rent::default()) };
        0
    }
    fn sol_get_last_restart_slot(&self, var_addr: *mut u8) -> u64 {
        // SAFETY: the caller (`LastRestartSlot::get`) passes a pointer to a `LastRestartSlot { last_restart_slot: u64 }`.
        unsafe { std::ptr::write_unaligned(var_addr as *mut u64, LAST_RESTART_SLOT.load(Ordering::SeqCst)) };
        0
    }
    fn sol_set_return_data(&self, _data: &[u8]) {}
    fn sol_invoke_signed(&self, _ix: &Instruction, _infos: &[AccountInfo], _seeds: &[&[&[u8]]]) -> ProgramResult {
        CPI_COUNT.fetch_add(1, Ordering::SeqCst);
        Ok(())
    }
}

/// Install the stubs (idempotent).
pub fn install_stubs() {
    let _ = program_stubs::set_syscall_stubs(Box::new(Stubs));
}

// ---------------------------------------------------------------- in-process instruction execution
use anchor_lang::prelude::Pubkey;
use anchor_lang::solana_program::{instruction::AccountMeta, program_error::ProgramError};

/// One account of the mini ledger.
#[derive(Clone, Debug, PartialEq, Eq)]
pub struct Acct {
    pub key: Pubkey,
    pub lamports: u64,
    pub data: Vec<u8>,
    pub owner: Pubkey,
    pub executable: bool,
}

impl Acct {
    pub fn new(key: Pubkey, owner: Pubkey, data: Vec<u8>) -> Self {
        Acct { key, lamports: 1_000_000_000, data, owner, executable: false }
    }
    pub fn wallet(key: Pubkey) -> Self {
        Acct::new(key, anchor_lang::solana_program::system_program::ID, vec![])
    }
    pub fn program(key: Pubkey) -> Self {
        Acct { key, lamports: 1, data: vec![], owner: Pubkey::new_from_array([3u8; 32]), executable: true }
    }
}

pub type Entry = for<'info> fn(&Pubkey, &'info [AccountInfo<'info>], &[u8]) -> ProgramResult;

/// Outcome of one instruction.
#[derive(Debug, Clone, PartialEq, Eq)]
pub struct Outcome {
    pub result: Result<(), ProgramError>,
    /// did the program modify any account byte before returning (observed BEFORE the rollback)?
    pub touched_before_return: bool,
}

/// 16-aligned scratch buffer: account data starts 8 bytes in, so that the zero-copy struct behind the
/// 8-byte discriminator is 16-aligned (u128 fields) as `bytemuck::from_bytes` requires natively.
/// Returns the data slice and the raw allocation (to be released with `free_buf` once no `AccountInfo` uses it).
fn aligned_copy(data: &[u8]) -> (&'static mut [u8], *mut [u128]) {
    let words = (data.len() + 8 + 15) / 16 + 1;
    let raw: *mut [u128] = Box::into_raw(vec![0u128; words].into_boxed_slice());
    // SAFETY: `raw` is a live, exclusively owned allocation of `words * 16` bytes.
    let bytes: &'static mut [u8] = unsafe { std::slice::from_raw_parts_mut(raw as *mut u8, words * 16) };
    let (_, rest) = bytes.split_at_mut(8);
    let len = data.len();
    rest[..len].copy_from_slice(data);
    let (d, _) = rest.split_at_mut(len);
    (d, raw)
}
/// SAFETY: `raw` must come from `aligned_copy` and nothing may reference the buffer any more.
unsafe fn free_buf(raw: *mut [u128]) {
    drop(Box::from_raw(raw));
}

/// Run `entry(program_id, accounts(metas), data)` on the ledger.  A failed instruction leaves the ledger
/// untouched (the runtime's transaction atomicity is MODELLED here); whether the program had written
/// anything before failing is reported separately.
pub fn process(ledger: &mut Vec<Acct>, entry: Entry, program_id: &Pubkey, metas: &[AccountMeta], data: &[u8]) -> Outcome {
    let mut infos: Vec<AccountInfo<'static>> = Vec::with_capacity(metas.len());
    let mut slots: Vec<usize> = vec![];
    let mut bufs: Vec<*mut [u128]> = vec![];
    // one shared backing store per distinct key (duplicates alias the same cells, as in the real runtime)
    let mut seen: Vec<(Pubkey, AccountInfo<'static>)> = vec![];
    for m in metas {
        if let Some((_, ai)) = seen.iter().find(|(k, _)| *k == m.pubkey) {
            let mut ai = ai.clone();
            ai.is_signer = m.is_signer;
            ai.is_writable = m.is_writable;
            infos.push(ai);
            continue;
        }
        let idx = match ledger.iter().position(|a| a.key == m.pubkey) {
            Some(i) => i,
            None => {
                ledger.push(Acct { key: m.pubkey, lamports: 0, data: vec![], owner: anchor_lang::solana_program::system_program::ID, executable: false });
                ledger.len() - 1
            }
        };
        let a = &ledger[idx];
        // key / owner / lamports cells are tiny and stay leaked; the data buffers are released below
        let key: &'static Pubkey = Box::leak(Box::new(a.key));
        let owner: &'static Pubkey = Box::leak(Box::new(a.owner));
        let lamports: &'static mut u64 = Box::leak(Box::new(a.lamports));
        let (d, raw) = aligned_copy(&a.data);
        bufs.push(raw);
        let ai = AccountInfo::new(key, m.is_signer, m.is_writable, lamports, d, owner, a.executable, 0);
        slots.push(idx);
        seen.push((m.pubkey, ai.clone()));
        infos.push(ai);
    }
    let infos_raw: *mut [AccountInfo<'static>] = Box::into_raw(infos.into_boxed_slice());
    // SAFETY: the slice lives until it is re-boxed and dropped at the end of this function.
    let infos_ref: &'static [AccountInfo<'static>] = unsafe { &*infos_raw };
    let result = entry(program_id, infos_ref, data);
    // read back (data length may shrink (close) but never grows in the instructions we drive: no realloc growth support)
    let mut touched = false;
    let mut after: Vec<(usize, Vec<u8>, u64, Pubkey)> = vec![];
    for (k, idx) in slots.iter().enumerate() {
        let ai = &seen[k].1;
        let data_now = ai.data.borrow().to_vec();
        let lam_now = **ai.lamports.borrow();
        let owner_now = *ai.owner;
        if data_now != ledger[*idx].data || lam_now != ledger[*idx].lamports || owner_now != ledger[*idx].owner {
            touched = true;
        }
        after.push((*idx, data_now, lam_now, owner_now));
    }
    if result.is_ok() {
        for (idx, d, l, o) in after {
            ledger[idx].data = d;
            ledger[idx].lamports = l;
            ledger[idx].owner = o;
        }
    }
    // release the account data buffers: first every AccountInfo (they hold the only references), then the allocations
    drop(seen);
    // SAFETY: `infos_raw` came from Box::into_raw above; `entry` has returned and keeps nothing.
    unsafe { drop(Box::from_raw(infos_raw)) };
    for raw in bufs {
        // SAFETY: all AccountInfos referencing the buffer were dropped just above.
        unsafe { free_buf(raw) };
    }
    Outcome { result, touched_before_return: touched }
}

/// `LastRestartSlot` sysvar value served by the stub.
pub static LAST_RESTART_SLOT: AtomicU64 = AtomicU64::new(0);

/// A leaked, 16-aligned `AccountInfo<'static>` for direct use with Anchor account wrappers
/// (`AccountLoader::try_from`, `Account::try_from`) outside an instruction.
pub fn leak_info(a: &Acct, is_signer: bool, is_writable: bool) -> AccountInfo<'static> {
    let key: &'static Pubkey = Box::leak(Box::new(a.key));
    let owner: &'static Pubkey = Box::leak(Box::new(a.owner));
    let lamports: &'static mut u64 = Box::leak(Box::new(a.lamports));
    // the buffer stays leaked: the caller keeps the AccountInfo for as long as it likes
    let (d, _raw) = aligned_copy(&a.data);
    AccountInfo::new(key, is_signer, is_writable, lamports, d, owner, a.executable, 0)
}
