//! g7 "market mirror": every observable of a market account, once through the PROGRAM's types
//! (`gmsol_store::states::Market` and its `gmsol_model` trait impls) and once through the SDK's
//! (`gmsol_programs::gmsol_store::accounts::Market` + `MarketModel`), from the same account bytes.
//! Observable names are identical on both sides; values are Coq terms of type `oval`
//! (`(VZ n)`, `VNone`, `VErr`, `VPanic`).  Shared by the C40 driver.
use std::sync::Arc;

use gmsol_model::{
    Balance, BorrowingFeeMarket, ClockKind, LiquidityMarket, PerpMarket, PnlFactorKind, PoolKind,
    PositionImpactMarket, SwapMarket,
};
use gmsol_programs::gmsol_store::accounts::Market as SdkMarket;
use gmsol_programs::model::{MarketModel, SwapPricingKind};
use gmsol_store::states::market::config::{MarketConfigFlag, MarketConfigKey};
use gmsol_store::states::Market;
use gmsol_utils::market::MarketFlag;

pub const DEC: u8 = 20;
pub type Obs = Vec<(String, String)>;

pub fn vz<T: std::fmt::Display>(v: T) -> String {
    let s = v.to_string();
    if s.starts_with('-') { format!("(VZ ({s}))") } else { format!("(VZ {s})") }
}
fn guard<T>(f: impl FnOnce() -> Option<Result<T, ()>> + std::panic::UnwindSafe, show: impl Fn(T) -> String) -> String {
    match std::panic::catch_unwind(f) {
        Err(_) => "VPanic".into(),
        Ok(None) => "VNone".into(),
        Ok(Some(Err(()))) => "VErr".into(),
        Ok(Some(Ok(v))) => show(v),
    }
}
fn num<T: std::fmt::Display>(f: impl FnOnce() -> Option<Result<T, ()>> + std::panic::UnwindSafe) -> String {
    guard(f, |v| vz(v))
}
fn key_val(k: &anchor_lang::prelude::Pubkey) -> u128 {
    // a pubkey as a number: enough to see equality of both decoders (first 16 bytes) …
    u128::from_le_bytes(k.to_bytes()[..16].try_into().unwrap())
}
fn key_val2(k: &anchor_lang::prelude::Pubkey) -> u128 {
    // … and the other half
    u128::from_le_bytes(k.to_bytes()[16..].try_into().unwrap())
}

pub fn snake(camel: &str) -> String {
    let cs: Vec<char> = camel.chars().collect();
    let mut out = String::new();
    for (i, c) in cs.iter().enumerate() {
        if c.is_uppercase() {
            let prev = if i > 0 { Some(cs[i - 1]) } else { None };
            let next = cs.get(i + 1).copied();
            if let Some(p) = prev {
                if p.is_lowercase() || p.is_ascii_digit() || (p.is_uppercase() && next.map_or(false, |n| n.is_lowercase())) {
                    out.push('_');
                }
            }
            out.extend(c.to_lowercase());
        } else {
            out.push(*c);
        }
    }
    out
}

pub fn config_keys() -> Vec<MarketConfigKey> {
    (0..=u16::MAX).filter_map(|d| MarketConfigKey::try_from(d).ok()).collect()
}
pub fn config_flags() -> Vec<MarketConfigFlag> {
    (0..=u8::MAX).filter_map(|d| MarketConfigFlag::try_from(d).ok()).collect()
}
pub fn pool_kinds() -> Vec<PoolKind> {
    (0..=u8::MAX).filter_map(|d| PoolKind::try_from(d).ok()).collect()
}
pub fn clock_kinds() -> Vec<ClockKind> {
    (0..=u8::MAX).filter_map(|d| ClockKind::try_from(d).ok()).collect()
}
fn market_flags() -> Vec<(&'static str, MarketFlag, u8)> {
    vec![
        ("enabled", MarketFlag::Enabled, u8::from(MarketFlag::Enabled)),
        ("pure", MarketFlag::Pure, u8::from(MarketFlag::Pure)),
        ("auto_deleveraging_enabled_for_long", MarketFlag::AutoDeleveragingEnabledForLong, u8::from(MarketFlag::AutoDeleveragingEnabledForLong)),
        ("auto_deleveraging_enabled_for_short", MarketFlag::AutoDeleveragingEnabledForShort, u8::from(MarketFlag::AutoDeleveragingEnabledForShort)),
        ("gt_enabled", MarketFlag::GTEnabled, u8::from(MarketFlag::GTEnabled)),
        ("closed", MarketFlag::Closed, u8::from(MarketFlag::Closed)),
    ]
}

// ---------------------------------------------------------------- Debug flattener (parameter structs)
pub fn flatten(dbg: &str) -> Vec<(String, String)> {
    fn skip_ws(s: &[u8], mut i: usize) -> usize {
        while i < s.len() && (s[i] as char).is_whitespace() {
            i += 1;
        }
        i
    }
    fn value(s: &[u8], i: usize, prefix: &str, out: &mut Vec<(String, String)>) -> usize {
        let mut j = skip_ws(s, i);
        let start = j;
        while j < s.len() && !matches!(s[j] as char, '{' | ',' | '}' | '(' | ')') && !(s[j] as char).is_whitespace() {
            j += 1;
        }
        let tok = std::str::from_utf8(&s[start..j]).unwrap().to_string();
        let k = skip_ws(s, j);
        if k < s.len() && s[k] == b'{' {
            let mut p = k + 1;
            loop {
                p = skip_ws(s, p);
                if s[p] == b'}' {
                    return p + 1;
                }
                let fs = p;
                while s[p] != b':' {
                    p += 1;
                }
                let fname = std::str::from_utf8(&s[fs..p]).unwrap().trim().to_string();
                let np = if prefix.is_empty() { fname } else { format!("{prefix}.{fname}") };
                p = value(s, p + 1, &np, out);
                p = skip_ws(s, p);
                if s[p] == b',' {
                    p += 1;
                }
            }
        }
        if k < s.len() && s[k] == b'(' && tok == "Some" {
            let mut p = k + 1;
            let st = p;
            while s[p] != b')' {
                p += 1;
            }
            out.push((prefix.to_string(), format!("Some({})", std::str::from_utf8(&s[st..p]).unwrap().trim())));
            return p + 1;
        }
        out.push((prefix.to_string(), tok));
        j
    }
    let mut out = vec![];
    value(dbg.as_bytes(), 0, "", &mut out);
    out
}

fn leaf(v: &str) -> String {
    match v {
        "true" => "(VZ 1)".into(),
        "false" => "(VZ 0)".into(),
        "None" => "VNone".into(),
        _ => {
            let inner = v.strip_prefix("Some(").and_then(|x| x.strip_suffix(')')).unwrap_or(v);
            assert!(inner.chars().all(|c| c.is_ascii_digit()), "unexpected Debug leaf {v:?}");
            format!("(VZ {inner})")
        }
    }
}

fn push_struct<T: std::fmt::Debug>(out: &mut Obs, name: &str, r: std::thread::Result<gmsol_model::Result<T>>) {
    match r {
        Err(_) => out.push((format!("param:{name}"), "VPanic".into())),
        Ok(Err(_)) => out.push((format!("param:{name}"), "VErr".into())),
        Ok(Ok(v)) => {
            for (path, val) in flatten(&format!("{v:?}")) {
                if path.ends_with("discount_factor") {
                    // order fee discount: None on the plain program Market, Some(model's own factor = 0) on the SDK model
                    continue;
                }
                out.push((format!("param:{name}/{path}"), leaf(&val)));
            }
        }
    }
}

fn side(l: bool) -> &'static str {
    if l { "long" } else { "short" }
}

macro_rules! cu {
    ($e:expr) => {
        std::panic::catch_unwind(std::panic::AssertUnwindSafe(|| $e))
    };
}

/// parameters + pools through the gmsol_model traits (identical code for both sides)
fn model_obs<M>(m: &M, out: &mut Obs)
where
    M: PerpMarket<DEC, Num = u128, Signed = i128> + SwapMarket<DEC> + PositionImpactMarket<DEC> + BorrowingFeeMarket<DEC>,
{
    let r = |x: std::thread::Result<gmsol_model::Result<u128>>| match x {
        Err(_) => "VPanic".to_string(),
        Ok(Err(_)) => "VErr".to_string(),
        Ok(Ok(v)) => vz(v),
    };
    for l in [true, false] {
        out.push((format!("param:max_pool_amount/{}", side(l)), r(cu!(m.max_pool_amount(l)))));
        out.push((format!("param:max_open_interest/{}", side(l)), r(cu!(m.max_open_interest(l)))));
        out.push((format!("param:min_collateral_factor_for_open_interest_multiplier/{}", side(l)), r(cu!(m.min_collateral_factor_for_open_interest_multiplier(l)))));
        for d in 0..=u8::MAX {
            let Ok(kind) = PnlFactorKind::try_from(d) else { continue };
            out.push((format!("param:pnl_factor_config/{}.{}", snake(&format!("{kind:?}")), side(l)), r(cu!(m.pnl_factor_config(kind, l)))));
        }
    }
    out.push(("param:reserve_factor/".into(), r(cu!(m.reserve_factor()))));
    out.push(("param:open_interest_reserve_factor/".into(), r(cu!(m.open_interest_reserve_factor()))));
    out.push(("param:ignore_open_interest_for_usage_factor/".into(), r(cu!(m.ignore_open_interest_for_usage_factor().map(|b| b as u128)))));
    out.push(("param:usd_to_amount_divisor/".into(), vz(m.usd_to_amount_divisor())));
    out.push(("param:funding_amount_per_size_adjustment/".into(), vz(m.funding_amount_per_size_adjustment())));
    out.push(("state:funding_factor_per_second".into(), vz(*m.funding_factor_per_second())));
    push_struct(out, "swap_impact_params", cu!(m.swap_impact_params()));
    push_struct(out, "position_impact_params", cu!(m.position_impact_params()));
    push_struct(out, "position_impact_distribution_params", cu!(m.position_impact_distribution_params()));
    push_struct(out, "borrowing_fee_params", cu!(m.borrowing_fee_params()));
    push_struct(out, "borrowing_fee_kink_model_params", cu!(m.borrowing_fee_kink_model_params()));
    push_struct(out, "funding_fee_params", cu!(m.funding_fee_params()));
    push_struct(out, "position_params", cu!(m.position_params()));
    push_struct(out, "order_fee_params", cu!(m.order_fee_params()));
    push_struct(out, "liquidation_fee_params", cu!(m.liquidation_fee_params()));
    // pools through the trait accessors: (long_amount(), short_amount())
    let mut pool = |name: &str, p: std::thread::Result<gmsol_model::Result<(gmsol_model::Result<u128>, gmsol_model::Result<u128>)>>| {
        let (a, b) = match p {
            Err(_) => ("VPanic".to_string(), "VPanic".to_string()),
            Ok(Err(_)) => ("VErr".to_string(), "VErr".to_string()),
            Ok(Ok((l, s))) => (l.map(vz).unwrap_or("VErr".into()), s.map(vz).unwrap_or("VErr".into())),
        };
        out.push((format!("pool:{name}.long_amount"), a));
        out.push((format!("pool:{name}.short_amount"), b));
    };
    // `long_amount()` of a pure pool debug-asserts short_token_amount == 0: catch it per pool
    macro_rules! pl {
        ($name:expr, $acc:expr) => {
            pool($name, cu!($acc.map(|p| {
                let l = std::panic::catch_unwind(std::panic::AssertUnwindSafe(|| p.long_amount()));
                let s = std::panic::catch_unwind(std::panic::AssertUnwindSafe(|| p.short_amount()));
                match (l, s) {
                    (Ok(l), Ok(s)) => (l, s),
                    _ => panic!("pool accessor panicked"),
                }
            })))
        };
    }
    pl!("primary", m.liquidity_pool());
    pl!("claimable_fee", m.claimable_fee_pool());
    pl!("swap_impact", m.swap_impact_pool());
    pl!("position_impact", m.position_impact_pool());
    pl!("borrowing_factor", m.borrowing_factor_pool());
    pl!("total_borrowing", m.total_borrowing_pool());
    for l in [true, false] {
        pl!(&format!("open_interest_for_{}", side(l)), m.open_interest_pool(l));
        pl!(&format!("open_interest_in_tokens_for_{}", side(l)), m.open_interest_in_tokens_pool(l));
        pl!(&format!("collateral_sum_for_{}", side(l)), m.collateral_sum_pool(l));
        pl!(&format!("funding_amount_per_size_for_{}", side(l)), m.funding_amount_per_size_pool(l));
        pl!(&format!("claimable_funding_amount_per_size_for_{}", side(l)), m.claimable_funding_amount_per_size_pool(l));
    }
}

/// Everything the PROGRAM sees in these account bytes.
pub fn program_obs(m: &Market) -> Obs {
    let mut out: Obs = vec![];
    for (name, f, _) in market_flags() {
        out.push((format!("flag:{name}"), vz(m.flag(f) as u8)));
    }
    for f in config_flags() {
        out.push((format!("cfgflag:{f}"), vz(m.get_config_flag_by_key(f) as u8)));
    }
    for k in config_keys() {
        out.push((format!("cfg:{k}"), num(|| m.get_config_by_key(k).map(|v| Ok(*v)))));
    }
    for k in pool_kinds() {
        let n = snake(&format!("{k:?}"));
        match m.pool(k) {
            None => out.push((format!("poolraw:{n}"), "VNone".into())),
            Some(p) => {
                let raw = bytemuck::bytes_of(&p);
                out.push((format!("poolraw:{n}.is_pure"), vz((raw[0] != 0) as u8)));
                out.push((format!("poolraw:{n}.long_token_amount"), vz(u128::from_le_bytes(raw[16..32].try_into().unwrap()))));
                out.push((format!("poolraw:{n}.short_token_amount"), vz(u128::from_le_bytes(raw[32..48].try_into().unwrap()))));
            }
        }
    }
    for k in clock_kinds() {
        out.push((format!("clock:{}", snake(&format!("{k:?}"))), num(|| m.clock(k).map(Ok))));
    }
    let st = m.state();
    out.push(("state:long_token_balance".into(), vz(st.long_token_balance_raw())));
    out.push(("state:short_token_balance".into(), vz(st.short_token_balance_raw())));
    out.push(("state:trade_count".into(), vz(st.trade_count())));
    let ix = m.indexer();
    out.push(("indexer:deposit_count".into(), vz(ix.deposit_count())));
    out.push(("indexer:withdrawal_count".into(), vz(ix.withdrawal_count())));
    out.push(("indexer:order_count".into(), vz(ix.order_count())));
    out.push(("indexer:shift_count".into(), vz(ix.shift_count())));
    out.push(("indexer:glv_deposit_count".into(), vz(ix.glv_deposit_count())));
    out.push(("indexer:glv_withdrawal_count".into(), vz(ix.glv_withdrawal_count())));
    let meta = m.meta();
    for (n, k) in [("market_token_mint", &meta.market_token_mint), ("index_token_mint", &meta.index_token_mint), ("long_token_mint", &meta.long_token_mint), ("short_token_mint", &meta.short_token_mint), ("store", &m.store)] {
        out.push((format!("key:{n}.lo"), vz(key_val(k))));
        out.push((format!("key:{n}.hi"), vz(key_val2(k))));
    }
    for (n, k) in [("virtual_inventory_for_swaps", m.virtual_inventory_for_swaps()), ("virtual_inventory_for_positions", m.virtual_inventory_for_positions())] {
        out.push((format!("key:{n}.lo"), k.map(|k| vz(key_val(k))).unwrap_or(vz(0))));
        out.push((format!("key:{n}.hi"), k.map(|k| vz(key_val2(k))).unwrap_or(vz(0))));
    }
    out.push(("name".into(), match m.name() { Ok(s) => vz(s.bytes().fold(0u128, |a, b| a.wrapping_mul(257).wrapping_add(b as u128 + 1))), Err(_) => "VErr".into() }));
    model_obs(m, &mut out);
    push_struct(&mut out, "swap_fee_params", cu!(m.swap_fee_params()));
    for l in [true, false] {
        out.push((format!("param:max_pool_value_for_deposit/{}", side(l)), vz(m.max_pool_value_for_deposit(l).unwrap())));
    }
    out
}

pub fn sdk_market(bytes: &[u8]) -> Arc<SdkMarket> {
    assert_eq!(bytes.len(), std::mem::size_of::<SdkMarket>(), "SDK Market size differs from the program's");
    Arc::new(bytemuck::pod_read_unaligned::<SdkMarket>(bytes))
}

/// Everything the SDK sees in the same bytes.
pub fn sdk_obs(bytes: &[u8]) -> Obs {
    let s = sdk_market(bytes);
    let mut model = MarketModel::from_parts(s.clone(), 0);
    let mut out: Obs = vec![];
    for (name, _, idx) in market_flags() {
        out.push((format!("flag:{name}"), vz((s.flags.value >> idx) & 1)));
    }
    for f in config_flags() {
        let idx = u8::from(f) as u32;
        out.push((format!("cfgflag:{f}"), vz((s.config.flag.value >> idx) & 1)));
    }
    for k in config_keys() {
        out.push((format!("cfg:{k}"), num(|| s.config.get(k).map(|v| Ok(*v)))));
    }
    {
        let p = &s.state.pools;
        let all = [
            ("primary", &p.primary), ("swap_impact", &p.swap_impact), ("claimable_fee", &p.claimable_fee),
            ("open_interest_for_long", &p.open_interest_for_long), ("open_interest_for_short", &p.open_interest_for_short),
            ("open_interest_in_tokens_for_long", &p.open_interest_in_tokens_for_long), ("open_interest_in_tokens_for_short", &p.open_interest_in_tokens_for_short),
            ("position_impact", &p.position_impact), ("borrowing_factor", &p.borrowing_factor),
            ("funding_amount_per_size_for_long", &p.funding_amount_per_size_for_long), ("funding_amount_per_size_for_short", &p.funding_amount_per_size_for_short),
            ("claimable_funding_amount_per_size_for_long", &p.claimable_funding_amount_per_size_for_long),
            ("claimable_funding_amount_per_size_for_short", &p.claimable_funding_amount_per_size_for_short),
            ("collateral_sum_for_long", &p.collateral_sum_for_long), ("collateral_sum_for_short", &p.collateral_sum_for_short),
            ("total_borrowing", &p.total_borrowing),
        ];
        // in PoolKind order, as on the program side
        for k in pool_kinds() {
            let n = snake(&format!("{k:?}"));
            match all.iter().find(|(x, _)| *x == n) {
                None => out.push((format!("poolraw:{n}"), "VNone".into())),
                Some((_, st)) => {
                    out.push((format!("poolraw:{n}.is_pure"), vz(st.pool.is_pure() as u8)));
                    out.push((format!("poolraw:{n}.long_token_amount"), vz(st.pool.long_token_amount)));
                    out.push((format!("poolraw:{n}.short_token_amount"), vz(st.pool.short_token_amount)));
                }
            }
        }
    }
    for k in clock_kinds() {
        out.push((format!("clock:{}", snake(&format!("{k:?}"))), num(|| s.state.clocks.get(k).map(Ok))));
    }
    out.push(("state:long_token_balance".into(), vz(s.state.other.long_token_balance)));
    out.push(("state:short_token_balance".into(), vz(s.state.other.short_token_balance)));
    out.push(("state:trade_count".into(), vz(s.state.other.trade_count)));
    out.push(("indexer:deposit_count".into(), vz(s.indexer.deposit_count)));
    out.push(("indexer:withdrawal_count".into(), vz(s.indexer.withdrawal_count)));
    out.push(("indexer:order_count".into(), vz(s.indexer.order_count)));
    out.push(("indexer:shift_count".into(), vz(s.indexer.shift_count)));
    out.push(("indexer:glv_deposit_count".into(), vz(s.indexer.glv_deposit_count)));
    out.push(("indexer:glv_withdrawal_count".into(), vz(s.indexer.glv_withdrawal_count)));
    for (n, k) in [("market_token_mint", &s.meta.market_token_mint), ("index_token_mint", &s.meta.index_token_mint), ("long_token_mint", &s.meta.long_token_mint), ("short_token_mint", &s.meta.short_token_mint), ("store", &s.store),
                   ("virtual_inventory_for_swaps", &s.virtual_inventory_for_swaps), ("virtual_inventory_for_positions", &s.virtual_inventory_for_positions)] {
        out.push((format!("key:{n}.lo"), vz(key_val(k))));
        out.push((format!("key:{n}.hi"), vz(key_val2(k))));
    }
    out.push(("name".into(), match s.name() { Ok(x) => vz(x.bytes().fold(0u128, |a, b| a.wrapping_mul(257).wrapping_add(b as u128 + 1))), Err(_) => "VErr".into() }));
    model_obs(&model, &mut out);
    // the plain program Market corresponds to the `Swap` pricing kind of the SDK model
    let r = cu!(model.with_swap_pricing(SwapPricingKind::Swap, |m| m.swap_fee_params()));
    push_struct(&mut out, "swap_fee_params", r);
    for l in [true, false] {
        out.push((format!("param:max_pool_value_for_deposit/{}", side(l)), vz(model.max_pool_value_for_deposit(l).unwrap())));
    }
    out
}

/// Coq list of (name, program value, SDK value); the two observation lists must have the same names in the same order.
pub fn zip_obs(p: &Obs, s: &Obs) -> String {
    let mut items = vec![];
    let n = p.len().max(s.len());
    for i in 0..n {
        let (pn, pv) = p.get(i).cloned().unwrap_or(("<missing>".into(), "VNone".into()));
        let (sn, sv) = s.get(i).cloned().unwrap_or(("<missing>".into(), "VNone".into()));
        let name = if pn == sn { pn } else { format!("{pn}<>{sn}") };
        items.push(format!("(\"{name}\"%string, {pv}, {sv})"));
    }
    format!("[{}]", items.join("; "))
}
