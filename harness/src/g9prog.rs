//! g9 mini runtime: run real Anchor program entrypoints in-process on `g9rt::Arena` accounts.
//!
//! * `call` hands a program's `entry` the accounts of one instruction (signer / writable flags per
//!   meta), and rolls every account back when the instruction fails (transaction atomicity).
//! * `dispatcher` is the CPI side: it enforces the runtime's privilege rules (a callee meta may be
//!   a signer only if the caller's account was a signer or the key is a PDA of the calling program
//!   derived from the given seeds; writable only if it was writable), then routes
//!     - the store program      -> the real `gmsol_store::entry` (return data kept),
//!     - the system program     -> a small CreateAccount / Transfer / Allocate / Assign implementation,
//!     - anything else          -> recorded (see `g9rt::take_invokes`) and accepted.
use crate::g9rt::{self, Arena};
use anchor_lang::prelude::*;
use anchor_lang::solana_program::{
    account_info::AccountInfo, entrypoint::ProgramResult, instruction::Instruction,
    program_error::ProgramError, system_program,
};

pub type Entry = for<'a> fn(&Pubkey, &'a [AccountInfo<'a>], &[u8]) -> ProgramResult;

/// One account of an instruction: (arena index, is_signer, is_writable).
pub type Meta = (usize, bool, bool);

/// Run one top-level instruction.  On failure all accounts are restored.
pub fn call(entry: Entry, program_id: &Pubkey, arena: &mut Arena, metas: &[Meta], data: &[u8]) -> ProgramResult {
    let snap = arena.snapshot();
    g9rt::clear_return_data();
    let infos: Vec<AccountInfo<'static>> = metas.iter().map(|(i, s, w)| arena.info_with(*i, *s, *w)).collect();
    let r = {
        // the infos live until the end of this block; the 'static is a convenience of the arena
        let slice: &'static [AccountInfo<'static>] = unsafe { std::mem::transmute(&infos[..]) };
        entry(program_id, slice, data)
    };
    drop(infos);
    if r.is_err() {
        arena.restore(&snap);
    }
    r
}

fn find<'a, 'b>(infos: &'a [AccountInfo<'b>], k: &Pubkey) -> std::result::Result<&'a AccountInfo<'b>, ProgramError> {
    infos.iter().find(|a| a.key == k).ok_or(ProgramError::NotEnoughAccountKeys)
}

/// The privilege rules of a CPI.
fn callee_infos<'b>(
    caller: &Pubkey,
    ix: &Instruction,
    infos: &[AccountInfo<'b>],
    seeds: &[&[&[u8]]],
) -> std::result::Result<Vec<AccountInfo<'b>>, ProgramError> {
    let pdas: Vec<Pubkey> = seeds.iter().filter_map(|s| Pubkey::create_program_address(s, caller).ok()).collect();
    let mut out = vec![];
    for m in &ix.accounts {
        let a = find(infos, &m.pubkey)?;
        if m.is_signer && !(a.is_signer || pdas.contains(&m.pubkey)) {
            return Err(ProgramError::MissingRequiredSignature); // privilege escalation
        }
        if m.is_writable && !a.is_writable {
            return Err(ProgramError::InvalidArgument); // privilege escalation
        }
        let mut c = a.clone();
        c.is_signer = m.is_signer;
        c.is_writable = m.is_writable;
        out.push(c);
    }
    Ok(out)
}

fn u64_at(d: &[u8], o: usize) -> std::result::Result<u64, ProgramError> {
    d.get(o..o + 8).map(|b| u64::from_le_bytes(b.try_into().unwrap())).ok_or(ProgramError::InvalidInstructionData)
}
fn key_at(d: &[u8], o: usize) -> std::result::Result<Pubkey, ProgramError> {
    d.get(o..o + 32).map(|b| Pubkey::new_from_array(b.try_into().unwrap())).ok_or(ProgramError::InvalidInstructionData)
}

fn system(ix: &Instruction, a: &[AccountInfo]) -> ProgramResult {
    let d = &ix.data;
    let tag = u32::from_le_bytes(d.get(0..4).ok_or(ProgramError::InvalidInstructionData)?.try_into().unwrap());
    let fresh = |x: &AccountInfo| -> ProgramResult {
        if !x.data_is_empty() || *x.owner != system_program::ID {
            return Err(ProgramError::Custom(0)); // AccountAlreadyInUse
        }
        Ok(())
    };
    let transfer = |from: &AccountInfo, to: &AccountInfo, n: u64| -> ProgramResult {
        if !from.is_signer {
            return Err(ProgramError::MissingRequiredSignature);
        }
        if !from.data_is_empty() {
            return Err(ProgramError::InvalidArgument);
        }
        if from.lamports() < n {
            return Err(ProgramError::Custom(1)); // ResultWithNegativeLamports
        }
        **from.try_borrow_mut_lamports()? -= n;
        **to.try_borrow_mut_lamports()? += n;
        Ok(())
    };
    match tag {
        0 => {
            // CreateAccount { lamports, space, owner }
            let (lamports, space, owner) = (u64_at(d, 4)?, u64_at(d, 12)?, key_at(d, 20)?);
            let (from, to) = (&a[0], &a[1]);
            if !to.is_signer {
                return Err(ProgramError::MissingRequiredSignature);
            }
            if to.lamports() > 0 {
                return Err(ProgramError::Custom(0));
            }
            fresh(to)?;
            transfer(from, to, lamports)?;
            #[allow(deprecated)]
            to.realloc(space as usize, true)?;
            to.assign(&owner);
            Ok(())
        }
        1 => {
            // Assign { owner }
            let owner = key_at(d, 4)?;
            if !a[0].is_signer {
                return Err(ProgramError::MissingRequiredSignature);
            }
            a[0].assign(&owner);
            Ok(())
        }
        2 => transfer(&a[0], &a[1], u64_at(d, 4)?),
        8 => {
            // Allocate { space }
            let space = u64_at(d, 4)?;
            if !a[0].is_signer {
                return Err(ProgramError::MissingRequiredSignature);
            }
            fresh(&a[0])?;
            #[allow(deprecated)]
            a[0].realloc(space as usize, true)?;
            Ok(())
        }
        _ => Err(ProgramError::InvalidInstructionData),
    }
}

/// The CPI dispatcher for instructions of `caller`.
pub fn dispatcher(caller: Pubkey) -> g9rt::Dispatcher {
    Box::new(move |ix, infos, seeds| {
        let callee = callee_infos(&caller, ix, infos, seeds)?;
        if ix.program_id == gmsol_store::ID {
            let slice: &[AccountInfo] = &callee[..];
            // lifetimes: `entry` wants the slice and the infos to share one lifetime
            let slice: &'static [AccountInfo<'static>] = unsafe { std::mem::transmute(slice) };
            gmsol_store::entry(&gmsol_store::ID, slice, &ix.data)
        } else if ix.program_id == system_program::ID {
            system(ix, &callee)
        } else {
            Ok(())
        }
    })
}

/// Canonical numeric code of a `ProgramError` (Anchor / custom errors keep their number).
pub fn perr_code(e: &ProgramError) -> u32 {
    match e {
        ProgramError::Custom(c) => *c,
        ProgramError::MissingRequiredSignature => 10_001,
        ProgramError::NotEnoughAccountKeys => 10_002,
        ProgramError::InvalidInstructionData => 10_003,
        ProgramError::InvalidArgument => 10_004,
        _ => 10_000,
    }
}
