//! Shared helpers for the correspondence harness: one PRNG, operand generators,
//! printers that emit Coq terms, and syscall stubs.
use std::fmt::Write as _;

/// SplitMix64 — every random choice of every driver derives from one state.
#[derive(Clone)]
pub struct Rng(pub u64);

impl Rng {
    pub fn new(seed: u64) -> Self {
        Rng(seed ^ 0x9E37_79B9_7F4A_7C15)
    }
    pub fn next(&mut self) -> u64 {
        self.0 = self.0.wrapping_add(0x9E37_79B9_7F4A_7C15);
        let mut z = self.0;
        z = (z ^ (z >> 30)).wrapping_mul(0xBF58_476D_1CE4_E5B9);
        z = (z ^ (z >> 27)).wrapping_mul(0x94D0_49BB_1331_11EB);
        z ^ (z >> 31)
    }
    pub fn below(&mut self, n: u64) -> u64 {
        if n == 0 {
            0
        } else {
            self.next() % n
        }
    }
    pub fn range(&mut self, lo: u64, hi: u64) -> u64 {
        lo + self.below(hi - lo + 1)
    }
    pub fn chance(&mut self, num: u64, den: u64) -> bool {
        self.below(den) < num
    }
    pub fn next128(&mut self) -> u128 {
        ((self.next() as u128) << 64) | self.next() as u128
    }
    pub fn pick<'a, T>(&mut self, xs: &'a [T]) -> &'a T {
        &xs[self.below(xs.len() as u64) as usize]
    }

    /// Unsigned operand of `bits` width from a boundary-heavy mixture.
    pub fn uint(&mut self, bits: u32) -> u128 {
        let max: u128 = if bits >= 128 { u128::MAX } else { (1u128 << bits) - 1 };
        let v = match self.below(12) {
            0 => 0,
            1 => 1,
            2 => max,
            3 => max - self.below(3) as u128,
            4 => (1u128 << (bits - 1)).wrapping_add(self.below(3) as u128).wrapping_sub(1),
            5 => {
                // power of ten, possibly +-1
                let p = self.below(if bits >= 128 { 39 } else { 20 }) as u32;
                10u128.pow(p).wrapping_add(self.below(3) as u128).wrapping_sub(1)
            }
            6 => self.below(1000) as u128,
            7 => {
                // random bit length
                let l = self.range(1, bits as u64) as u32;
                let x = self.next128();
                if l >= 128 { x } else { x & ((1u128 << l) - 1) }
            }
            8 => {
                // k * 10^p
                let p = self.below(if bits >= 128 { 30 } else { 15 }) as u32;
                (self.below(10_000) as u128).wrapping_mul(10u128.pow(p))
            }
            9 => {
                let l = self.range(1, (bits / 2) as u64) as u32;
                self.next128() & ((1u128 << l) - 1)
            }
            _ => self.next128(),
        };
        v & max
    }

    /// Signed operand of `bits` width.
    pub fn sint(&mut self, bits: u32) -> i128 {
        let min: i128 = if bits >= 128 { i128::MIN } else { -(1i128 << (bits - 1)) };
        let max: i128 = if bits >= 128 { i128::MAX } else { (1i128 << (bits - 1)) - 1 };
        match self.below(10) {
            0 => 0,
            1 => min,
            2 => max,
            3 => min + self.below(3) as i128,
            4 => -1,
            _ => {
                let m = self.uint(bits - 1) as i128;
                if self.chance(1, 2) { m } else { -m }
            }
        }
    }
}

/// Print an integer as a Coq `Z` term (negative numbers parenthesised).
pub fn z<T: std::fmt::Display>(v: T) -> String {
    let s = v.to_string();
    if s.starts_with('-') {
        format!("({s})")
    } else {
        s
    }
}
pub fn oz<T: std::fmt::Display>(v: Option<T>) -> String {
    match v {
        Some(x) => format!("(Some {})", z(x)),
        None => "None".to_string(),
    }
}
pub fn b(v: bool) -> &'static str {
    if v { "true" } else { "false" }
}
/// Coq list of Z.
pub fn zl<T: std::fmt::Display>(v: &[T]) -> String {
    let mut s = String::from("[");
    for (i, x) in v.iter().enumerate() {
        if i > 0 {
            s.push_str("; ");
        }
        let _ = write!(s, "{}", z(x));
    }
    s.push(']');
    s
}

/// Command line shared by all drivers: `--seed S --n N [--replay FILE]`.
pub struct Args {
    pub seed: u64,
    pub n: usize,
    pub replay: Option<String>,
    pub extra: Vec<String>,
}
pub fn args() -> Args {
    let mut a = Args { seed: 1, n: 1000, replay: None, extra: vec![] };
    let v: Vec<String> = std::env::args().skip(1).collect();
    let mut i = 0;
    while i < v.len() {
        match v[i].as_str() {
            "--seed" => { a.seed = v[i + 1].parse().expect("seed"); i += 2; }
            "--n" => { a.n = v[i + 1].parse().expect("n"); i += 2; }
            "--replay" => { a.replay = Some(v[i + 1].clone()); i += 2; }
            _ => { a.extra.push(v[i].clone()); i += 1; }
        }
    }
    a
}

/// Emit one case: `tag<TAB>coq-term`.  Tags are `kind/outcome`; the check counts a
/// case as trivial when the tag ends in `/trivial`.
pub fn emit(tag: &str, term: &str) {
    println!("{tag}\t{term}");
}

/// Run `f`, mapping a panic to `None`.
pub fn no_panic<R>(f: impl FnOnce() -> R + std::panic::UnwindSafe) -> Option<R> {
    std::panic::catch_unwind(f).ok()
}
pub fn silence_panics() {
    std::panic::set_hook(Box::new(|_| {}));
}
pub mod vmarket;
pub mod g6rt;
pub mod g7rt;
pub mod ps;
pub mod mkdrv;
pub mod g9rt;
pub mod g5oracle;
pub mod g9mk;
pub mod g9prog;
pub mod g7mm;
