//! Shared history driver for the market-kernel properties (C04, C05, C06): deposits,
//! withdrawals and swaps on `vmarket::TestMarket<u64,9>` / `<u128,20>` with states made
//! interesting by directly setting pool fields.  One case = one history; after every op
//! the full market state and the op's report are printed as Coq terms
//! (see coq/MK/Case.v for the syntax).
use crate::vmarket::{MaxPnlFactors, TestMarket, TestMarketConfig, TestPool};
use crate::{b, emit, z, Rng};
use gmsol_model::{
    action::MarketAction,
    market::{LiquidityMarketMutExt, SwapMarketMutExt},
    params::{
        fee::{
            BorrowingFeeKinkModelParamsForOneSide, BorrowingFeeParams, FundingFeeParams,
            LiquidationFeeParams,
        },
        position::PositionImpactDistributionParams,
        FeeParams, PositionParams, PriceImpactParams,
    },
    price::{Price, Prices},
    ClockKind,
};
use std::panic::AssertUnwindSafe;

/// Operation mix (weights) and shape of the generated histories.
#[derive(Clone, Debug)]
pub struct Mix {
    pub deposit: u64,
    pub withdraw: u64,
    pub swap: u64,
    pub set: u64,
    /// deposit immediately followed by withdrawing exactly the minted amount at the same prices
    pub round_trip: u64,
    pub min_ops: u64,
    pub max_ops: u64,
    /// per-mille of histories with zero fees and zero impact factors
    pub zero_fee_zero_impact: u64,
}

/// Rewrite every decimal literal >= 256 of a Coq term as a hexadecimal literal (Coq parses hex
/// literals ~3x faster; none of the constructor names contains a digit).
pub fn hexify(term: &str) -> String {
    let mut out = String::with_capacity(term.len());
    let bytes = term.as_bytes();
    let mut i = 0;
    while i < bytes.len() {
        if bytes[i].is_ascii_digit() {
            let st = i;
            while i < bytes.len() && bytes[i].is_ascii_digit() { i += 1; }
            let tok = &term[st..i];
            match tok.parse::<u128>() {
                Ok(v) if v >= 256 => out.push_str(&format!("{v:#x}")),
                _ => out.push_str(tok),
            }
        } else {
            out.push(bytes[i] as char);
            i += 1;
        }
    }
    out
}

pub fn ecode(e: &gmsol_model::Error) -> i64 {
    use gmsol_model::Error::*;
    match e {
        EmptySwap => 1,
        InvalidArgument(_) => 2,
        Computation(_) => 3,
        Overflow => 4,
        Convert => 5,
        DividedByZero => 6,
        PowComputation => 7,
        MaxPoolAmountExceeded(_) => 8,
        InsufficientReserve(_, _) => 9,
        PnlFactorExceeded(_, _) => 10,
        InvalidPoolValue(_) => 11,
        MaxPoolValueExceeded(_) => 12,
        EmptyDeposit => 13,
        EmptyWithdrawal => 14,
        UnableToGetBorrowingFactorEmptyPoolValue => 15,
        _ => 98,
    }
}

macro_rules! mk_impl {
    ($m:ident, $U:ty, $S:ty, $W:expr, $DEC:expr, $PS:expr) => {
        pub mod $m {
            use super::*;
            pub type M = TestMarket<$U, $DEC>;
            pub const W: u32 = $W;
            pub const DEC: u32 = $DEC;
            pub const UNIT: $U = (10 as $U).pow($DEC);
            /// price scale: 1 USD in price units for a 9-decimals token
            pub const PS: $U = $PS;

            /// Raw numbers of a TestMarketConfig (the params structs have private fields).
            #[derive(Clone, Debug)]
            pub struct Cfg {
                pub swap_impact: [$U; 3], // exponent, positive, negative
                pub swap_fee: [$U; 4],    // positive, negative, receiver, discount (0 = None)
                pub position: [$U; 6],
                pub position_impact: [$U; 3],
                pub order_fee: [$U; 4],
                pub distribution: [$U; 2],
                pub borrowing: [$U; 5], // receiver, exp long, exp short, factor long, factor short
                pub borrowing_skip: bool,
                pub kink: [$U; 3],
                pub funding: [$U; 8],
                pub reserve_factor: $U,
                pub oi_reserve_factor: $U,
                pub max_pnl: [$U; 4],
                pub min_pnl_after_adl: $U,
                pub max_pool_amount: $U,
                pub max_pool_value_for_deposit: $U,
                pub max_open_interest: $U,
                pub min_collateral_factor_for_oi: $U,
                pub ignore_oi_for_usage: bool,
                pub liquidation: [$U; 2],
            }

            const YEAR: $U = 365 * 24 * 3600;

            impl Default for Cfg {
                /// Same values as vmarket's TestMarketConfig::default(), scaled by UNIT.
                fn default() -> Self {
                    let u = UNIT;
                    Cfg {
                        swap_impact: [2 * u, 4 * (u / 1_000_000_000), 8 * (u / 1_000_000_000)],
                        swap_fee: [u / 2000, u / 10_000 * 7, u / 100 * 37, 0],
                        position: [u, u, u / 100, u / 200, u / 200, u / 400],
                        position_impact: [2 * u, u / 1_000_000_000, 2 * (u / 1_000_000_000)],
                        order_fee: [u / 2000, u / 10_000 * 7, u / 100 * 37, 0],
                        distribution: [u, 1_000_000_000],
                        borrowing: [u / 100 * 37, u, u, 28 * (u / 1_000_000_000), 28 * (u / 1_000_000_000)],
                        borrowing_skip: true,
                        kink: [u / 100 * 75, u / 10 * 6 / YEAR, u / 10 * 15 / YEAR],
                        funding: [u, 20 * (u / 1_000_000_000), 10 * (u / 1_000_000_000), 0, 10 * (u / 1_000_000_000), u / 1_000_000_000, u / 20, 0],
                        reserve_factor: u,
                        oi_reserve_factor: u,
                        max_pnl: [u / 10 * 6, u / 10 * 3, u / 2, u / 2],
                        min_pnl_after_adl: 0,
                        max_pool_amount: 1_000_000_000 * u,
                        max_pool_value_for_deposit: <$U>::MAX,
                        max_open_interest: <$U>::MAX,
                        min_collateral_factor_for_oi: 5 * (u / 1000) / 83_000_000,
                        ignore_oi_for_usage: false,
                        liquidation: [u / 500, u / 100 * 37],
                    }
                }
            }

            fn fee_params(f: &[$U; 4]) -> FeeParams<$U> {
                let p = FeeParams::builder()
                    .positive_impact_fee_factor(f[0])
                    .negative_impact_fee_factor(f[1])
                    .fee_receiver_factor(f[2])
                    .build();
                if f[3] != 0 { p.with_discount_factor(f[3]) } else { p }
            }

            impl Cfg {
                pub fn build(&self) -> TestMarketConfig<$U, $DEC> {
                    TestMarketConfig {
                        swap_impact_params: PriceImpactParams::builder()
                            .exponent(self.swap_impact[0]).positive_factor(self.swap_impact[1]).negative_factor(self.swap_impact[2]).build(),
                        swap_fee_params: fee_params(&self.swap_fee),
                        position_params: PositionParams::new(self.position[0], self.position[1], self.position[2], self.position[3], self.position[4], self.position[5]),
                        position_impact_params: PriceImpactParams::builder()
                            .exponent(self.position_impact[0]).positive_factor(self.position_impact[1]).negative_factor(self.position_impact[2]).build(),
                        order_fee_params: fee_params(&self.order_fee),
                        position_impact_distribution_params: PositionImpactDistributionParams::builder()
                            .distribute_factor(self.distribution[0]).min_position_impact_pool_amount(self.distribution[1]).build(),
                        borrowing_fee_params: BorrowingFeeParams::builder()
                            .receiver_factor(self.borrowing[0]).exponent_for_long(self.borrowing[1]).exponent_for_short(self.borrowing[2])
                            .factor_for_long(self.borrowing[3]).factor_for_short(self.borrowing[4])
                            .skip_borrowing_fee_for_smaller_side(self.borrowing_skip).build(),
                        borrowing_fee_kink_model_params: BorrowingFeeKinkModelParamsForOneSide::builder()
                            .optimal_usage_factor(self.kink[0]).base_borrowing_factor(self.kink[1]).above_optimal_usage_borrowing_factor(self.kink[2]).build(),
                        funding_fee_params: FundingFeeParams::builder()
                            .exponent(self.funding[0]).funding_factor(self.funding[1]).increase_factor_per_second(self.funding[2])
                            .decrease_factor_per_second(self.funding[3]).max_factor_per_second(self.funding[4]).min_factor_per_second(self.funding[5])
                            .threshold_for_stable_funding(self.funding[6]).threshold_for_decrease_funding(self.funding[7]).build(),
                        reserve_factor: self.reserve_factor,
                        open_interest_reserve_factor: self.oi_reserve_factor,
                        max_pnl_factors: MaxPnlFactors { deposit: self.max_pnl[0], withdrawal: self.max_pnl[1], trader: self.max_pnl[2], adl: self.max_pnl[3] },
                        min_pnl_factor_after_adl: self.min_pnl_after_adl,
                        max_pool_amount: self.max_pool_amount,
                        max_pool_value_for_deposit: self.max_pool_value_for_deposit,
                        max_open_interest: self.max_open_interest,
                        min_collateral_factor_for_oi: self.min_collateral_factor_for_oi,
                        ignore_open_interest_for_usage_factor: self.ignore_oi_for_usage,
                        liquidation_fee_params: LiquidationFeeParams::builder().factor(self.liquidation[0]).receiver_factor(self.liquidation[1]).build(),
                    }
                }

                pub fn coq(&self) -> String {
                    let ip = |a: &[$U; 3]| format!("(mkIP {} {} {})", a[0], a[1], a[2]);
                    let fp = |a: &[$U; 4]| format!("(mkFP {} {} {} {})", a[0], a[1], a[2], a[3]);
                    format!(
                        "(mkConfig {} {} (mkPP {} {} {} None {} {} {}) {} {} (mkDP {} {}) (mkBP {} {} {} {} {} {}) (mkKP {} {} {}) (mkFuP {} {} {} {} {} {} {} {}) {} {} (mkPnlF {} {} {} {}) {} {} {} {} {} {} (mkLQ {} {}))",
                        ip(&self.swap_impact), fp(&self.swap_fee),
                        self.position[0], self.position[1], self.position[2], self.position[3], self.position[4], self.position[5],
                        ip(&self.position_impact), fp(&self.order_fee),
                        self.distribution[0], self.distribution[1],
                        self.borrowing[0], self.borrowing[1], self.borrowing[2], self.borrowing[3], self.borrowing[4], b(self.borrowing_skip),
                        self.kink[0], self.kink[1], self.kink[2],
                        self.funding[0], self.funding[1], self.funding[2], self.funding[3], self.funding[4], self.funding[5], self.funding[6], self.funding[7],
                        self.reserve_factor, self.oi_reserve_factor,
                        self.max_pnl[0], self.max_pnl[1], self.max_pnl[2], self.max_pnl[3],
                        self.min_pnl_after_adl, self.max_pool_amount, self.max_pool_value_for_deposit, self.max_open_interest,
                        self.min_collateral_factor_for_oi, b(self.ignore_oi_for_usage),
                        self.liquidation[0], self.liquidation[1]
                    )
                }
            }

            pub fn pool(p: &TestPool<$U>) -> String {
                format!("(mkPool {} {})", p.long_amount, p.short_amount)
            }
            fn opool(p: &Option<TestPool<$U>>) -> String {
                match p { Some(p) => format!("(Some {})", pool(p)), None => "None".into() }
            }
            fn oclk(m: &M, k: ClockKind) -> String {
                match m.clocks.get(&k) { Some(v) => format!("(Some {})", v), None => "None".into() }
            }
            pub fn state(m: &M) -> String {
                format!(
                    "(mkState {} {} {} {} {} {} {} {} {} {} {} {} {} {} {} {} {} {} {} {} {} {} {} {} {} {})",
                    m.total_supply, m.value_to_amount_divisor, m.funding_amount_per_size_adjustment,
                    pool(&m.primary), pool(&m.swap_impact), pool(&m.fee),
                    pool(&m.open_interest.0), pool(&m.open_interest.1),
                    pool(&m.open_interest_in_tokens.0), pool(&m.open_interest_in_tokens.1),
                    pool(&m.position_impact), pool(&m.borrowing_factor), z(m.funding_factor_per_second),
                    pool(&m.funding_amount_per_size.0), pool(&m.funding_amount_per_size.1),
                    pool(&m.claimable_funding_amount_per_size.0), pool(&m.claimable_funding_amount_per_size.1),
                    pool(&m.collateral_sum.0), pool(&m.collateral_sum.1), pool(&m.total_borrowing),
                    m.now, oclk(m, ClockKind::PriceImpactDistribution), oclk(m, ClockKind::Borrowing), oclk(m, ClockKind::Funding),
                    opool(&m.vi_swaps), opool(&m.vi_positions)
                )
            }
            /// Every field other than supply / liquidity / swap impact / claimable fee / vi_swaps is equal.
            pub fn rest_eq(a: &M, b: &M) -> bool {
                a.value_to_amount_divisor == b.value_to_amount_divisor
                    && a.funding_amount_per_size_adjustment == b.funding_amount_per_size_adjustment
                    && a.open_interest == b.open_interest
                    && a.open_interest_in_tokens == b.open_interest_in_tokens
                    && a.position_impact == b.position_impact
                    && a.borrowing_factor == b.borrowing_factor
                    && a.funding_factor_per_second == b.funding_factor_per_second
                    && a.funding_amount_per_size == b.funding_amount_per_size
                    && a.claimable_funding_amount_per_size == b.claimable_funding_amount_per_size
                    && a.collateral_sum == b.collateral_sum
                    && a.total_borrowing == b.total_borrowing
                    && a.now == b.now
                    && a.clocks == b.clocks
                    && a.vi_positions == b.vi_positions
            }
            /// Post-state of an action: compact when only the five writable fields may differ.
            pub fn post(before: &M, m: &M) -> String {
                if rest_eq(before, m) {
                    format!("(PUpd {} {} {} {} {})", m.total_supply, pool(&m.primary), pool(&m.swap_impact), pool(&m.fee), opool(&m.vi_swaps))
                } else {
                    format!("(PFull {})", state(m))
                }
            }
            pub fn price(p: &Price<$U>) -> String { format!("(mkPrice {} {})", p.min, p.max) }
            pub fn prices(p: &Prices<$U>) -> String {
                format!("(mkPrices {} {} {})", price(&p.index_token_price), price(&p.long_token_price), price(&p.short_token_price))
            }
            fn fees(f: &gmsol_model::params::Fees<$U>) -> String {
                format!("(mkFees {} {})", f.fee_amount_for_receiver(), f.fee_amount_for_pool())
            }

            /// Price around `mid` with a spread chosen from {0, 1, small, a few percent}.
            fn spread(rng: &mut Rng, mid: $U) -> Price<$U> {
                let d: $U = match rng.below(6) {
                    0 | 1 => 0,
                    2 => 1,
                    3 => mid / 1000,
                    4 => mid / 100 * (rng.below(5) as $U + 1),
                    _ => (rng.below(1000) as $U).min(mid / 2),
                };
                let lo = mid.saturating_sub(d).max(1);
                Price { min: lo, max: mid.saturating_add(d) }
            }

            pub struct Px { pub long: $U, pub short: $U, pub index_same: bool }

            fn gen_prices(rng: &mut Rng, px: &Px) -> Prices<$U> {
                // small drift around the history's base prices
                let drift = |rng: &mut Rng, p: $U| -> $U {
                    match rng.below(4) { 0 => p, 1 => p.saturating_add(p / 100), 2 => p - p / 100, _ => p.saturating_add(rng.below(7) as $U) }
                };
                let l = drift(rng, px.long).max(1);
                let s = drift(rng, px.short).max(1);
                let mut p = Prices {
                    index_token_price: spread(rng, l),
                    long_token_price: spread(rng, l),
                    short_token_price: spread(rng, s),
                };
                if px.index_same { p.index_token_price = p.long_token_price; }
                // a few malformed price sets
                match rng.below(240) {
                    0 => p.long_token_price.min = 0,
                    1 => p.short_token_price.max = 0,
                    2 => p.index_token_price.min = 0,
                    3 => { p.long_token_price.max = <$U>::MAX; }
                    4 => { p.short_token_price = Price { min: <$U>::MAX / 2 + 1, max: <$U>::MAX / 2 + 1 }; }
                    5 => { let t = p.long_token_price.min; p.long_token_price.min = p.long_token_price.max; p.long_token_price.max = t; }
                    _ => {}
                }
                p
            }

            /// Token amount from a mixture relative to a reference size.
            fn amount(rng: &mut Rng, reference: $U) -> $U {
                let r = reference.max(1);
                match rng.below(14) {
                    0 => 1,
                    1 => rng.below(1000) as $U + 1,
                    2 => r / 1_000_000 + 1,
                    3 => r / 1000 + 1,
                    4 | 5 => (r / 100).saturating_add(rng.below(1000) as $U),
                    6 | 7 => (r / 10).saturating_add(rng.below(1000) as $U),
                    8 => r / 2,
                    9 => r,
                    10 => r.saturating_mul(2),
                    11 => (r / (rng.below(50) as $U + 1)).saturating_add(rng.below(100) as $U),
                    12 => (rng.uint(W) as $U) >> rng.below(W as u64 / 2),
                    _ => r.saturating_add(rng.below(3) as $U).saturating_sub(1),
                }
            }

            fn gen_cfg(rng: &mut Rng, zero: bool, tok_scale: $U, val_scale: $U) -> Cfg {
                let u = UNIT;
                let mut c = Cfg::default();
                if zero {
                    c.swap_fee = [0, 0, rng.below(2) as $U * (u / 2), 0];
                    c.swap_impact = [c.swap_impact[0], 0, 0];
                    return c;
                }
                // swap fees
                match rng.below(8) {
                    0 => c.swap_fee = [0, 0, 0, 0],
                    1 => c.swap_fee = [u / 100, u / 50, u / 2, 0],
                    2 => c.swap_fee = [u / 1000 * 3, u / 1000 * 5, u, u / 10],
                    3 => c.swap_fee = [u / 10, u / 5, 0, u / 2],
                    4 => c.swap_fee = [u / 1_000_000, u / 1_000_000 * 3, u / 3, 0],
                    5 if rng.chance(1, 4) => c.swap_fee = [u + u / 10, u / 100, u / 2, 0], // > 100 %: apply_fees fails when charged
                    6 if rng.chance(1, 4) => c.swap_fee = [u / 100, u / 100, u + 1, 0],     // receiver factor > 1
                    _ => {}
                }
                // swap impact
                let n = u / 1_000_000_000;
                match rng.below(10) {
                    0 => { c.swap_impact[1] = 0; c.swap_impact[2] = 0; }
                    1 => { c.swap_impact[1] = 0; }
                    2 => { c.swap_impact[1] = 20 * n; c.swap_impact[2] = 8 * n; }   // positive > negative: adjusted
                    3 => { c.swap_impact[1] = 400 * n; c.swap_impact[2] = 800 * n; } // strong impact: caps bind
                    4 => { c.swap_impact[1] = 8 * n; c.swap_impact[2] = 8 * n; }
                    5 => { c.swap_impact[0] = u; c.swap_impact[1] = u / 1000; c.swap_impact[2] = u / 500; }
                    6 => { c.swap_impact[0] = 3 * u; c.swap_impact[1] = n / 100 + 1; c.swap_impact[2] = n / 50 + 1; }
                    7 => { c.swap_impact[0] = 0; c.swap_impact[1] = u / 100; c.swap_impact[2] = u / 50; }
                    _ => {}
                }
                if rng.chance(1, 6) { c.reserve_factor = [u / 2, u / 10, u + u / 20, 0][rng.below(4) as usize]; }
                if rng.chance(1, 8) { c.max_pnl = [u / 10, u / 20, u / 2, u / 2]; }
                if rng.chance(1, 8) { c.max_pnl = [u / 10 * 3, u / 10 * 6, u / 2, u / 2]; }
                // caps relative to the history's token / value scale so that they actually bind
                if rng.chance(1, 6) { c.max_pool_amount = tok_scale.saturating_mul([1u64, 2, 5, 20][rng.below(4) as usize] as $U); }
                if rng.chance(1, 8) { c.max_pool_value_for_deposit = val_scale.saturating_mul([1u64, 3, 10][rng.below(3) as usize] as $U); }
                if rng.chance(1, 6) { c.borrowing_skip = false; }
                if rng.chance(1, 6) { c.kink[0] = 0; } // kink model off
                if rng.chance(1, 8) { c.ignore_oi_for_usage = true; }
                if rng.chance(1, 8) { c.distribution[0] = 0; }
                if rng.chance(1, 8) { c.distribution = [u / 10, 1000]; }
                if rng.chance(1, 10) { c.borrowing[0] = [0, u, u / 2][rng.below(3) as usize]; }
                c
            }

            /// Directly overwrite fields to reach states plain histories would not.
            fn perturb(rng: &mut Rng, m: &mut M, px: &Px) {
                let liq_l = m.primary.long_amount;
                let liq_s = m.primary.short_amount;
                for _ in 0..(1 + rng.below(3)) {
                    match rng.below(11) {
                        0 => { m.swap_impact.long_amount = amount(rng, liq_l / 100); }
                        1 => { m.swap_impact.short_amount = amount(rng, liq_s / 100); }
                        2 => { m.swap_impact = TestPool { long_amount: 0, short_amount: 0 }; }
                        3 => { m.fee.long_amount = amount(rng, liq_l / 1000); m.fee.short_amount = amount(rng, liq_s / 1000); }
                        4 | 5 => {
                            // open interest: usd on both collateral sides, tokens ~ usd / price with some pnl;
                            // utilisation from light to close to the reserve limit, pnl from negative to above the caps
                            let side_long = rng.chance(1, 2);
                            let usd_cap = if side_long { liq_l.saturating_mul(px.long) } else { liq_s.saturating_mul(px.short) };
                            // no open interest against an empty pool side (unreachable: opening needs reserve)
                            let usd = if usd_cap == 0 { 0 } else { match rng.below(6) { 0 => usd_cap / 8, 1 => usd_cap / 3, 2 => usd_cap / 3 * 2, 3 => usd_cap / 10 * 9, _ => amount(rng, usd_cap / 4) } };
                            let usd2 = if usd_cap == 0 || rng.chance(1, 2) { 0 } else { amount(rng, usd_cap / 16) };
                            let tok = |rng: &mut Rng, v: $U| -> $U {
                                let t = v / px.long.max(1);
                                match rng.below(8) { 0 | 1 => t, 2 => t.saturating_add(t / 10), 3 => t - t / 10, 4 => t.saturating_add(t / 2), 5 => t / 2, 6 => t.saturating_add(t / 100), _ => t.saturating_mul(2) }
                            };
                            {
                                let (o, t) = if side_long { (&mut m.open_interest.0, &mut m.open_interest_in_tokens.0) } else { (&mut m.open_interest.1, &mut m.open_interest_in_tokens.1) };
                                o.long_amount = usd; o.short_amount = usd2;
                                t.long_amount = tok(rng, usd); t.short_amount = tok(rng, usd2);
                                if rng.chance(1, 3) {
                                    // aim at a pnl factor around the deposit / withdrawal / trader caps (0.3 .. 0.6)
                                    let f = [20u64, 29, 31, 45, 59, 61, 70][rng.below(7) as usize] as $U;
                                    let target = usd_cap / 100 * f;
                                    o.short_amount = 0; t.short_amount = 0;
                                    if side_long {
                                        o.long_amount = usd_cap / 2;
                                        t.long_amount = (usd_cap / 2).saturating_add(target) / px.long.max(1);
                                    } else {
                                        o.long_amount = usd_cap / 10 * 8;
                                        t.long_amount = (usd_cap / 10 * 8).saturating_sub(target) / px.long.max(1);
                                    }
                                }
                            }
                            if rng.chance(1, 2) {
                                // positions have been open for a while: cumulative factors, borrowed totals, clocks in the past
                                let f = UNIT / 1000 * (rng.below(50) as $U);
                                m.borrowing_factor.long_amount = f; m.borrowing_factor.short_amount = f / 2;
                                let oi_l = m.open_interest.0.long_amount.saturating_add(m.open_interest.0.short_amount);
                                let oi_s = m.open_interest.1.long_amount.saturating_add(m.open_interest.1.short_amount);
                                let tb = |oi: $U, f: $U| -> $U { ((oi as u128).saturating_mul(f as u128) / (UNIT as u128)).min(<$U>::MAX as u128) as $U };
                                m.total_borrowing.long_amount = tb(oi_l, f);
                                m.total_borrowing.short_amount = tb(oi_s, f / 2);
                                m.now += [60u64, 3600, 86_400, 1_000_000][rng.below(4) as usize];
                                let now = m.now;
                                m.clocks.insert(ClockKind::Borrowing, now - [1u64, 60, 3600, 50_000][rng.below(4) as usize].min(now));
                                if rng.chance(1, 2) { m.clocks.insert(ClockKind::PriceImpactDistribution, now - [1u64, 600, 40_000][rng.below(3) as usize].min(now)); }
                            }
                        }
                        6 => { m.position_impact.long_amount = amount(rng, liq_l / 50); }
                        7 => {
                            // borrowing state: cumulative factors and total borrowing consistent-ish with OI
                            let f = UNIT / 1000 * (rng.below(50) as $U);
                            m.borrowing_factor.long_amount = f; m.borrowing_factor.short_amount = f / 2;
                            let oi_l = m.open_interest.0.long_amount.saturating_add(m.open_interest.0.short_amount);
                            let oi_s = m.open_interest.1.long_amount.saturating_add(m.open_interest.1.short_amount);
                            let tb = |oi: $U, f: $U| -> $U { ((oi as u128).saturating_mul(f as u128) / (UNIT as u128)).min(<$U>::MAX as u128) as $U };
                            m.total_borrowing.long_amount = tb(oi_l, f).saturating_sub(rng.below(3) as $U * (tb(oi_l, f) / 10));
                            m.total_borrowing.short_amount = tb(oi_s, f / 2);
                        }
                        8 => {
                            // clocks: touch and move time
                            let k = [ClockKind::PriceImpactDistribution, ClockKind::Borrowing, ClockKind::Funding][rng.below(3) as usize];
                            let now = m.now;
                            m.clocks.insert(k, now.saturating_sub(rng.below(5000)));
                        }
                        9 => { m.now += [1u64, 60, 3600, 86_400, 1_000_000][rng.below(5) as usize]; }
                        _ => {
                            if rng.chance(1, 3) {
                                m.vi_swaps = if m.vi_swaps.is_some() && rng.chance(1, 2) { None } else {
                                    Some(TestPool { long_amount: amount(rng, liq_l.saturating_mul(2)), short_amount: amount(rng, liq_s.saturating_mul(2)) })
                                };
                            } else {
                                m.total_supply = amount(rng, m.total_supply);
                            }
                        }
                    }
                }
            }

            fn restore_on_panic<R>(m: &mut M, f: impl FnOnce(&mut M) -> R) -> Option<R> {
                let r = std::panic::catch_unwind(AssertUnwindSafe(|| f(m)));
                r.ok()
            }

            /// One history.  Returns (tag flags, Coq term).
            pub fn history(rng: &mut Rng, mix: &Mix) -> (String, String) {
                let zero = rng.below(1000) < mix.zero_fee_zero_impact;
                let px = Px {
                    long: PS * [1u64, 2, 17, 120, 121, 2500, 60_000][rng.below(7) as usize] as $U,
                    short: if rng.chance(3, 4) { PS } else { PS * [2u64, 3, 120][rng.below(3) as usize] as $U },
                    index_same: rng.chance(2, 3),
                };
                // token scale chosen so that pool USD values sit where the impact arithmetic is non-trivial
                // (u64/9: 1e10..1e13, u128/20: 1e21..1e27 value units) and occasionally far below
                let vexp: u32 = if W == 64 { 10 + rng.below(4) as u32 } else { 21 + rng.below(7) as u32 };
                let vexp = if rng.chance(1, 8) { vexp - 4 } else { vexp };
                let val_scale: $U = (10 as $U).pow(vexp);
                let tok_scale: $U = (val_scale / px.long).max(1);
                let cfg = gen_cfg(rng, zero, tok_scale, val_scale);
                let (div, adj): ($U, $U) = if W == 64 { (1, 10_000) } else { ((10 as $U).pow(DEC - 9), (10 as $U).pow(10)) };
                let mut m = M::new(div, adj, cfg.build());
                if rng.chance(1, 4) {
                    // pre-populated market
                    m.primary.long_amount = amount(rng, tok_scale);
                    m.primary.short_amount = amount(rng, tok_scale.saturating_mul(px.long / px.short.max(1)).max(1));
                    let pv = (m.primary.long_amount as u128).saturating_mul(px.long as u128).saturating_add((m.primary.short_amount as u128).saturating_mul(px.short as u128)) / (div as u128);
                    m.total_supply = (pv.min(<$U>::MAX as u128 / 4) as $U).max(1);
                    perturb(rng, &mut m, &px);
                }
                let init = state(&m);
                let n_ops = rng.range(mix.min_ops, mix.max_ops);
                let mut ops: Vec<String> = vec![];
                let mut flags = std::collections::BTreeSet::new();
                let total = mix.deposit + mix.withdraw + mix.swap + mix.set + mix.round_trip;
                let mut i = 0;
                while i < n_ops {
                    i += 1;
                    let empty = m.primary.long_amount == 0 && m.primary.short_amount == 0;
                    let mut k = rng.below(total);
                    if empty && rng.chance(4, 5) { k = 0; }
                    let p = gen_prices(rng, &px);
                    if k < mix.deposit {
                        let (l, s) = gen_deposit(rng, &m, &px, tok_scale);
                        ops.push(do_deposit(&mut m, l, s, p, &mut flags).0);
                    } else if k < mix.deposit + mix.withdraw {
                        let a = match rng.below(24) { 0 | 1 => m.total_supply, 2 => 0, 3 => m.total_supply.saturating_add(1), _ => amount(rng, m.total_supply / 4).max(1) };
                        ops.push(do_withdraw(&mut m, a, p, &mut flags));
                    } else if k < mix.deposit + mix.withdraw + mix.swap {
                        // value of each side; swapping in the poorer side improves the balance (positive impact)
                        let lv = (m.primary.long_amount as u128).saturating_mul(px.long as u128);
                        let sv = (m.primary.short_amount as u128).saturating_mul(px.short as u128);
                        let improving_long_in = lv < sv;
                        let mut is_long_in = if rng.chance(3, 5) { improving_long_in } else { !improving_long_in };
                        // avoid swapping out of an empty pool most of the time
                        let out_empty = if is_long_in { sv < (px.long as u128).saturating_mul(2) } else { lv < (px.short as u128).saturating_mul(2) };
                        if out_empty && rng.chance(9, 10) { is_long_in = !is_long_in; }
                        let (pin, pout, out_pool) = if is_long_in { (px.long, px.short, m.primary.short_amount) } else { (px.short, px.long, m.primary.long_amount) };
                        // reference: the in-token equivalent of the out-side pool / of the imbalance
                        let eq = ((out_pool as u128).saturating_mul(pout as u128) / (pin.max(1) as u128)).min(<$U>::MAX as u128) as $U;
                        let gap = ((if lv > sv { lv - sv } else { sv - lv }) / (pin.max(1) as u128)).min(<$U>::MAX as u128) as $U;
                        let reference = match rng.below(4) { 0 => gap, 1 => gap / 2, _ => eq / 2 };
                        let mut a = if rng.chance(1, 40) { 0 } else { amount(rng, reference).max(1) };
                        if rng.chance(9, 10) && eq >= 10 { a = a.min(eq / 10 * 9); }
                        ops.push(do_swap(&mut m, is_long_in, a, p, &mut flags));
                    } else if k < mix.deposit + mix.withdraw + mix.swap + mix.set {
                        perturb(rng, &mut m, &px);
                        ops.push(format!("OSet (PFull {})", state(&m)));
                        flags.insert('S');
                    } else {
                        // round trip at unchanged prices
                        let (l, s) = gen_deposit(rng, &m, &px, tok_scale);
                        let (t, minted) = do_deposit(&mut m, l, s, p, &mut flags);
                        ops.push(t);
                        if let Some(minted) = minted {
                            ops.push(do_withdraw(&mut m, minted, p, &mut flags));
                            flags.insert('R');
                        }
                    }
                }
                let tag: String = flags.iter().collect();
                let term = format!("Hist {} {} {} {} [{}]", W, DEC, cfg.coq(), init, ops.join("; "));
                (format!("hist{}/{}", W, if tag.is_empty() { "trivial".to_string() } else { tag }), term)
            }

            /// The round trip recorded in DESIGN.md section 7 (C06): zero fees, default impact factors;
            /// LP1 deposits `l1` long tokens, LP2 deposits `s2` short tokens and withdraws all minted tokens
            /// at unchanged prices (long `pl`, short `ps`, no spread).
            pub fn round_trip_witness(l1: $U, s2: $U, pl: $U, ps: $U) -> (String, String) {
                let mut cfg = Cfg::default();
                cfg.swap_fee = [0, 0, 0, 0];
                let (div, adj): ($U, $U) = if W == 64 { (1, 10_000) } else { ((10 as $U).pow(DEC - 9), (10 as $U).pow(10)) };
                let mut m = M::new(div, adj, cfg.build());
                let init = state(&m);
                let p = Prices { index_token_price: Price { min: pl, max: pl }, long_token_price: Price { min: pl, max: pl }, short_token_price: Price { min: ps, max: ps } };
                let mut flags = std::collections::BTreeSet::new();
                let mut ops = vec![];
                ops.push(do_deposit(&mut m, l1, 0, p, &mut flags).0);
                let (t, minted) = do_deposit(&mut m, 0, s2, p, &mut flags);
                ops.push(t);
                if let Some(minted) = minted { ops.push(do_withdraw(&mut m, minted, p, &mut flags)); flags.insert('R'); }
                let tag: String = flags.iter().collect();
                (format!("witness{}/{}", W, tag), format!("Hist {} {} {} {} [{}]", W, DEC, cfg.coq(), init, ops.join("; ")))
            }

            fn gen_deposit(rng: &mut Rng, m: &M, px: &Px, tok_scale: $U) -> ($U, $U) {
                let ref_l = if m.primary.long_amount == 0 { tok_scale } else { m.primary.long_amount / 2 };
                let short_eq = tok_scale.saturating_mul((px.long / px.short.max(1)).max(1));
                let ref_s = if m.primary.short_amount == 0 { short_eq } else { m.primary.short_amount / 2 };
                match rng.below(30) {
                    0..=8 => (amount(rng, ref_l).max(1), 0),
                    9..=17 => (0, amount(rng, ref_s).max(1)),
                    18 => (0, 0),
                    _ => (amount(rng, ref_l), amount(rng, ref_s)),
                }
            }

            fn do_deposit(m: &mut M, l: $U, s: $U, p: Prices<$U>, flags: &mut std::collections::BTreeSet<char>) -> (String, Option<$U>) {
                let before = m.clone();
                let r = restore_on_panic(m, |m| m.deposit(l, s, p).and_then(|d| d.execute()));
                let mut minted = None;
                let rs = match r {
                    Some(Ok(rep)) => {
                        flags.insert('D');
                        if *rep.price_impact() > 0 { flags.insert('I'); }
                        minted = Some(*rep.minted());
                        format!("(Ok (mkDR {} {} {} {}))", rep.minted(), z(rep.price_impact()), fees(rep.long_token_fees()), fees(rep.short_token_fees()))
                    }
                    Some(Err(e)) => { flags.insert('d'); *m = before.clone(); format!("(Err {})", ecode(&e)) }
                    None => { flags.insert('!'); *m = before.clone(); "(Err 99)".to_string() }
                };
                (format!("ODeposit {} {} {} {} {}", l, s, prices(&p), rs, post(&before, m)), minted)
            }

            fn do_withdraw(m: &mut M, a: $U, p: Prices<$U>, flags: &mut std::collections::BTreeSet<char>) -> String {
                let before = m.clone();
                let r = restore_on_panic(m, |m| m.withdraw(a, p).and_then(|d| d.execute()));
                let rs = match r {
                    Some(Ok(rep)) => {
                        flags.insert('W');
                        format!("(Ok (mkWR {} {} {} {}))", rep.long_token_output(), rep.short_token_output(), fees(rep.long_token_fees()), fees(rep.short_token_fees()))
                    }
                    Some(Err(e)) => { flags.insert('w'); *m = before.clone(); format!("(Err {})", ecode(&e)) }
                    None => { flags.insert('!'); *m = before.clone(); "(Err 99)".to_string() }
                };
                format!("OWithdraw {} {} {} {}", a, prices(&p), rs, post(&before, m))
            }

            /// Swaps are NOT restored on failure: whatever `execute` leaves behind is printed.
            fn do_swap(m: &mut M, is_long_in: bool, a: $U, p: Prices<$U>, flags: &mut std::collections::BTreeSet<char>) -> String {
                let before = m.clone();
                let before_in_impact = if is_long_in { m.swap_impact.long_amount } else { m.swap_impact.short_amount };
                let r = restore_on_panic(m, |m| m.swap(is_long_in, a, p).and_then(|d| d.execute()));
                let rs = match r {
                    Some(Ok(rep)) => {
                        let after_in_impact = if is_long_in { m.swap_impact.long_amount } else { m.swap_impact.short_amount };
                        if *rep.price_impact() > 0 { flags.insert('P'); if after_in_impact < before_in_impact { flags.insert('C'); } }
                        else if *rep.price_impact() < 0 { flags.insert('N'); } else { flags.insert('Z'); }
                        format!("(Ok (mkSR {} {} {} {}))", rep.token_out_amount(), z(rep.price_impact()), rep.price_impact_amount(), fees(rep.token_in_fees()))
                    }
                    Some(Err(e)) => { if std::env::var("VERIF_SHOW_ERRORS").is_ok() { eprintln!("swap error: {e}"); } flags.insert('F'); format!("(Err {})", ecode(&e)) }
                    None => { flags.insert('!'); "(Err 99)".to_string() }
                };
                format!("OSwap {} {} {} {} {}", b(is_long_in), a, prices(&p), rs, post(&before, m))
            }
        }
    };
}

mk_impl!(m64, u64, i64, 64, 9, 1);
mk_impl!(m128, u128, i128, 128, 20, 100_000_000_000);

pub fn run(mix: &Mix, seed: u64, n: usize) {
    if std::env::var("VERIF_SHOW_PANICS").is_err() { crate::silence_panics(); }
    let mut rng = Rng::new(seed);
    for _ in 0..n {
        let (tag, term) = if rng.chance(1, 2) { m64::history(&mut rng, mix) } else { m128::history(&mut rng, mix) };
        emit(&tag, &hexify(&term));
    }
}
