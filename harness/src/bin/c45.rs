//! C45 driver: GLV composition, balance limits and pricing.
//!
//! Real code driven:
//!  * `Glv::{process_and_validate_markets_for_init, unchecked_init, insert_market, unchecked_remove_market,
//!    update_market_config, market_tokens, market_config}` on a real `Glv` with real `Market` accounts   (Comp)
//!  * `Glv::validate_market_token_balance` (-> `GlvMarketConfig::validate_balance`)                     (Limit)
//!  * `gmsol_model::glv::{get_glv_value_for_market, get_market_token_amount_for_glv_value}` and the real
//!    `pool_value` on markets implementing the real model traits; `usd_to_market_token_amount`,
//!    `market_token_amount_to_usd`; real `Glv` balance bookkeeping                               (Price, RoundTrip)
//!  The orchestration of perform_glv_deposit / perform_glv_withdrawal (which value is maximised, order of the
//!  steps) is re-stated in this driver (see notes/C45.md).
use anchor_lang::prelude::*;
use gmsol_model::glv::{get_glv_value_for_market, get_market_token_amount_for_glv_value};
use gmsol_model::price::{Price, Prices};
use gmsol_model::utils::{market_token_amount_to_usd, usd_to_market_token_amount};
use gmsol_model::{BaseMarketExt, LiquidityMarketExt, PnlFactorKind};
use gmsol_store::states::Glv;
use gmsol_store::verif_hooks_g9 as hk;
use gmsol_store::CoreError;
use gmsol_verif_harness::g9mk::{market_token, token, zeroed_box, Env};
use gmsol_verif_harness::g9rt;
use gmsol_verif_harness::vmarket::TestMarket;
use gmsol_verif_harness::*;
use std::collections::BTreeSet;

type VM = TestMarket<u128, 20>;
const DIVISOR: u128 = 100_000_000_000; // constants::MARKET_USD_TO_AMOUNT_DIVISOR = 10^(20-9)

fn code(e: &anchor_lang::error::Error) -> u32 {
    let c = g9rt::err_code(e);
    let m = |x: CoreError| -> u32 { x.into() };
    if c == m(CoreError::InvalidArgument) { 1 }
    else if c == m(CoreError::TokenMintMismatched) { 2 }
    else if c == m(CoreError::NotFound) { 3 }
    else if c == m(CoreError::PreconditionsAreNotMet) { 4 }
    else if c == m(CoreError::ExceedMaxLengthLimit) { 6 }
    else if c == m(CoreError::StoreMismatched) { 7 }
    else if c == m(CoreError::DisabledMarket) { 8 }
    else if c == m(CoreError::ExceedMaxGlvMarketTokenBalanceAmount) { 10 }
    else if c == m(CoreError::ExceedMaxGlvMarketTokenBalanceValue) { 11 }
    else if c == m(CoreError::GlvNegativeMarketPoolValue) { 12 }
    else if c == m(CoreError::FailedToCalculateGlvValueForMarket) { 13 }
    else {
        // gmsol_utils::GeneralError (AlreadyExist / ExceedMaxLengthLimit) live in another error space
        match e {
            anchor_lang::error::Error::AnchorError(a) if a.error_name == "AlreadyExist" => 5,
            anchor_lang::error::Error::AnchorError(a) if a.error_name == "ExceedMaxLengthLimit" => 6,
            _ => 1000 + c,
        }
    }
}

// ------------------------------------------------------------------ Comp
/// (index, long, short) of the markets available to a GLV history.
const TOKS: [(u64, u64, u64); 9] = [
    (9, 0, 1), (8, 0, 1), (7, 0, 1), (9, 1, 0), (9, 0, 2), (8, 0, 0), (6, 0, 1), (5, 0, 1), (4, 2, 1),
];

fn snap(glv: &Glv) -> String {
    let id_of_mt = |k: &Pubkey| (0..20u64).find(|i| market_token(*i) == *k).unwrap_or(99);
    let id_of_tok = |k: &Pubkey| (0..10u64).find(|i| token(*i) == *k).unwrap_or(99);
    let mut ms: Vec<(u64, u64, u128, u64)> = glv
        .market_tokens()
        .map(|mt| { let c = glv.market_config(&mt).unwrap(); (id_of_mt(&mt), c.max_amount(), c.max_value(), c.balance()) })
        .collect();
    assert_eq!(ms.len(), glv.num_markets());
    ms.sort();
    format!("(mkG {} {} [{}])", id_of_tok(glv.long_token()), id_of_tok(glv.short_token()),
        ms.iter().map(|(m, a, v, bal)| format!("mkC {m} {a} {v} {bal} false")).collect::<Vec<_>>().join("; "))
}

fn gen_comp(rng: &mut Rng) {
    let mut env = Env::new();
    let wrong_store = if rng.chance(1, 8) { Some(rng.below(9)) } else { None };
    let disabled = if rng.chance(1, 8) { Some(rng.below(9)) } else { None };
    for (id, (ix, l, s)) in TOKS.iter().enumerate() {
        let st = if wrong_store == Some(id as u64) { Some(g9rt::key(11)) } else { None };
        env.add_market(id as u64, *ix, *l, *s, st, disabled != Some(id as u64));
    }
    let macct = |m: u64| { let (_, l, s) = TOKS[m as usize]; format!("mkM {m} {l} {s} {} {}", b(wrong_store != Some(m)), b(disabled != Some(m))) };
    // init
    let same: Vec<u64> = vec![0, 1, 2, 6, 7];
    let mut init: Vec<u64> = vec![];
    let k = rng.range(0, 4);
    for _ in 0..k {
        let m = if rng.chance(5, 6) { same[rng.below(same.len() as u64) as usize] } else { rng.below(9) };
        if !init.contains(&m) || rng.chance(1, 10) { init.push(m); }
    }
    let infos: Vec<AccountInfo<'static>> = init.iter().map(|m| env.info(*m as usize)).collect();
    let infos_ref: &'static [AccountInfo<'static>] = unsafe { &*(infos.as_slice() as *const _) };
    let mut glv: Box<Glv> = zeroed_box::<Glv>();
    let store = env.store;
    let r0: std::result::Result<(), u32> = (|| {
        let (long, short, mts) = hk::glv_process_and_validate_markets_for_init(infos_ref, &store).map_err(|e| code(&e))?;
        let (glv_token, _) = Glv::find_glv_token_pda(&store, 3, &gmsol_store::ID);
        hk::glv_unchecked_init(&mut glv, 250, 3, &store, &glv_token, &long, &short, &mts).map_err(|e| code(&e))
    })();
    drop(infos);
    let init_term = format!("[{}]", init.iter().map(|m| macct(*m)).collect::<Vec<_>>().join("; "));
    if let Err(e) = r0 {
        emit("comp/init_rejected", &format!("Comp {init_term} (Err {e}) []"));
        return;
    }
    let s0 = snap(&glv);
    let mut items: Vec<String> = vec![];
    let n = rng.range(2, 9);
    for _ in 0..n {
        match rng.below(5) {
            0 | 1 => {
                let m = if rng.chance(3, 4) { same[rng.below(same.len() as u64) as usize] } else { rng.below(9) };
                let loader = env.loader(m as usize);
                let r = { let mk = loader.load().unwrap(); hk::glv_insert_market(&mut glv, &store, &mk).map_err(|e| code(&e)) };
                let rs = match r { Ok(()) => format!("Ok {}", snap(&glv)), Err(e) => format!("Err {e}") };
                items.push(format!("(GInsert ({}), {rs})", macct(m)));
            }
            2 => {
                let m = rng.below(9);
                let r = hk::glv_unchecked_remove_market(&mut glv, &market_token(m)).map_err(|e| code(&e));
                let rs = match r { Ok(()) => format!("Ok {}", snap(&glv)), Err(e) => format!("Err {e}") };
                items.push(format!("(GRemove {m}, {rs})"));
            }
            3 => {
                let m = rng.below(9);
                let ma = if rng.chance(2, 3) { Some(rng.uint(64) as u64) } else { None };
                let mv = if rng.chance(2, 3) { Some(rng.uint(128)) } else { None };
                let r = hk::glv_update_market_config(&mut glv, &market_token(m), ma, mv).map_err(|e| code(&e));
                let rs = match r { Ok(()) => format!("Ok {}", snap(&glv)), Err(e) => format!("Err {e}") };
                items.push(format!("(GConfig {m} {} {}, {rs})", oz(ma), oz(mv)));
            }
            _ => {
                let m = rng.below(9);
                let nb = rng.uint(64) as u64;
                let r = hk::glv_update_market_token_balance(&mut glv, &market_token(m), nb).map_err(|e| code(&e));
                let rs = match r { Ok(()) => format!("Ok {}", snap(&glv)), Err(e) => format!("Err {e}") };
                items.push(format!("(GBalance {m} {nb}, {rs})"));
            }
        }
    }
    emit("comp/history", &format!("Comp {init_term} (Ok {s0}) [{}]", items.join("; ")));
}

// ------------------------------------------------------------------ Limit
fn gen_limit(rng: &mut Rng) {
    let mut glv: Box<Glv> = zeroed_box::<Glv>();
    let store = g9rt::key(10);
    let (glv_token, _) = Glv::find_glv_token_pda(&store, 3, &gmsol_store::ID);
    let mts: BTreeSet<Pubkey> = [market_token(0), market_token(1)].into_iter().collect();
    hk::glv_unchecked_init(&mut glv, 250, 3, &store, &glv_token, &token(0), &token(1), &mts).unwrap();
    let max_amount: u64 = match rng.below(4) { 0 => 0, 1 => rng.uint(64) as u64, _ => 1_000_000 * (1 + rng.below(1000)) };
    let max_value: u128 = match rng.below(4) { 0 => 0, 1 => rng.uint(128), _ => 10u128.pow(20) * (1 + rng.below(100_000) as u128) };
    hk::glv_update_market_config(&mut glv, &market_token(0), Some(max_amount), Some(max_value)).unwrap();
    let target = if rng.chance(1, 12) { 5 } else { 0 };
    let nb: u64 = match rng.below(5) { 0 => max_amount, 1 => max_amount.wrapping_add(1), 2 => max_amount.saturating_sub(1), 3 => rng.uint(64) as u64, _ => rng.below(2_000_000_000) };
    let supply: u128 = match rng.below(6) { 0 => 0, 1 => rng.uint(128), _ => 1_000_000 * (1 + rng.below(1_000_000) as u128) };
    // pool value such that the value of nb straddles max_value
    let pv: i128 = match rng.below(7) {
        0 => -(rng.uint(100) as i128) - 1,
        1 => rng.sint(128),
        2 => 0,
        _ => {
            if nb != 0 && supply != 0 {
                let base = (max_value / nb as u128).saturating_mul(supply).min(i128::MAX as u128 - 10) as i128;
                base.saturating_add(rng.below(5) as i128 - 2).max(0)
            } else { (rng.uint(100)) as i128 }
        }
    };
    let r = hk::glv_validate_market_token_balance(&glv, &market_token(target), nb, &pv, &supply).map_err(|e| code(&e));
    let rs = match r { Ok(()) => "(Ok tt)".to_string(), Err(e) => format!("(Err {e})") };
    emit(if r.is_ok() { "limit/ok" } else { "limit/rejected" },
        &format!("Limit [mkC 0 {max_amount} {max_value} 0 false; mkC 1 0 0 0 false] {target} {nb} {} {supply} {rs}", z(pv)));
}

// ------------------------------------------------------------------ pricing
struct PM { id: u64, market: VM, prices: Prices<u128>, balance: u64 }

fn mk_market(rng: &mut Rng, with_positions: bool, f_dep: u128, f_wd: u128) -> (VM, Prices<u128>) {
    let mut m = VM::default();
    m.config.max_pnl_factors.deposit = f_dep;
    m.config.max_pnl_factors.withdrawal = f_wd;
    let unit = |v: u64| (v as u128) * 10u128.pow(8); // unit price of a 6..9 decimals token
    let pl = 1_000_000 + rng.below(500_000);
    let ps = 900_000 + rng.below(300_000);
    let pi = 2_000_000 + rng.below(1_000_000);
    let spread = |rng: &mut Rng, p: u64| -> Price<u128> { let d = match rng.below(3) { 0 => 0, 1 => 1, _ => rng.below(p / 50 + 1) }; Price { min: unit(p), max: unit(p + d) } };
    let prices = Prices { index_token_price: spread(rng, pi), long_token_price: spread(rng, pl), short_token_price: spread(rng, ps) };
    let liq = |rng: &mut Rng| -> u128 { match rng.below(10) { 0 => 0, 1 => 1 + rng.below(1000) as u128, _ => 1_000_000_000 * (1 + rng.below(100_000) as u128) } };
    m.primary.long_amount = liq(rng);
    m.primary.short_amount = liq(rng);
    m.total_supply = match rng.below(12) { 0 => 0, 1 => 1, _ => 1_000_000_000 * (1 + rng.below(1_000_000) as u128) };
    if with_positions {
        // long positions with profit: pnl = oi_in_tokens * index_price - oi
        let pool_usd = m.primary.long_amount.saturating_mul(prices.long_token_price.min);
        let oi = pool_usd / 2;
        let pnl_target = pool_usd / 100 * (20 + rng.below(60) as u128);
        let tokens = (oi + pnl_target) / prices.index_token_price.min.max(1);
        m.open_interest.0.long_amount = oi;
        m.open_interest_in_tokens.0.long_amount = tokens;
    }
    (m, prices)
}

fn pv(m: &VM, p: &Prices<u128>, kind: PnlFactorKind, maximize: bool) -> Option<i128> {
    m.pool_value(p, kind, maximize).ok()
}

fn rcode(e: &gmsol_model::Error) -> u32 {
    match e {
        gmsol_model::Error::InvalidPoolValue(_) => 12,
        gmsol_model::Error::Computation(s) if *s == gmsol_model::error::GLV_PRICING_MARKET_TOKEN_TO_GLV_VALUE_ERROR => 13,
        gmsol_model::Error::Computation(s) if *s == gmsol_model::error::GLV_PRICING_GLV_VALUE_TO_MARKET_TOKEN_ERROR => 15,
        _ => 99,
    }
}

fn gen_price(rng: &mut Rng) {
    let wp = rng.chance(1, 4);
    let (m, p) = mk_market(rng, wp, 60 * 10u128.pow(18), 30 * 10u128.pow(18));
    let maximize = rng.chance(1, 2);
    let balance: u128 = match rng.below(5) { 0 => 0, 1 => 1, 2 => m.total_supply, _ => rng.below(2_000_000_000) as u128 * 1000 };
    let Some(pvd) = pv(&m, &p, PnlFactorKind::MaxAfterDeposit, maximize) else { return gen_price(rng) };
    let r1 = get_glv_value_for_market(&p, &m, balance, maximize).map(|v| v.market_token_value_in_glv).map_err(|e| rcode(&e));
    let Some(pvw) = pv(&m, &p, PnlFactorKind::MaxAfterWithdrawal, maximize) else { return gen_price(rng) };
    let value: u128 = match rng.below(4) { 0 => 0, 1 => rng.uint(100), _ => 10u128.pow(20) * rng.below(1_000_000) as u128 };
    let r2 = get_market_token_amount_for_glv_value(&p, &m, value, maximize, DIVISOR).map_err(|e| rcode(&e));
    let f = |r: &std::result::Result<u128, u32>| match r { Ok(v) => format!("(Ok {v})"), Err(e) => format!("(Err {e})") };
    emit(if r1.is_ok() && r2.is_ok() { "price/ok" } else { "price/fail" },
        &format!("Price {} {} {balance} {} {} {value} {DIVISOR} {}", z(pvd), m.total_supply, f(&r1), z(pvw), f(&r2)));
}

fn gen_round_trip(rng: &mut Rng) {
    // pnl factors: usually deposit >= withdrawal (as deployed); sometimes the other way round with positions
    let inverted = rng.chance(1, 6);
    let (f_dep, f_wd) = if inverted { (30 * 10u128.pow(18), 70 * 10u128.pow(18)) } else { (60 * 10u128.pow(18), 30 * 10u128.pow(18) + rng.below(31) as u128 * 10u128.pow(18)) };
    let k = rng.range(1, 4) as usize;
    let mut ms: Vec<PM> = vec![];
    for id in 0..k {
        let wp = inverted || rng.chance(1, 5);
        let (mut m, p) = mk_market(rng, wp, f_dep, f_wd);
        if m.total_supply == 0 { m.total_supply = 1_000_000_000; }
        let balance = match rng.below(10) { 0 => 0, _ => 1_000 + rng.below(1_000_000_000) };
        ms.push(PM { id: id as u64, market: m, prices: p, balance });
    }
    let j = rng.below(k as u64) as usize;
    let amount: u64 = match rng.below(12) { 0 => 1, 1 => 1000, _ => 1_000_000 + rng.below(2_000_000_000) };
    let glv_supply: u64 = match rng.below(12) { 0 => 0, 1 => 1, _ => 1_000_000 + rng.below(10_000_000_000) };
    let max_amount: u64 = match rng.below(12) { 0 | 1 => ms[j].balance + amount, 2 => ms[j].balance + amount - 1, 3 => ms[j].balance + amount + rng.below(1000), _ => 0 };
    let max_value: u128 = match rng.below(5) { 0 => 10u128.pow(20) * (1 + rng.below(5_000) as u128), _ => 0 };
    if !run_round_trip(ms, j, amount, glv_supply, max_amount, max_value, inverted, None) { gen_round_trip(rng) }
}

/// Returns false when the scenario cannot be priced at all (caller draws another one).
#[allow(clippy::too_many_arguments)]
fn run_round_trip(ms: Vec<PM>, j: usize, amount: u64, glv_supply: u64, max_amount: u64, max_value: u128, inverted: bool, fixed_tag: Option<&str>) -> bool {
    // real GLV for the balance bookkeeping
    let mut glv: Box<Glv> = zeroed_box::<Glv>();
    let store = g9rt::key(10);
    let (glv_token, _) = Glv::find_glv_token_pda(&store, 3, &gmsol_store::ID);
    let mts: BTreeSet<Pubkey> = ms.iter().map(|m| market_token(m.id)).collect();
    hk::glv_unchecked_init(&mut glv, 250, 3, &store, &glv_token, &token(0), &token(1), &mts).unwrap();
    hk::glv_update_market_config(&mut glv, &market_token(ms[j].id), Some(max_amount), Some(max_value)).unwrap();
    for m in &ms { hk::glv_update_market_token_balance(&mut glv, &market_token(m.id), m.balance).unwrap(); }

    // measured pool values (REAL pool_value); skip the case when one of them cannot be computed
    let mut pms: Vec<String> = vec![];
    for m in &ms {
        let (Some(a), Some(bx)) = (pv(&m.market, &m.prices, PnlFactorKind::MaxAfterDeposit, false), pv(&m.market, &m.prices, PnlFactorKind::MaxAfterDeposit, true)) else { return false };
        pms.push(format!("mkPM {} {} {} {} {}", m.id, m.balance, m.market.total_supply, z(a), z(bx)));
    }
    let Some(pv_wd_max) = pv(&ms[j].market, &ms[j].prices, PnlFactorKind::MaxAfterWithdrawal, true) else { return false };
    // the deposit path validates max pnl for withdrawal first (perform_glv_deposit)
    if ms[j].market.validate_max_pnl(&ms[j].prices, PnlFactorKind::MaxAfterWithdrawal, PnlFactorKind::MaxAfterWithdrawal).is_err() {
        return false;
    }
    let glv_value = |ms: &Vec<PM>, glv: &Glv, maximize: bool| -> std::result::Result<u128, u32> {
        let mut v = 0u128;
        for m in ms.iter().rev() { let _ = m; }
        for m in ms {
            let bal = glv.market_config(&market_token(m.id)).unwrap().balance() as u128; // REAL stored balance
            let x = get_glv_value_for_market(&m.prices, &m.market, bal, maximize).map_err(|e| rcode(&e))?.market_token_value_in_glv; // REAL
            v = v.checked_add(x).ok_or(18u32)?;
        }
        Ok(v)
    };
    // ---- deposit (pricing part of perform_glv_deposit; market_token_amount != 0, no market deposit)
    let dep: std::result::Result<(u64, u64), u32> = (|| {
        let mj = &ms[j];
        let next = glv.market_config(&market_token(mj.id)).unwrap().balance().checked_add(amount).ok_or(16u32)?;
        let gv = glv_value(&ms, &glv, true)?;
        let received = get_glv_value_for_market(&mj.prices, &mj.market, amount as u128, false).map_err(|e| rcode(&e))?.market_token_value_in_glv;
        let maxv = get_glv_value_for_market(&mj.prices, &mj.market, amount as u128, true).map_err(|e| rcode(&e))?;
        hk::glv_validate_market_token_balance(&glv, &market_token(mj.id), next, &maxv.pool_value, &maxv.supply).map_err(|e| code(&e))?; // REAL
        let minted = usd_to_market_token_amount(received, gv, glv_supply as u128, DIVISOR).ok_or(14u32)?; // REAL
        let minted: u64 = minted.try_into().map_err(|_| 16u32)?;
        hk::glv_update_market_token_balance(&mut glv, &market_token(mj.id), next).map_err(|e| code(&e))?; // REAL
        Ok((minted, next))
    })();
    // ---- immediate withdrawal of exactly the minted amount
    let wd: Option<std::result::Result<u64, u32>> = match &dep {
        Ok((minted, _)) if *minted > 0 => Some((|| {
            let mj = &ms[j];
            let supply2 = glv_supply as u128 + *minted as u128;
            let gv = glv_value(&ms, &glv, false)?;
            let value = market_token_amount_to_usd(&(*minted as u128), &gv, &supply2).ok_or(13u32)?; // REAL
            let amt = get_market_token_amount_for_glv_value(&mj.prices, &mj.market, value, true, DIVISOR).map_err(|e| rcode(&e))?; // REAL
            let amt: u64 = amt.try_into().map_err(|_| 16u32)?;
            let bal = glv.market_config(&market_token(mj.id)).unwrap().balance();
            if bal < amt { return Err(17); }
            Ok(amt)
        })()),
        _ => None,
    };
    let ds = match &dep { Ok((g, n)) => format!("(Ok ({g}, {n}))"), Err(e) => format!("(Err {e})") };
    let ws = match &wd { Some(Ok(a)) => format!("(Some (Ok {a}))"), Some(Err(e)) => format!("(Some (Err {e}))"), None => "None".to_string() };
    let tag = match (&dep, &wd) {
        (Ok(_), Some(Ok(a))) if *a > amount => "round_trip/gain",
        (Ok(_), Some(Ok(_))) => if inverted { "round_trip/ok_inverted" } else { "round_trip/ok" },
        (Ok(_), _) => "round_trip/deposit_only",
        _ => "round_trip/rejected",
    };
    emit(fixed_tag.unwrap_or(tag), &format!("RoundTrip (mkC {} {max_amount} {max_value} {} false) [{}] {} {amount} {glv_supply} {} {DIVISOR} {ds} {ws}",
        ms[j].id, ms[j].balance, pms.join("; "), ms[j].id, z(pv_wd_max)));
    true
}

/// Fixed replay of the known finding (class 1): max_pnl_factor_for_deposit 30% < max_pnl_factor_for_withdrawal 70%,
/// one long-only market with 1,000,000 long tokens at 1.00, supply 1e15, long positions with pnl = 50% of the pool.
fn witness_round_trip() {
    let mut m = VM::default();
    m.config.max_pnl_factors.deposit = 30 * 10u128.pow(18);
    m.config.max_pnl_factors.withdrawal = 70 * 10u128.pow(18);
    let one = 10u128.pow(14); // unit price of a 6-decimals token at 1.00 usd
    let prices = Prices { index_token_price: Price { min: 2 * one, max: 2 * one }, long_token_price: Price { min: one, max: one }, short_token_price: Price { min: one, max: one } };
    m.primary.long_amount = 1_000_000_000_000; // 1,000,000.000000 tokens -> pool value 1e26
    m.total_supply = 1_000_000_000_000_000;
    let pool_usd = m.primary.long_amount * one;
    m.open_interest.0.long_amount = pool_usd / 2;
    m.open_interest_in_tokens.0.long_amount = (pool_usd / 2 + pool_usd / 2) / (2 * one); // pnl = 50% of the pool
    let ms = vec![PM { id: 0, market: m, prices, balance: 400_000_000_000 }];
    assert!(run_round_trip(ms, 0, 1_000_000_000, 5_000_000_000, 0, 0, true, Some("round_trip/witness")));
}

fn main() {
    let a = args();
    silence_panics();
    g9rt::install();
    g9rt::set_clock(10, 1_700_000_000);
    let mut rng = Rng::new(a.seed);
    witness_round_trip();
    for i in 0..a.n {
        match i % 8 {
            0 | 1 => gen_comp(&mut rng),
            2 => gen_limit(&mut rng),
            3 => gen_price(&mut rng),
            _ => gen_round_trip(&mut rng),
        }
    }
}
