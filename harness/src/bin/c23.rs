//! C23 driver: action lifecycle.
//!
//! Real code driven:
//!  * `gmsol_utils::action::ActionState::{completed,cancelled,is_*}`            (StTrans)
//!  * `ActionHeader::{action_state,completed,cancelled}` on raw header bytes     (HdrTrans)
//!  * `Close::preprocess` of the real `CloseDeposit` / `CloseGlvShift` account structs,
//!    built by hand from account infos, with a real `Store` role table           (Preproc)
//!  * `ActionExt::execution_lamports` + `PayExecutionFeeOperation::execute`      (PayFee)
//!  * lifecycle histories that compose the pieces above                          (Hist)
//!    — the escrow arithmetic and the soft/hard failure decision of the execute
//!    handlers are re-stated in this driver (see notes/C23.md).
use anchor_lang::prelude::*;
use anchor_lang::solana_program::program_pack::Pack;
use anchor_lang::Discriminator;
use anchor_spl::token::spl_token;
use gmsol_store::instructions::{CloseDeposit, CloseGlvShift};
use gmsol_store::states::common::action::{Action, ActionExt, ActionHeader, ActionState};
use gmsol_store::states::{Deposit, Glv, GlvShift, RoleKey, Store};
use gmsol_store::verif_hooks_g9 as hk;
use gmsol_store::CoreError;
use gmsol_verif_harness::g9rt::{self, Arena};
use gmsol_verif_harness::*;

fn code(e: &anchor_lang::error::Error) -> u32 {
    let c = g9rt::err_code(e);
    let m = |x: CoreError| -> u32 { x.into() };
    if c == m(CoreError::UnknownActionState) {
        1
    } else if c == m(CoreError::PreconditionsAreNotMet) {
        2
    } else if c == m(CoreError::PermissionDenied) || c == m(CoreError::NotFound) {
        3
    } else if c == m(CoreError::NotEnoughExecutionFee) {
        4
    } else {
        99
    }
}

fn rz<T: std::fmt::Display>(r: &std::result::Result<T, u32>) -> String {
    match r {
        Ok(v) => format!("(Ok {})", z(v)),
        Err(e) => format!("(Err {e})"),
    }
}

fn st_idx(s: ActionState) -> i64 {
    match s {
        ActionState::Pending => 0,
        ActionState::Completed => 1,
        ActionState::Cancelled => 2,
        _ => 9,
    }
}
fn st_of(i: u64) -> ActionState {
    match i {
        0 => ActionState::Pending,
        1 => ActionState::Completed,
        _ => ActionState::Cancelled,
    }
}

// ------------------------------------------------------------------ StTrans
fn gen_st_trans(rng: &mut Rng) {
    let s0 = rng.below(3);
    let mut s = st_of(s0);
    let n = rng.range(1, 8);
    let mut items = vec![];
    let mut any_ok = false;
    for _ in 0..n {
        let op = rng.below(6);
        let r: i64 = match op {
            0 => match s.completed() {
                Ok(x) => { s = x; any_ok = true; st_idx(x) }
                Err(_) => -1,
            },
            1 => match s.cancelled() {
                Ok(x) => { s = x; any_ok = true; st_idx(x) }
                Err(_) => -1,
            },
            2 => s.is_pending() as i64,
            3 => s.is_completed() as i64,
            4 => s.is_cancelled() as i64,
            _ => s.is_completed_or_cancelled() as i64,
        };
        items.push(format!("({op}, {})", z(r)));
    }
    emit(
        if any_ok { "st_trans/ok" } else { "st_trans/rejected" },
        &format!("StTrans {s0} [{}]", items.join("; ")),
    );
}

// ------------------------------------------------------------------ HdrTrans
fn header_with_state(b: u8) -> ActionHeader {
    let mut h = ActionHeader::default();
    bytemuck::bytes_of_mut(&mut h)[1] = b;
    h
}
fn header_state_byte(h: &ActionHeader) -> u8 {
    bytemuck::bytes_of(h)[1]
}

fn gen_hdr_trans(rng: &mut Rng) {
    let b0: u8 = match rng.below(6) {
        0 | 1 | 2 => 0,
        3 => rng.below(3) as u8,
        4 => 3 + rng.below(3) as u8,
        _ => rng.below(256) as u8,
    };
    let mut h = header_with_state(b0);
    let n = rng.range(1, 7);
    let mut items = vec![];
    for _ in 0..n {
        let op = rng.below(3);
        let r: std::result::Result<i64, u32> = match op {
            0 => hk::action_header_completed(&mut h).map(|_| header_state_byte(&h) as i64).map_err(|e| code(&e)),
            1 => hk::action_header_cancelled(&mut h).map(|_| header_state_byte(&h) as i64).map_err(|e| code(&e)),
            _ => h.action_state().map(st_idx).map_err(|e| code(&e)),
        };
        // the byte must never change on failure
        let after = header_state_byte(&h);
        items.push(format!("({op}, {}, {after})", rz(&r)));
    }
    emit(
        if b0 > 2 { "hdr_trans/junk" } else { "hdr_trans/valid" },
        &format!("HdrTrans {b0} [{}]", items.join("; ")),
    );
}

// ------------------------------------------------------------------ account construction
struct Refs {
    infos: Vec<Box<AccountInfo<'static>>>,
}
impl Refs {
    fn new() -> Self {
        Refs { infos: vec![] }
    }
    /// Store the info and hand out a reference with an erased lifetime; valid while `self` lives.
    fn r(&mut self, a: AccountInfo<'static>) -> &'static AccountInfo<'static> {
        self.infos.push(Box::new(a));
        let p: *const AccountInfo<'static> = &**self.infos.last().unwrap();
        unsafe { &*p }
    }
}

fn mint_data(decimals: u8) -> Vec<u8> {
    let m = spl_token::state::Mint {
        mint_authority: anchor_lang::solana_program::program_option::COption::None,
        supply: 0,
        decimals,
        is_initialized: true,
        freeze_authority: anchor_lang::solana_program::program_option::COption::None,
    };
    let mut d = vec![0u8; spl_token::state::Mint::LEN];
    m.pack_into_slice(&mut d);
    d
}
fn token_account_data(mint: Pubkey, owner: Pubkey, amount: u64) -> Vec<u8> {
    let a = spl_token::state::Account {
        mint,
        owner,
        amount,
        delegate: anchor_lang::solana_program::program_option::COption::None,
        state: spl_token::state::AccountState::Initialized,
        is_native: anchor_lang::solana_program::program_option::COption::None,
        delegated_amount: 0,
        close_authority: anchor_lang::solana_program::program_option::COption::None,
    };
    let mut d = vec![0u8; spl_token::state::Account::LEN];
    a.pack_into_slice(&mut d);
    d
}

/// Role situation of the caller in the store.
#[derive(Clone, Copy, PartialEq)]
enum RoleSit {
    Granted,
    NotMember,
    OtherRoleOnly,
    Revoked,
    RoleDisabled,
}
impl RoleSit {
    fn has_role(self) -> bool {
        self == RoleSit::Granted
    }
    fn pick(rng: &mut Rng, want: bool) -> RoleSit {
        if want {
            RoleSit::Granted
        } else {
            *rng.pick(&[RoleSit::NotMember, RoleSit::OtherRoleOnly, RoleSit::Revoked, RoleSit::RoleDisabled])
        }
    }
}

fn store_data(caller: &Pubkey, sit: RoleSit) -> Vec<u8> {
    let mut s: Store = bytemuck::Zeroable::zeroed();
    s.init(g9rt::key(1), "", 255, g9rt::key(2), g9rt::key(3)).unwrap();
    s.enable_role(RoleKey::ORDER_KEEPER).unwrap();
    s.enable_role(RoleKey::MARKET_KEEPER).unwrap();
    // some unrelated member so the table is not empty
    s.grant(&g9rt::key(77), RoleKey::ORDER_KEEPER).unwrap();
    match sit {
        RoleSit::Granted => s.grant(caller, RoleKey::ORDER_KEEPER).unwrap(),
        RoleSit::NotMember => {}
        RoleSit::OtherRoleOnly => s.grant(caller, RoleKey::MARKET_KEEPER).unwrap(),
        RoleSit::Revoked => {
            s.grant(caller, RoleKey::ORDER_KEEPER).unwrap();
            s.grant(caller, RoleKey::MARKET_KEEPER).unwrap();
            s.revoke(caller, RoleKey::ORDER_KEEPER).unwrap();
        }
        RoleSit::RoleDisabled => {
            s.grant(caller, RoleKey::ORDER_KEEPER).unwrap();
            s.disable_role(RoleKey::ORDER_KEEPER).unwrap();
        }
    }
    g9rt::zero_copy_data(&s)
}

fn make_header(owner: Pubkey, receiver: Pubkey, rent_receiver: Pubkey, store: Pubkey, state: u8, max_exec: u64) -> ActionHeader {
    let mut h = ActionHeader::default();
    // `receiver` (who gets the output tokens) is a header field of its own; it gives no right to close
    hk::action_header_init(&mut h, 7, store, g9rt::key(50), owner, receiver, [9u8; 32], 254, max_exec, false).unwrap();
    hk::action_header_set_rent_receiver(&mut h, rent_receiver);
    bytemuck::bytes_of_mut(&mut h)[1] = state;
    h
}

/// Account data of a zero-copy action whose first field is the header.
fn action_data<T: bytemuck::Pod + Discriminator>(h: &ActionHeader) -> Vec<u8> {
    let mut d = vec![0u8; 8 + std::mem::size_of::<T>()];
    d[..8].copy_from_slice(T::DISCRIMINATOR);
    let hb = bytemuck::bytes_of(h);
    d[8..8 + hb.len()].copy_from_slice(hb);
    d
}

/// Real `Close::preprocess` on a hand-built `CloseDeposit`.
fn real_preprocess_deposit(caller: Pubkey, owner: Pubkey, receiver: Pubkey, sit: RoleSit, state: u8) -> std::result::Result<bool, u32> {
    let sid = gmsol_store::ID;
    let sys = anchor_lang::system_program::ID;
    let tok = spl_token::ID;
    let mut ar = Arena::new();
    let mut rf = Refs::new();
    let store_key = g9rt::key(10);
    let deposit_key = g9rt::key(11);
    let mt_key = g9rt::key(12);
    let h = make_header(owner, receiver, owner, store_key, state, 1000);
    let i_exec = ar.add(caller, sys, 1_000_000, &[], true, false, false);
    let i_store = ar.add(store_key, sid, 1_000_000, &store_data(&caller, sit), false, false, false);
    let i_wallet = ar.add(g9rt::key(13), sys, 0, &[], false, true, false);
    let i_owner = ar.add(owner, sys, 0, &[], false, true, false);
    let i_recv = if receiver == owner { i_owner } else { ar.add(receiver, sys, 0, &[], false, true, false) };
    let i_mt = ar.add(mt_key, tok, 1_000_000, &mint_data(9), false, false, false);
    let i_dep = ar.add(deposit_key, sid, 5_000_000, &action_data::<Deposit>(&h), false, true, false);
    let i_esc = ar.add(g9rt::key(15), tok, 2_000_000, &token_account_data(mt_key, deposit_key, 0), false, true, false);
    let i_ata = ar.add(g9rt::key(16), sys, 0, &[], false, true, false);
    let i_sysp = ar.add(sys, g9rt::key(999), 1, &[], false, false, true);
    let i_tokp = ar.add(tok, anchor_lang::solana_program::bpf_loader::ID, 1, &[], false, false, true);
    let i_atap = ar.add(anchor_spl::associated_token::ID, anchor_lang::solana_program::bpf_loader::ID, 1, &[], false, false, true);
    let i_ev = ar.add(g9rt::key(17), sys, 0, &[], false, false, false);
    let i_prog = ar.add(sid, anchor_lang::solana_program::bpf_loader_upgradeable::ID, 1, &[], false, false, true);

    let accounts = CloseDeposit {
        executor: Signer::try_from(rf.r(ar.info(i_exec))).unwrap(),
        store: AccountLoader::try_from(rf.r(ar.info(i_store))).unwrap(),
        store_wallet: SystemAccount::try_from(rf.r(ar.info(i_wallet))).unwrap(),
        owner: UncheckedAccount::try_from(rf.r(ar.info(i_owner))),
        receiver: UncheckedAccount::try_from(rf.r(ar.info(i_recv))),
        market_token: Box::new(Account::try_from(rf.r(ar.info(i_mt))).unwrap()),
        initial_long_token: None,
        initial_short_token: None,
        deposit: AccountLoader::try_from(rf.r(ar.info(i_dep))).unwrap(),
        market_token_escrow: Box::new(Account::try_from(rf.r(ar.info(i_esc))).unwrap()),
        initial_long_token_escrow: None,
        initial_short_token_escrow: None,
        market_token_ata: UncheckedAccount::try_from(rf.r(ar.info(i_ata))),
        initial_long_token_ata: None,
        initial_short_token_ata: None,
        system_program: Program::try_from(rf.r(ar.info(i_sysp))).unwrap(),
        token_program: Program::try_from(rf.r(ar.info(i_tokp))).unwrap(),
        associated_token_program: Program::try_from(rf.r(ar.info(i_atap))).unwrap(),
        event_authority: ar.info(i_ev),
        program: ar.info(i_prog),
    };
    let r = hk::close_deposit_preprocess(&accounts).map_err(|e| code(&e));
    drop(accounts);
    drop(rf);
    r
}

/// Real `Close::preprocess` on a hand-built `CloseGlvShift` (owner = the GLV, funder = rent receiver).
fn real_preprocess_glv_shift(caller: Pubkey, glv: Pubkey, receiver: Pubkey, funder: Pubkey, sit: RoleSit, state: u8) -> std::result::Result<bool, u32> {
    let sid = gmsol_store::ID;
    let sys = anchor_lang::system_program::ID;
    let tok = spl_token::ID;
    let mut ar = Arena::new();
    let mut rf = Refs::new();
    let store_key = g9rt::key(10);
    let h = make_header(glv, receiver, funder, store_key, state, 0);
    let glv_state: Glv = bytemuck::Zeroable::zeroed();
    let i_auth = ar.add(caller, sys, 1_000_000, &[], true, true, false);
    let i_funder = ar.add(funder, sys, 0, &[], false, true, false);
    let i_store = ar.add(store_key, sid, 1_000_000, &store_data(&caller, sit), false, false, false);
    let i_wallet = ar.add(g9rt::key(13), sys, 0, &[], false, true, false);
    let i_glv = ar.add(glv, sid, 1_000_000, &g9rt::zero_copy_data(&glv_state), false, false, false);
    let i_shift = ar.add(g9rt::key(21), sid, 5_000_000, &action_data::<GlvShift>(&h), false, true, false);
    let i_m1 = ar.add(g9rt::key(22), tok, 1_000_000, &mint_data(9), false, false, false);
    let i_m2 = ar.add(g9rt::key(23), tok, 1_000_000, &mint_data(9), false, false, false);
    let i_sysp = ar.add(sys, g9rt::key(999), 1, &[], false, false, true);
    let i_tokp = ar.add(tok, anchor_lang::solana_program::bpf_loader::ID, 1, &[], false, false, true);
    let i_atap = ar.add(anchor_spl::associated_token::ID, anchor_lang::solana_program::bpf_loader::ID, 1, &[], false, false, true);
    let i_ev = ar.add(g9rt::key(17), sys, 0, &[], false, false, false);
    let i_prog = ar.add(sid, anchor_lang::solana_program::bpf_loader_upgradeable::ID, 1, &[], false, false, true);
    let accounts = CloseGlvShift {
        authority: Signer::try_from(rf.r(ar.info(i_auth))).unwrap(),
        funder: UncheckedAccount::try_from(rf.r(ar.info(i_funder))),
        store: AccountLoader::try_from(rf.r(ar.info(i_store))).unwrap(),
        store_wallet: SystemAccount::try_from(rf.r(ar.info(i_wallet))).unwrap(),
        glv: AccountLoader::try_from(rf.r(ar.info(i_glv))).unwrap(),
        glv_shift: AccountLoader::try_from(rf.r(ar.info(i_shift))).unwrap(),
        from_market_token: Box::new(Account::try_from(rf.r(ar.info(i_m1))).unwrap()),
        to_market_token: Box::new(Account::try_from(rf.r(ar.info(i_m2))).unwrap()),
        system_program: Program::try_from(rf.r(ar.info(i_sysp))).unwrap(),
        token_program: Program::try_from(rf.r(ar.info(i_tokp))).unwrap(),
        associated_token_program: Program::try_from(rf.r(ar.info(i_atap))).unwrap(),
        event_authority: ar.info(i_ev),
        program: ar.info(i_prog),
    };
    let r = hk::close_glv_shift_preprocess(&accounts).map_err(|e| code(&e));
    drop(accounts);
    drop(rf);
    r
}

/// The receiver recorded in the header of an action of `owner`: a different address (owner + 50) for two owners out
/// of three, the owner itself otherwise (the default of the create instructions).
fn receiver_of(owner: u64) -> u64 {
    if owner % 3 == 2 { owner } else { owner + 50 }
}

fn real_preprocess(kind: u64, caller: u64, owner: u64, funder: u64, sit: RoleSit, state: u8) -> std::result::Result<bool, u32> {
    let receiver = g9rt::key(receiver_of(owner));
    let r = if kind == 6 {
        real_preprocess_glv_shift(g9rt::key(caller), g9rt::key(owner), receiver, g9rt::key(funder), sit, state)
    } else {
        real_preprocess_deposit(g9rt::key(caller), g9rt::key(owner), receiver, sit, state)
    };
    // canonicalisation: inside preprocess, PreconditionsAreNotMet can only come from the role table
    // (`enabled_role_index` of a disabled role); it is reported as "denied" like PermissionDenied / NotFound
    r.map_err(|e| if e == 2 { 3 } else { e })
}

fn rb(r: &std::result::Result<bool, u32>) -> String {
    match r {
        Ok(v) => format!("(Ok {})", b(*v)),
        Err(e) => format!("(Err {e})"),
    }
}

fn gen_preproc(rng: &mut Rng) {
    let kind = if rng.chance(1, 2) { 6 } else { rng.below(6) };
    let owner = 100 + rng.below(3);
    let funder = if kind == 6 { 200 + rng.below(2) } else { owner };
    // signers: the owner, the header's receiver (no close right of its own), the funder, keepers, strangers
    let caller = match rng.below(7) {
        0 | 1 => owner,
        2 | 3 => receiver_of(owner),
        4 => funder,
        5 => 200 + rng.below(2),
        _ => 300 + rng.below(3),
    };
    let want_role = rng.chance(3, 5);
    let sit = RoleSit::pick(rng, want_role);
    let state: u8 = match rng.below(8) {
        0..=2 => 0,
        3 | 4 => 1,
        5 | 6 => 2,
        _ => 3 + rng.below(250) as u8,
    };
    let r = real_preprocess(kind, caller, owner, funder, sit, state);
    let tag = match &r {
        Ok(true) => "preproc/owner",
        Ok(false) => "preproc/keeper",
        Err(_) => "preproc/denied",
    };
    emit(tag, &format!("Preproc {kind} {caller} {owner} {funder} {} {state} {}", b(sit.has_role()), rb(&r)));
}

// ------------------------------------------------------------------ PayFee
struct Hdr(ActionHeader);
impl Action for Hdr {
    const MIN_EXECUTION_LAMPORTS: u64 = 0;
    fn header(&self) -> &ActionHeader {
        &self.0
    }
}

/// real execution_lamports + PayExecutionFeeOperation; returns (payer_after, receiver_gain)
fn real_pay_fee(lamports: u64, data_len: usize, max_exec: u64, fee: u64) -> (u64, std::result::Result<(u64, u64), u32>) {
    let h = Hdr(make_header(g9rt::key(100), g9rt::key(150), g9rt::key(100), g9rt::key(10), 0, max_exec));
    let x = h.execution_lamports(fee);
    let mut ar = Arena::new();
    let i_p = ar.add(g9rt::key(30), gmsol_store::ID, lamports, &vec![0u8; data_len], false, true, false);
    let i_r = ar.add(g9rt::key(31), anchor_lang::system_program::ID, 5, &[], false, true, false);
    let r = hk::pay_execution_fee(ar.info(i_p), ar.info(i_r), x).map_err(|e| code(&e));
    let after = ar.mems[i_p].lamports();
    let gain = ar.mems[i_r].lamports() - 5;
    (x, r.map(|_| (after, gain)))
}

fn gen_pay_fee(rng: &mut Rng) {
    let data_len = *rng.pick(&[0usize, 8, 165, 800, 1200]);
    let minb = (128 + data_len as u64) * 6960;
    let max_exec = match rng.below(4) { 0 => 0, 1 => 200_000, 2 => rng.below(1_000_000), _ => rng.uint(40) as u64 };
    let lamports = match rng.below(5) {
        0 => minb + max_exec,
        1 => minb + max_exec - rng.below(3).min(minb + max_exec),
        2 => minb + rng.below(2_000_000),
        3 => rng.below(minb + 1),
        _ => minb + max_exec + rng.below(1000),
    };
    let fee = match rng.below(5) { 0 => 0, 1 => max_exec, 2 => max_exec + 1 + rng.below(1000), 3 => rng.below(max_exec + 1), _ => rng.uint(64) as u64 };
    let (x, r) = real_pay_fee(lamports, data_len, max_exec, fee);
    let rs = match &r { Ok((a, g)) => format!("(Ok ({a}, {g}))"), Err(e) => format!("(Err {e})") };
    emit(if r.is_ok() { "pay_fee/ok" } else { "pay_fee/fail" }, &format!("PayFee {lamports} {data_len} {max_exec} {fee} {x} {rs}"));
}

// ------------------------------------------------------------------ Hist
#[derive(Clone)]
struct Act {
    open: bool,
    kind: u64,
    hdr: ActionHeader, // real header: state byte driven by the real transitions
    owner: u64,
    funder: u64,
    in1: u64, in2: u64,
    esc1: u64, esc2: u64, esc_out: u64,
    lamports: u64, min_balance: u64, max_exec: u64, data_len: usize,
    done: u64, cancel: u64,
    paid1: u64, paid2: u64, paid_out: u64, paid_lamports: u64, fee_paid: u64,
    funded1: u64, funded2: u64, lamports_in: u64,
}
impl Act {
    fn state(&self) -> u8 { header_state_byte(&self.hdr) }
    fn term(&self) -> String {
        format!(
            "(mkAction {} {} {} {} {} {} {} {} {} {} {} {} {} {} {} {} {} {} {} {} {} {} {})",
            b(self.open), self.kind, self.state(), self.owner, self.funder, self.in1, self.in2,
            self.esc1, self.esc2, self.esc_out, self.lamports, self.min_balance, self.max_exec,
            self.done, self.cancel, self.paid1, self.paid2, self.paid_out, self.paid_lamports, self.fee_paid,
            self.funded1, self.funded2, self.lamports_in
        )
    }
}
struct World { acts: Vec<Act>, bal1: u64, bal2: u64, rev: u64 }

const OUTCOMES: [&str; 4] = ["ExOk", "ExOracleExpired", "ExOracleErr", "ExFail"];

fn gen_hist(rng: &mut Rng) {
    let mut w = World { acts: vec![], bal1: 0, bal2: 0, rev: 0 };
    let n = rng.range(4, 14);
    let mut items: Vec<String> = vec![];
    let mut tags = (0u32, 0u32, 0u32); // completed, cancelled, closed
    for _ in 0..n {
        let live: Vec<usize> = (0..w.acts.len()).filter(|i| w.acts[*i].open).collect();
        let choice = if w.acts.is_empty() { 0 } else { rng.below(10) };
        let pick_id = |rng: &mut Rng, w: &World| -> u64 {
            if !live.is_empty() && rng.chance(9, 10) { live[rng.below(live.len() as u64) as usize] as u64 }
            else { rng.below(w.acts.len() as u64 + 1) }
        };
        match choice {
            0 | 1 => {
                // Create
                let kind = if rng.chance(1, 4) { 6 } else if rng.chance(1, 3) { 3 } else { rng.below(6) };
                let owner = 100 + rng.below(3);
                let funder = 200 + rng.below(2);
                let in1 = if rng.chance(1, 5) { 0 } else { rng.below(1_000_000) };
                let in2 = if rng.chance(1, 3) { 0 } else { rng.below(1_000_000) };
                let exec = *rng.pick(&[0u64, 200_000, 300_000, 1_000_000]);
                let data_len = *rng.pick(&[800usize, 1200]);
                let mb = (128 + data_len as u64) * 6960;
                let eff_funder = if kind == 6 { funder } else { owner };
                let hdr = make_header(g9rt::key(owner), g9rt::key(receiver_of(owner)), g9rt::key(eff_funder), g9rt::key(10), 0, exec);
                // the real header must start Pending
                assert!(hdr.action_state().unwrap().is_pending());
                let a = Act { open: true, kind, hdr, owner, funder: eff_funder, in1, in2, esc1: in1, esc2: in2, esc_out: 0,
                    lamports: mb + exec, min_balance: mb, max_exec: exec, data_len, done: 0, cancel: 0,
                    paid1: 0, paid2: 0, paid_out: 0, paid_lamports: 0, fee_paid: 0, funded1: in1, funded2: in2, lamports_in: mb + exec };
                w.acts.push(a);
                items.push(format!("(Create {owner} {funder} {kind} {in1} {in2} {exec} {data_len}, Ok ({}, {}, {}, {}))",
                    w.acts.last().unwrap().term(), w.bal1, w.bal2, w.rev));
            }
            2..=5 => {
                // Execute
                let id = pick_id(rng, &w);
                let is_keeper = rng.chance(9, 10);
                let keeper = 200 + rng.below(2);
                let oc = match rng.below(8) { 0..=3 => 0, 4 => 1, 5 => 2, _ => 3 } as usize;
                let throw = rng.chance(1, 4);
                let fee = match rng.below(4) { 0 => 0, 1 => 5_000, 2 => 250_000, _ => rng.below(2_000_000) };
                let out = rng.below(1_000_000);
                let r: std::result::Result<(), u32> = (|| {
                    if !is_keeper { return Err(3); }
                    let a = w.acts.get(id as usize).filter(|a| a.open).ok_or(5u32)?;
                    if a.esc1 < a.in1 || a.esc2 < a.in2 { return Err(6); }
                    // soft / hard failure decision of Execute*Operation::execute (re-stated here)
                    let d = match (oc, throw) {
                        (0, _) => true,
                        (1, false) => false,
                        (1, true) => return Err(10),
                        (2, _) => return Err(11),
                        (_, false) => false,
                        (_, true) => return Err(12),
                    };
                    let mut a2 = a.clone();
                    // REAL header transition
                    if d { hk::action_header_completed(&mut a2.hdr).map_err(|e| code(&e))?; }
                    else { hk::action_header_cancelled(&mut a2.hdr).map_err(|e| code(&e))?; }
                    // REAL execution_lamports + PayExecutionFeeOperation
                    let (x, pr) = real_pay_fee(a2.lamports, a2.data_len, a2.max_exec, fee);
                    let (after, gain) = pr?;
                    assert_eq!(gain, x);
                    a2.lamports = after;
                    a2.fee_paid += gain;
                    if d {
                        a2.esc1 -= a2.in1; a2.esc2 -= a2.in2; a2.esc_out += out; a2.done += 1;
                        w.bal1 += a2.in1; w.bal2 += a2.in2; w.rev += 1;
                    } else {
                        a2.cancel += 1;
                    }
                    w.acts[id as usize] = a2;
                    Ok(())
                })();
                match &r {
                    Ok(()) => { if w.acts[id as usize].state() == 1 { tags.0 += 1 } else { tags.1 += 1 } }
                    Err(_) => {}
                }
                let rs = match r { Ok(()) => format!("Ok ({}, {}, {}, {})", w.acts[id as usize].term(), w.bal1, w.bal2, w.rev), Err(e) => format!("Err {e}") };
                items.push(format!("(Execute {} {keeper} {id} {} {} {fee} {out}, {rs})", b(is_keeper), OUTCOMES[oc], b(throw)));
            }
            6..=8 => {
                // Close
                let id = pick_id(rng, &w);
                let (owner, funder, kind) = w.acts.get(id as usize).map(|a| (a.owner, a.funder, a.kind)).unwrap_or((100, 200, 0));
                let caller = match rng.below(8) { 0 | 1 => owner, 2 | 3 => receiver_of(owner), 4 => funder, 5 => 200 + rng.below(2), _ => 300 + rng.below(2) };
                let want_role = if caller >= 300 { rng.chance(1, 6) } else if caller >= 200 { rng.chance(5, 6) } else { rng.chance(1, 4) };
                let sit = RoleSit::pick(rng, want_role);
                let ce = rng.chance(9, 10);
                let (ao, a1, a2f) = (rng.chance(3, 4), rng.chance(3, 4), rng.chance(3, 4));
                let r: std::result::Result<(), u32> = (|| {
                    let a = w.acts.get(id as usize).filter(|a| a.open).ok_or(5u32)?.clone();
                    if kind == 6 && !sit.has_role() { return Err(3); }
                    let st = a.hdr.action_state().map_err(|e| code(&e))?; // REAL
                    if st.is_pending() && !ce { return Err(7); }
                    // REAL preprocess on the real accounts struct
                    let is_owner = real_preprocess(kind, caller, owner, funder, sit, a.state())?;
                    let ok = |amount: u64, ata: bool| amount == 0 || is_owner || ata;
                    let mut x = a;
                    if !ok(x.esc_out, ao) { return Ok(()); }
                    x.paid_out += x.esc_out; x.esc_out = 0;
                    if !ok(x.esc1, a1) { w.acts[id as usize] = x; return Ok(()); }
                    x.paid1 += x.esc1; x.esc1 = 0;
                    if !ok(x.esc2, a2f) { w.acts[id as usize] = x; return Ok(()); }
                    x.paid2 += x.esc2; x.esc2 = 0;
                    x.paid_lamports += x.lamports; x.lamports = 0; x.open = false;
                    w.acts[id as usize] = x;
                    Ok(())
                })();
                if r.is_ok() && !w.acts[id as usize].open { tags.2 += 1; }
                let rs = match r { Ok(()) => format!("Ok ({}, {}, {}, {})", w.acts[id as usize].term(), w.bal1, w.bal2, w.rev), Err(e) => format!("Err {e}") };
                items.push(format!("(Close {caller} {} {id} {} {} {} {}, {rs})", b(sit.has_role()), b(ce), b(ao), b(a1), b(a2f)));
            }
            _ => {
                let id = pick_id(rng, &w);
                let is_keeper = rng.chance(4, 5);
                let r: std::result::Result<(), u32> = (|| {
                    if !is_keeper { return Err(3); }
                    let a = w.acts.get(id as usize).filter(|a| a.open).ok_or(5u32)?;
                    if a.kind != 3 { return Err(8); }
                    let mut a2 = a.clone();
                    hk::action_header_cancelled(&mut a2.hdr).map_err(|e| code(&e))?; // REAL
                    a2.cancel += 1;
                    w.acts[id as usize] = a2;
                    Ok(())
                })();
                if r.is_ok() { tags.1 += 1; }
                let rs = match r { Ok(()) => format!("Ok ({}, {}, {}, {})", w.acts[id as usize].term(), w.bal1, w.bal2, w.rev), Err(e) => format!("Err {e}") };
                items.push(format!("(CancelIfNoPosition {} {id}, {rs})", b(is_keeper)));
            }
        }
    }
    let tag = format!("hist/{}", if tags.2 > 0 { "closed" } else if tags.0 + tags.1 > 0 { "executed" } else { "pending_only" });
    emit(&tag, &format!("Hist [{}]", items.join("; ")));
}

fn main() {
    let a = args();
    silence_panics();
    g9rt::install();
    // layout facts the byte-level construction relies on
    {
        let d: Deposit = bytemuck::Zeroable::zeroed();
        assert_eq!(d.header() as *const _ as usize, &d as *const _ as usize);
        let s: GlvShift = bytemuck::Zeroable::zeroed();
        assert_eq!(s.header() as *const _ as usize, &s as *const _ as usize);
    }
    let mut rng = Rng::new(a.seed);
    for i in 0..a.n {
        g9rt::set_clock(100 + i as u64, 1_700_000_000 + i as i64);
        match i % 10 {
            0 => gen_st_trans(&mut rng),
            1 => gen_hdr_trans(&mut rng),
            2 | 3 => gen_preproc(&mut rng),
            4 => gen_pay_fee(&mut rng),
            _ => gen_hist(&mut rng),
        }
    }
}
