//! C20 driver: the three market-config update instructions of the store program, run through the REAL entrypoint
//! (`gmsol_store::entry`) on hand-built ledgers: role table states (MARKET_KEEPER / MARKET_CONFIG_KEEPER enabled,
//! disabled or never created), caller membership and role bits, random updatable sets (set through the real
//! `set_market_config_updatable` instruction), valid / invalid keys, buffers mixing updatable, non-updatable and
//! undecodable entries, expiry around the clock, foreign buffers and foreign markets, unsigned callers.
use anchor_lang::prelude::Pubkey;
use anchor_lang::solana_program::instruction::AccountMeta;
use anchor_lang::solana_program::program_error::ProgramError;
use anchor_lang::{Discriminator, InstructionData, ToAccountMetas};
use gmsol_store::states::market::config::{MarketConfigBuffer, MarketConfigFlag, MarketConfigKey};
use gmsol_store::states::{Market, RoleKey, Store};
use gmsol_store::{accounts as acc, instruction as ix, CoreError};
use gmsol_verif_harness::g7rt::{self, Acct, Outcome};
use gmsol_verif_harness::*;

fn qs(x: &str) -> String {
    format!("\"{x}\"%string")
}
fn key(tag: u8, n: u8) -> Pubkey {
    let mut a = [0u8; 32];
    a[0] = tag;
    a[1] = n;
    a[31] = 0x20;
    Pubkey::new_from_array(a)
}
fn keys() -> Vec<MarketConfigKey> {
    (0..=u16::MAX).filter_map(|d| MarketConfigKey::try_from(d).ok()).collect()
}
fn flags() -> Vec<MarketConfigFlag> {
    (0..=u8::MAX).filter_map(|d| MarketConfigFlag::try_from(d).ok()).collect()
}

fn zc<T: bytemuck::Pod + Discriminator>(v: &T) -> Vec<u8> {
    let mut d = T::DISCRIMINATOR.to_vec();
    d.extend_from_slice(bytemuck::bytes_of(v));
    d
}
fn load<T: bytemuck::Pod>(data: &[u8]) -> Box<T> {
    Box::new(bytemuck::pod_read_unaligned(&data[8..8 + std::mem::size_of::<T>()]))
}

fn call(ledger: &mut Vec<Acct>, mut metas: Vec<AccountMeta>, data: Vec<u8>, unsign: Option<Pubkey>) -> Outcome {
    if let Some(k) = unsign {
        for m in metas.iter_mut() {
            if m.pubkey == k {
                m.is_signer = false;
            }
        }
    }
    g7rt::process(ledger, gmsol_store::entry, &gmsol_store::ID, &metas, &data)
}
fn code(o: &Outcome) -> i64 {
    match &o.result {
        Ok(()) => 0,
        Err(ProgramError::Custom(c)) => *c as i64,
        Err(_) => -1,
    }
}

#[derive(Clone, Copy, PartialEq)]
enum St { Enabled, Disabled, Absent }
impl St {
    fn z(self) -> u8 { match self { St::Enabled => 0, St::Disabled => 1, St::Absent => 2 } }
    fn pick(rng: &mut Rng) -> St { match rng.below(10) { 0 => St::Disabled, 1 => St::Absent, _ => St::Enabled } }
}

struct World {
    ledger: Vec<Acct>,
    store: Pubkey,
    market: Pubkey,
    caller: Pubkey,
    mk: St,
    mck: St,
    member: bool,
    bit_mk: bool,
    bit_mck: bool,
    store_ok: bool,
    upd_keys: Vec<String>,
    upd_flags: Vec<String>,
    /// keys / flags whose permission was granted and later revoked
    revoked: Vec<(bool, String)>,
}

fn world(rng: &mut Rng) -> World {
    let pid = gmsol_store::ID;
    let (store_key, other_store, market_key, admin, caller, setup) = (key(1, 0), key(1, 1), key(2, 0), key(3, 0), key(4, 0), key(5, 0));
    let (mk, mck) = (St::pick(rng), St::pick(rng));
    let mut store: Box<Store> = Box::new(bytemuck::Zeroable::zeroed());
    store.init(admin, "", 255, key(6, 0), key(6, 1)).expect("store init");
    store.enable_role(RoleKey::ORDER_KEEPER).unwrap();
    if mk != St::Absent { store.enable_role(RoleKey::MARKET_KEEPER).unwrap(); }
    if mck != St::Absent { store.enable_role(RoleKey::MARKET_CONFIG_KEEPER).unwrap(); }
    // caller: what kind of principal
    let kind = rng.below(8);
    let want_mk = matches!(kind, 0 | 1 | 2) && mk != St::Absent;
    let want_mck = matches!(kind, 2 | 3 | 4 | 5) && mck != St::Absent;
    let member = want_mk || want_mck || kind == 6; // 6: member with an unrelated role; 7: not a member
    if kind == 6 || (member && rng.chance(1, 3)) { store.grant(&caller, RoleKey::ORDER_KEEPER).unwrap(); }
    if want_mk { store.grant(&caller, RoleKey::MARKET_KEEPER).unwrap(); }
    if want_mck { store.grant(&caller, RoleKey::MARKET_CONFIG_KEEPER).unwrap(); }
    let member = store.role().has_role(&caller, RoleKey::ORDER_KEEPER).is_ok();
    if mk != St::Absent { store.grant(&setup, RoleKey::MARKET_KEEPER).unwrap(); }
    let store_ok = !rng.chance(1, 25);
    let mut market: Box<Market> = Box::new(bytemuck::Zeroable::zeroed());
    market.init(254, if store_ok { store_key } else { other_store }, "M", key(7, 1), key(7, 2), key(7, 3), key(7, 4), true).expect("market init");
    // random current values
    for k in keys() {
        *market.get_config_mut(&k.to_string()).unwrap() = rng.uint(100) + 1;
    }
    let mut ledger = vec![
        Acct::new(store_key, pid, zc(&*store)),
        Acct::new(market_key, pid, zc(&*market)),
        Acct::wallet(caller),
        Acct::wallet(setup),
        Acct::wallet(admin),
    ];
    // updatable sets through the real instruction (needs a MARKET_KEEPER, so impossible while the role never existed):
    // a history of grants AND revocations per key / flag; `upd_*` is the set the policy says is updatable afterwards
    let (mut upd_keys, mut upd_flags) = (vec![], vec![]);
    let mut revoked: Vec<(bool, String)> = vec![];
    if mk != St::Absent {
        let set_upd = |ledger: &mut Vec<Acct>, is_flag: bool, k: &str, updatable: bool| -> Outcome {
            call(ledger, acc::SetMarketConfigUpdatable { authority: setup, store: store_key }.to_account_metas(None),
                ix::SetMarketConfigUpdatable { is_flag, key: k.to_string(), updatable }.data(), None)
        };
        let dens = rng.below(4); // 0: none, 1: sparse, 2: half, 3: all
        let mut names: Vec<(bool, String)> = keys().iter().map(|k| (false, k.to_string())).collect();
        names.extend(flags().iter().map(|f| (true, f.to_string())));
        for (is_flag, name) in names {
            let on = if is_flag { rng.chance(2, 3) } else { match dens { 0 => false, 1 => rng.chance(1, 8), 2 => rng.chance(1, 2), _ => true } };
            let mut cur = false;
            // one observed step of the permission history: (current state by the policy, requested state) -> outcome
            let mut step = |ledger: &mut Vec<Acct>, cur: &mut bool, arg: bool, report: bool| {
                let o = set_upd(ledger, is_flag, &name, arg);
                if report {
                    emit(&format!("setupd/{}/{}", if is_flag { "flag" } else { "key" }, if o.result.is_ok() { "ok" } else { "rejected" }),
                        &format!("SetUpd {} {} {} {} {} {}", b(is_flag), qs(&name), b(*cur), b(arg), b(o.result.is_ok()), z(code(&o))));
                }
                if o.result.is_ok() {
                    *cur = arg;
                }
            };
            let report = if is_flag { rng.chance(1, 3) } else { rng.chance(1, 40) };
            if on {
                step(&mut ledger, &mut cur, true, report);
                match rng.below(6) {
                    0 => step(&mut ledger, &mut cur, true, report),                       // grant twice: PreconditionsAreNotMet
                    1 | 2 => step(&mut ledger, &mut cur, false, report),                  // revoke
                    3 => { step(&mut ledger, &mut cur, false, report); step(&mut ledger, &mut cur, false, report); } // revoke twice
                    4 => { step(&mut ledger, &mut cur, false, report); step(&mut ledger, &mut cur, true, report); }  // revoke, grant again
                    _ => {}
                }
            } else if rng.chance(1, 10) {
                step(&mut ledger, &mut cur, false, report);                               // revoke what was never granted
            }
            // `cur` follows the POLICY (a successful call sets the state to its argument)
            if cur {
                if is_flag { upd_flags.push(name.clone()) } else { upd_keys.push(name.clone()) }
            } else if on {
                revoked.push((is_flag, name.clone()));
            }
        }
    }
    // finally disable the roles that should be disabled (direct state edit through the public Store API)
    {
        let mut s: Box<Store> = load(&ledger[0].data);
        if mk == St::Disabled { s.disable_role(RoleKey::MARKET_KEEPER).unwrap(); }
        if mck == St::Disabled { s.disable_role(RoleKey::MARKET_CONFIG_KEEPER).unwrap(); }
        ledger[0].data = zc(&*s);
    }
    World { ledger, store: store_key, market: market_key, caller, mk, mck, member, bit_mk: want_mk, bit_mck: want_mck, store_ok, upd_keys, upd_flags, revoked }
}

fn config_of(ledger: &[Acct]) -> (Vec<(String, u128)>, Vec<(String, bool)>) {
    let m: Box<Market> = load(&ledger[1].data);
    (
        keys().iter().map(|k| (k.to_string(), *m.get_config_by_key(*k).unwrap())).collect(),
        flags().iter().map(|f| (f.to_string(), m.get_config_flag_by_key(*f))).collect(),
    )
}

fn env_str(w: &World, signed: bool) -> String {
    format!("{} {} {} {} {} {} {}", w.mk.z(), w.mck.z(), b(w.member), b(w.bit_mk), b(w.bit_mck), b(signed), b(w.store_ok))
}

fn others_changed<T: PartialEq>(before: &[(String, T)], after: &[(String, T)], addressed: &[String]) -> String {
    let v: Vec<String> = before.iter().zip(after.iter()).filter(|(x, y)| x.1 != y.1 && !addressed.contains(&x.0)).map(|(x, _)| qs(&x.0)).collect();
    format!("[{}]", v.join("; "))
}

fn main() {
    let a = args();
    let mut rng = Rng::new(a.seed);
    silence_panics();
    g7rt::install_stubs();
    emit("codes", &format!(
        "Codes {} {} {} {} {} {} {}",
        u32::from(anchor_lang::error::ErrorCode::AccountNotSigner), u32::from(anchor_lang::error::ErrorCode::ConstraintHasOne),
        u32::from(CoreError::PermissionDenied), u32::from(CoreError::NotFound), u32::from(CoreError::PreconditionsAreNotMet),
        u32::from(CoreError::InvalidMarketConfigKey), u32::from(CoreError::InvalidArgument)
    ));
    let all_keys: Vec<String> = keys().iter().map(|k| k.to_string()).collect();
    let all_flags: Vec<String> = flags().iter().map(|f| f.to_string()).collect();
    for _ in 0..a.n {
        let mut w = world(&mut rng);
        let signed = !rng.chance(1, 20);
        let now: i64 = rng.below(1 << 40) as i64;
        g7rt::set_now(now);
        let (cfg0, fl0) = config_of(&w.ledger);
        let unsign = if signed { None } else { Some(w.caller) };
        match rng.below(10) {
            0..=3 => {
                // single key; prefer keys that make the updatable distinction matter
                let name = match rng.below(12) {
                    0 => "no_such_key".to_string(),
                    1 => "ReserveFactor".to_string(),
                    2..=4 if !w.upd_keys.is_empty() => rng.pick(&w.upd_keys).clone(),
                    5..=6 if w.revoked.iter().any(|x| !x.0) => { let rk: Vec<String> = w.revoked.iter().filter(|x| !x.0).map(|x| x.1.clone()).collect(); rng.pick(&rk).clone() }
                    _ => rng.pick(&all_keys).clone(),
                };
                let v = rng.uint(128);
                let o = call(&mut w.ledger, acc::UpdateMarketConfig { authority: w.caller, store: w.store, market: w.market }.to_account_metas(None),
                    ix::UpdateMarketConfig { key: name.clone(), value: v }.data(), unsign);
                let (cfg1, fl1) = config_of(&w.ledger);
                let before = cfg0.iter().find(|x| x.0 == name).map(|x| x.1).unwrap_or(0);
                let after = cfg1.iter().find(|x| x.0 == name).map(|x| x.1).unwrap_or(0);
                let oc = others_changed(&cfg0, &cfg1, &[name.clone()]);
                let ofl = others_changed(&fl0, &fl1, &[]);
                emit(&format!("key/{}", if o.result.is_ok() { "ok" } else { "rejected" }), &format!(
                    "Upd {} {} {} {} {} {} {} {} {} {}",
                    env_str(&w, signed), qs(&name), b(w.upd_keys.contains(&name)), z(v), b(o.result.is_ok()), z(code(&o)), z(before), z(after), oc, ofl
                ));
            }
            4..=5 => {
                let rf: Vec<String> = w.revoked.iter().filter(|x| x.0).map(|x| x.1.clone()).collect();
                let name = match rng.below(8) { 0 => "no_such_flag".to_string(), 1..=4 if !rf.is_empty() => rng.pick(&rf).clone(), _ => rng.pick(&all_flags).clone() };
                let v = rng.chance(1, 2);
                let o = call(&mut w.ledger, acc::UpdateMarketConfig { authority: w.caller, store: w.store, market: w.market }.to_account_metas(None),
                    ix::UpdateMarketConfigFlag { key: name.clone(), value: v }.data(), unsign);
                let (cfg1, fl1) = config_of(&w.ledger);
                let before = fl0.iter().find(|x| x.0 == name).map(|x| x.1).unwrap_or(false);
                let after = fl1.iter().find(|x| x.0 == name).map(|x| x.1).unwrap_or(false);
                emit(&format!("flag/{}", if o.result.is_ok() { "ok" } else { "rejected" }), &format!(
                    "UpdFlag {} {} {} {} {} {} {} {} {} {}",
                    env_str(&w, signed), qs(&name), b(w.upd_flags.contains(&name)), b(v), b(o.result.is_ok()), z(code(&o)), b(before), b(after),
                    others_changed(&fl0, &fl1, &[name.clone()]), others_changed(&cfg0, &cfg1, &[])
                ));
            }
            _ => {
                // buffer
                let n = rng.below(6) as usize;
                let all_upd = !w.upd_keys.is_empty() && rng.chance(1, 2);
                let mut entries: Vec<(u16, u128)> = vec![];
                for _ in 0..n {
                    let id: u16 = if rng.chance(1, 25) {
                        *rng.pick(&[66u16, 67, 128, 500, u16::MAX])
                    } else if all_upd || (!w.upd_keys.is_empty() && rng.chance(1, 2)) {
                        let name = rng.pick(&w.upd_keys).clone();
                        u16::from(name.parse::<MarketConfigKey>().unwrap())
                    } else {
                        rng.below(all_keys.len() as u64) as u16
                    };
                    entries.push((id, rng.uint(128)));
                }
                let bstore_ok = !rng.chance(1, 20);
                let bowner_ok = !rng.chance(1, 12);
                let expiry: i64 = match rng.below(8) { 0 => now, 1 => now - 1, 2 => now + 1, 3 => i64::MIN, 4 => now - (rng.below(1 << 30) as i64), _ => now + 1 + rng.below(1 << 30) as i64 };
                let buffer_key = key(8, 0);
                let mut bytes = MarketConfigBuffer::DISCRIMINATOR.to_vec();
                bytes.extend_from_slice(if bstore_ok { w.store } else { key(1, 1) }.as_ref());
                bytes.extend_from_slice(if bowner_ok { w.caller } else { key(9, 9) }.as_ref());
                bytes.extend_from_slice(&expiry.to_le_bytes());
                bytes.extend_from_slice(&(entries.len() as u32).to_le_bytes());
                for (id, v) in &entries {
                    bytes.extend_from_slice(&id.to_le_bytes());
                    bytes.extend_from_slice(&v.to_le_bytes());
                }
                w.ledger.push(Acct::new(buffer_key, gmsol_store::ID, bytes));
                let o = call(&mut w.ledger, acc::UpdateMarketConfigWithBuffer { authority: w.caller, store: w.store, market: w.market, buffer: buffer_key }.to_account_metas(None),
                    ix::UpdateMarketConfigWithBuffer {}.data(), unsign);
                let (cfg1, fl1) = config_of(&w.ledger);
                let mut addressed = vec![];
                let es: Vec<String> = entries.iter().map(|(id, v)| {
                    match MarketConfigKey::try_from(*id) {
                        Ok(k) => {
                            let name = k.to_string();
                            let before = cfg0.iter().find(|x| x.0 == name).unwrap().1;
                            let after = cfg1.iter().find(|x| x.0 == name).unwrap().1;
                            addressed.push(name.clone());
                            format!("((Some {}), {}, {}, {}, {})", qs(&name), b(w.upd_keys.contains(&name)), z(*v), z(before), z(after))
                        }
                        Err(_) => format!("(None, false, {}, 0, 0)", z(*v)),
                    }
                }).collect();
                emit(&format!("buffer/{}", if o.result.is_ok() { "ok" } else { "rejected" }), &format!(
                    "UpdBuf {} {} {} {} {} [{}] {} {} {} {}",
                    env_str(&w, signed), b(bstore_ok), b(bowner_ok), z(expiry), z(now), es.join("; "), b(o.result.is_ok()), z(code(&o)),
                    others_changed(&cfg0, &cfg1, &addressed), others_changed(&fl0, &fl1, &[])
                ));
            }
        }
    }
}
