//! C31 driver: order fee discount — program (states/store.rs + states/gt.rs) and SDK copy
//! (crates/programs/src/utils/store.rs) on the same Store bytes.  One case = one history.
use gmsol_programs::gmsol_store::accounts::Store as SdkStore;
use gmsol_store::ops::order::verif_hooks_g1 as hk;
use gmsol_store::states::Store;
use gmsol_verif_harness::*;

const UNIT: u128 = 100_000_000_000_000_000_000;

fn prog_code(e: &anchor_lang::error::Error) -> u32 {
    match e {
        anchor_lang::error::Error::AnchorError(a) => match a.error_name.as_str() {
            "InvalidArgument" => 1,
            "Internal" => 3,
            "ValueOverflow" => 4,
            "InvalidGTConfig" => 5,
            "GTStateHasBeenInitialized" => 6,
            _ => 99,
        },
        _ => 99,
    }
}
fn sdk_code(e: &gmsol_programs::Error) -> u32 {
    let s = e.to_string();
    if s.contains("exceeds max_rank") { 1 }
    else if s.contains("complement calculation overflow") { 3 }
    else if s.contains("discount factor calculation overflow") { 4 }
    else { 99 }
}
fn rp(r: &anchor_lang::Result<u128>) -> String {
    match r { Ok(v) => format!("(Ok {})", z(v)), Err(e) => format!("(Err {})", prog_code(e)) }
}
fn rs(r: &gmsol_programs::Result<u128>) -> String {
    match r { Ok(v) => format!("(Ok {})", z(v)), Err(e) => format!("(Err {})", sdk_code(e)) }
}

fn factor(r: &mut Rng, invalid: bool) -> u128 {
    if invalid {
        match r.below(4) { 0 => UNIT + 1, 1 => UNIT * 2, 2 => u128::MAX, _ => UNIT + r.below(1_000_000) as u128 }
    } else {
        match r.below(9) {
            0 => 0,
            1 => UNIT,
            2 => UNIT - 1,
            3 => 1,
            4 => UNIT / 1000 * 25,
            5 => UNIT / 1000 * (r.below(1001) as u128),
            6 => UNIT / 10 * (r.below(11) as u128),
            7 => r.next128() % (UNIT + 1),
            _ => UNIT / 3 + r.below(7) as u128,
        }
    }
}

fn sdk_of(store: &Store) -> SdkStore {
    assert_eq!(std::mem::size_of::<Store>(), std::mem::size_of::<SdkStore>());
    bytemuck::pod_read_unaligned::<SdkStore>(bytemuck::bytes_of(store))
}

fn main() {
    let a = args();
    let mut rng = Rng::new(a.seed);
    g9rt::install();
    silence_panics();
    for _ in 0..a.n {
        let mut store: Store = bytemuck::Zeroable::zeroed();
        // ranks: 0..=17 thresholds (more than MAX_RANK = 15 are truncated), strictly sorted mostly
        let nranks = match rng.below(6) { 0 => 0, 1 => 15, 2 => 16 + rng.below(2), _ => rng.below(15) + 1 } as usize;
        let mut ranks: Vec<u64> = Vec::new();
        let mut cur = rng.below(1000);
        for _ in 0..nranks { cur += 1 + rng.below(1_000_000); ranks.push(cur); }
        if nranks >= 2 && rng.chance(1, 12) { let i = rng.below(nranks as u64 - 1) as usize; ranks[i + 1] = ranks[i]; }
        let grow_step: u64 = if rng.chance(1, 15) { 0 } else { 1 + rng.below(1_000_000) };
        let init = hk::gt_init(&mut store, 7, UNIT, UNIT + UNIT / 100, grow_step, &ranks);
        let init_code = match &init { Ok(()) => 0, Err(e) => prog_code(e) };
        let mut steps: Vec<String> = Vec::new();
        let mut tag = "hist/ok";
        if init.is_ok() {
            let max_rank = ranks.len().min(15);
            let nsteps = 3 + rng.below(10);
            for i in 0..nsteps {
                // most histories start by configuring a referral discount and a valid table
                let pick = if i == 0 && rng.chance(3, 4) { 3 } else if i == 1 && rng.chance(3, 4) { 10 } else { rng.below(10) };
                match pick {
                    10 => {
                        let fs: Vec<u128> = (0..max_rank + 1).map(|_| factor(&mut rng, false)).collect();
                        let r = hk::gt_set_order_fee_discount_factors(&mut store, &fs);
                        let code = match &r { Ok(()) => 0, Err(e) => prog_code(e) };
                        steps.push(format!("SSet {} {code}", zl(&fs)));
                    }
                    0 | 1 | 2 => {
                        // set the table: mostly valid
                        let len = match rng.below(8) { 0 => max_rank, 1 => max_rank + 2, 2 => rng.below(18) as usize, _ => max_rank + 1 };
                        let bad = rng.chance(1, 5);
                        let badpos = rng.below(len.max(1) as u64) as usize;
                        let fs: Vec<u128> = (0..len).map(|i| factor(&mut rng, bad && i == badpos)).collect();
                        let r = hk::gt_set_order_fee_discount_factors(&mut store, &fs);
                        let code = match &r { Ok(()) => 0, Err(e) => prog_code(e) };
                        steps.push(format!("SSet {} {code}", zl(&fs)));
                    }
                    3 => {
                        let inv = rng.chance(1, 6);
                        let f = factor(&mut rng, inv);
                        *store.get_factor_mut("order_fee_discount_for_referred_user").expect("factor key") = f;
                        steps.push(format!("SRef {}", z(f)));
                    }
                    4 if rng.chance(1, 4) => {
                        // a second init must be refused and must not reset max_rank / the table
                        let n = rng.below(17) as usize;
                        let mut rk: Vec<u64> = Vec::new(); let mut c = 0u64;
                        for _ in 0..n { c += 1 + rng.below(1000); rk.push(c); }
                        let gs2 = rng.below(3);
                        let r = hk::gt_init(&mut store, 7, UNIT, UNIT, gs2, &rk);
                        let code = match &r { Ok(()) => 0, Err(e) => prog_code(e) };
                        let rz: Vec<String> = rk.iter().map(|x| x.to_string()).collect();
                        steps.push(format!("SInit [{}] {gs2} {code}", rz.join("; ")));
                    }
                    4 => {
                        let rank = match rng.below(6) { 0 => max_rank as u8 + 1, 1 => 255, 2 => 16, _ => rng.below(max_rank as u64 + 1) as u8 };
                        let r = hk::gt_order_fee_discount_factor(&store, rank);
                        steps.push(format!("SRank {rank} {}", rp(&r)));
                    }
                    _ => {
                        let rank = match rng.below(8) { 0 => max_rank as u8 + 1, 1 => 255, 2 => 16, _ => rng.below(max_rank as u64 + 1) as u8 };
                        let sdk = sdk_of(&store);
                        let q = |referred: bool| -> (String, String) {
                            let st = store;
                            let p = no_panic(move || st.order_fee_discount_factor(rank, referred));
                            let ps = match &p { Some(r) => rp(r), None => "(Err 98)".to_string() };
                            (ps, rs(&sdk.order_fee_discount_factor(rank, referred)))
                        };
                        let (p0, s0) = q(false);
                        let (p1, s1) = q(true);
                        if p1.starts_with("(Err") { tag = "hist/with-rejections"; }
                        steps.push(format!("SQuery {rank} {p0} {s0} {p1} {s1}"));
                    }
                }
            }
        } else {
            tag = "hist/init-fail";
        }
        let ranks_z: Vec<String> = ranks.iter().map(|x| x.to_string()).collect();
        emit(tag, &format!("CHist 128 20 [{}] {grow_step} {init_code} [{}]", ranks_z.join("; "), steps.join("; ")));
    }
}
