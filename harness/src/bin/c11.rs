//! C11 driver: PositionExt::pnl_value on the harness market (u64/9 and u128/20).
//! Case kinds: one evaluation; two evaluations at index prices p1 <= p2 (monotonicity);
//! a partial close next to the full close (proportionality).
use gmsol_model::{
    price::{Price, Prices},
    PositionExt,
};
use gmsol_verif_harness::ps::{self, PsCfg};
use gmsol_verif_harness::vmarket::{TestMarket, TestPool, TestPosition};
use gmsol_verif_harness::*;

macro_rules! gen_for {
    ($fname:ident, $U:ty, $S:ty, $W:expr, $DEC:expr) => {
        #[allow(clippy::too_many_lines)]
        fn $fname(rng: &mut Rng, kind: u64) {
            let w: u32 = $W;
            let dec: u8 = $DEC;
            let unit: $U = (10 as $U).pow($DEC as u32);
            // scale: how many bits the USD quantities use
            let boundary = rng.chance(1, 12);
            let usd_bits = if boundary { w as u64 } else if w == 64 { rng.range(20, 50) } else { rng.range(40, 100) };
            let tok_bits = rng.range(4, usd_bits.saturating_sub(8).max(5)).min(40);
            let rb = |r: &mut Rng, bits: u64| -> $U {
                let bits = bits.max(1).min(w as u64) as u32;
                let x = r.next128();
                (if bits >= 128 { x } else { x & ((1u128 << bits) - 1) }) as $U
            };
            // the position
            let is_long = rng.chance(1, 2);
            let coll_long = rng.chance(1, 2);
            let size_tok: $U = match rng.below(10) { 0 => 0, 1 => 1, _ => rb(rng, tok_bits).saturating_add(1) };
            let entry: $U = rb(rng, usd_bits - tok_bits.min(usd_bits - 1)).saturating_add(1);
            let size_usd: $U = if boundary && rng.chance(1, 3) { rng.uint(w) as $U } else {
                size_tok.checked_mul(entry).unwrap_or(<$U>::MAX / 3).wrapping_add(rng.below(entry as u64 % 1000 + 1) as $U)
            };
            // other positions on the same side: their entry price differs (this is what makes the capped pnl non-monotone)
            let other_tok: $U = if rng.chance(1, 5) { 0 } else { rb(rng, tok_bits + 2) };
            let other_entry: $U = match rng.below(3) { 0 => entry, 1 => entry / (rng.range(2, 9) as $U) + 1, _ => entry.saturating_mul(rng.range(2, 5) as $U) };
            let other_usd: $U = other_tok.checked_mul(other_entry).unwrap_or(0);
            let split = |r: &mut Rng, v: $U| -> ($U, $U) { let a = if v == 0 { 0 } else { (r.next128() as $U) % v.saturating_add(1) }; if r.chance(1, 4) { (v, 0) } else { (a, v - a) } };
            let (oi_a, oi_b) = split(rng, size_usd.saturating_add(other_usd));
            let (oit_a, oit_b) = split(rng, size_tok.saturating_add(other_tok));
            // prices
            let idx_lo: $U = match rng.below(8) { 0 => entry, 1 => entry.saturating_sub(1).max(1), 2 => entry / 2 + 1, _ => (entry / 4).max(1).saturating_add((rng.next128() as $U) % (entry.saturating_mul(3).max(1))) };
            let spread = |r: &mut Rng, p: $U| -> Price<$U> { let s = if r.chance(1, 2) { 0 } else { (r.next128() as $U) % (p / 50 + 2) }; Price { min: p, max: p.saturating_add(s) } };
            let index1 = spread(rng, idx_lo.max(1));
            let bump: $U = match rng.below(5) { 0 => 0, 1 => 1, 2 => idx_lo, _ => (rng.next128() as $U) % (idx_lo.saturating_mul(3).max(2)) };
            let index2 = Price { min: index1.min.saturating_add(bump), max: index1.max.saturating_add(bump).saturating_add(if rng.chance(1, 3) { rng.below(5) as $U } else { 0 }) };
            let lp0 = rb(rng, 20) + 1;
            let long_p = if rng.chance(1, 2) { index1 } else { spread(rng, lp0) };
            let sp0 = if rng.chance(1, 2) { 1 } else { rb(rng, 12) + 1 };
            let short_p = spread(rng, sp0);
            // pool: sized so that the trader cap binds in a good share of the cases
            let pnl_scale: $U = size_usd.saturating_add(other_usd) / 2 + 1;
            let pool_usd: $U = match rng.below(6) { 0 => 0, 1 => pnl_scale / 8, 2 => pnl_scale, 3 => pnl_scale.saturating_mul(4), _ => rb(rng, usd_bits) };
            let prim_long: $U = pool_usd / long_p.min.max(1);
            let prim_short: $U = pool_usd / short_p.min.max(1);
            let trader_factor: $U = match rng.below(7) { 0 => 0, 1 => unit / 1000, 2 => unit / 2, 3 => unit, 4 => unit.saturating_mul(3), _ => (rng.next128() as $U) % (unit + 1) };

            let cfg = base_cfg::<$U>(unit, trader_factor, w);
            let mut m: TestMarket<$U, $DEC> = ps::new_market(&cfg);
            m.primary = TestPool { long_amount: prim_long, short_amount: prim_short };
            let (oi, oit) = (TestPool { long_amount: oi_a, short_amount: oi_b }, TestPool { long_amount: oit_a, short_amount: oit_b });
            if is_long { m.open_interest.0 = oi; m.open_interest_in_tokens.0 = oit; } else { m.open_interest.1 = oi; m.open_interest_in_tokens.1 = oit; }
            let mut pos = TestPosition::<$U, $DEC> { is_long, is_collateral_token_long: coll_long, collateral_token_amount: rb(rng, 30), size_in_usd: size_usd, size_in_tokens: size_tok, ..Default::default() };
            let pr1 = Prices { index_token_price: index1, long_token_price: long_p, short_token_price: short_p };
            let pr2 = Prices { index_token_price: index2, long_token_price: long_p, short_token_price: short_p };
            let delta: $U = match rng.below(8) { 0 => size_usd, 1 => 0, 2 => 1, 3 => size_usd.saturating_sub(1), 4 => size_usd / 2, 5 if boundary => rng.uint(w) as $U, _ => if size_usd == 0 { 0 } else { (rng.next128() as $U) % size_usd } };

            let ms = ps::market(&cfg, &m);
            let p_s = ps::position(&pos);
            let mut eval = |pr: &Prices<$U>, d: $U| -> (String, bool, bool) {
                let r = pos.ops(&mut m).pnl_value(pr, &d);
                match r {
                    Ok((a, b, c)) => (format!("(Ok ({}, {}, {}))", z(a), z(b), z(c)), true, a != b),
                    Err(e) => (format!("(Err {})", ps::err_code(&e)), false, false),
                }
            };
            match kind {
                0 => {
                    let (r, ok, capped) = eval(&pr1, delta);
                    let tag = format!("one{w}/{}", if size_tok == 0 { "trivial" } else if !ok { "fail" } else if capped { "capped" } else { "ok" });
                    emit(&tag, &format!("PnlOne {w} {dec} {ms} {p_s} {} {} {r}", ps::prices(&pr1), z(delta)));
                }
                1 => {
                    let (r1, ok1, c1) = eval(&pr1, delta);
                    let (r2, ok2, c2) = eval(&pr2, delta);
                    let tag = format!("mono{w}/{}", if size_tok == 0 { "trivial" } else if !(ok1 && ok2) { "fail" } else if c1 || c2 { "capped" } else { "ok" });
                    emit(&tag, &format!("PnlMono {w} {dec} {ms} {p_s} {} {} {} {r1} {r2}", ps::prices(&pr1), ps::prices(&pr2), z(delta)));
                }
                _ => {
                    let (r, ok1, c1) = eval(&pr1, delta);
                    let (rf, ok2, _) = eval(&pr1, size_usd);
                    let tag = format!("prop{w}/{}", if size_tok == 0 { "trivial" } else if !(ok1 && ok2) { "fail" } else if c1 { "capped" } else { "ok" });
                    emit(&tag, &format!("PnlProp {w} {dec} {ms} {p_s} {} {} {r} {rf}", ps::prices(&pr1), z(delta)));
                }
            }
        }
    };
}

/// A configuration in which only the trader pnl factor matters (pnl_value reads nothing else).
fn base_cfg<T: Copy + From<u8> + std::ops::Mul<Output = T>>(unit: T, trader: T, _w: u32) -> PsCfg<T> {
    let zero: T = 0u8.into();
    PsCfg {
        min_size: unit, min_cv: unit, min_cf: zero, min_cf_liq: None,
        max_pos_impact: zero, max_neg_impact: zero, max_impact_liq: zero,
        ip_exp: unit * 2u8.into(), ip_pos: 1u8.into(), ip_neg: 2u8.into(),
        fee_pos: zero, fee_neg: zero, fee_recv: zero, fee_discount: None,
        borrow_recv: zero, liq_factor: zero, liq_recv: zero, reserve: unit, oi_reserve: unit,
        max_pnl_trader: trader, max_pnl_adl: trader, min_pnl_after_adl: zero,
        max_oi: unit, min_cf_oi_mult: zero, funding_adj: 10u8.into(),
        divisor: 1u8.into(), funding: [unit, zero, zero, zero, zero, zero, zero, zero],
        borrowing: [unit, unit, zero, zero], borrowing_skip_smaller: true, kink: [zero, zero, zero],
        distribute: [zero, zero], max_pool_amount: unit, ignore_oi_for_usage: false,
    }
}

gen_for!(gen64, u64, i64, 64, 9);
gen_for!(gen128, u128, i128, 128, 20);

fn main() {
    let a = args();
    let mut rng = Rng::new(a.seed);
    // replay of the design-phase finding (capped pnl of a long falls while the index price rises)
    for i in 0..a.n {
        let kind = (i as u64) % 3;
        if rng.chance(1, 2) { gen64(&mut rng, kind) } else { gen128(&mut rng, kind) }
    }
}
