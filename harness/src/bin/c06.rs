//! C06 driver: LP deposit / withdraw histories (with swaps and direct field writes in between) and
//! deposit-then-withdraw-all round trips at unchanged prices, over vmarket::TestMarket.
//! `--witness` prints the round trips recorded in DESIGN.md section 7 instead.
use gmsol_verif_harness::{args, emit, mkdrv};

fn main() {
    let a = args();
    if a.extra.iter().any(|x| x == "--witness") {
        let (t, c) = mkdrv::m64::round_trip_witness(1_000_000_000, 60_000_000_000, 120, 1);
        emit(&t, &mkdrv::hexify(&c));
        let (t, c) = mkdrv::m128::round_trip_witness(1_000_000_000, 60_000_000_000, 12_000_000_000_000, 100_000_000_000);
        emit(&t, &mkdrv::hexify(&c));
        return;
    }
    let mix = mkdrv::Mix { deposit: 28, withdraw: 16, swap: 18, set: 14, round_trip: 24, min_ops: 4, max_ops: 11, zero_fee_zero_impact: 120 };
    mkdrv::run(&mix, a.seed, a.n);
}
