//! C29 driver: try_adjust_price_with_max_deviation_factor (hook) and the acceptance pipeline
//! (real `Oracle::with_prices_opts` on custom price feeds, plus a hook-composed variant that
//! reaches reference = mid price and mixed multipliers).
use anchor_lang::prelude::*;
use gmsol_model::num::MulDiv;
use gmsol_store::states::oracle::verif_hooks::try_adjust_price_with_max_deviation_factor as adjust;
use gmsol_store::states::{oracle::price_map::SmallPrices, PriceValidator, Store};
use gmsol_utils::oracle::PriceProviderKind;
use gmsol_utils::price::{Decimal, Price};
use gmsol_verif_harness::g5oracle::*;
use gmsol_verif_harness::*;
use gmsol_verif_harness::g6rt::{emit, finish, quiet};

fn dz(d: &Decimal) -> String { format!("({}, {})", d.value, d.decimal_multiplier) }
fn pz(p: &Price) -> String { format!("({}, {})", dz(&p.min), dz(&p.max)) }
fn odz(d: &Option<Decimal>) -> String { match d { Some(x) => format!("(Some {})", dz(x)), None => "None".into() } }

const UNIT: u128 = 100_000_000_000_000_000_000;

/// (factor, price, ref): values placed around the band edges of the reference.
fn gen_adjust(rng: &mut Rng) -> (u128, Price, Option<Decimal>) {
    let m: u8 = match rng.below(10) { 0 => rng.below(21) as u8, 1 => 20, 2 => 0, _ => rng.range(4, 12) as u8 };
    let s = 10u128.pow(m as u32);
    let vref: u32 = match rng.below(6) { 0 => rng.uint(32) as u32, 1 => u32::MAX - rng.below(100_000) as u32, 2 => rng.range(1, 50) as u32, _ => rng.range(1000, 400_000_000) as u32 };
    let ratio: u32 = match rng.below(8) { 0 => 1, 1 => u32::MAX, 2 => rng.range(100_000_000, 400_000_000) as u32, 3 => rng.uint(32) as u32, _ => rng.range(1000, 5_000_000) as u32 };
    let narrow_factor = rng.chance(1, 8);
    let factor: u128 = if narrow_factor { rng.range(1, 50) as u128 * 1_000_000_000_000 } else if rng.chance(1, 20) { rng.uint(128) } else { ratio as u128 * 1_000_000_000_000 };
    let with_ref = rng.chance(3, 4);
    let mref: u8 = if with_ref && rng.chance(1, 6) { rng.below(21) as u8 } else { m };
    let refu = vref as u128 * 10u128.pow(mref as u32);
    let dev = refu.checked_mul_div(&factor, &UNIT).unwrap_or(u128::MAX);
    let hi = refu.saturating_add(dev) / s;
    let lo = refu.saturating_sub(dev).div_ceil(s);
    let around = |rng: &mut Rng, c: u128| -> u32 {
        let j = rng.below(7) as i128 - 3;
        (c as i128 + j).clamp(0, u32::MAX as i128) as u32
    };
    let side = |rng: &mut Rng| -> u32 {
        match rng.below(8) {
            0 | 1 => around(rng, hi),
            2 | 3 => around(rng, lo),
            4 => around(rng, refu / s),
            5 => rng.uint(32) as u32,
            6 => around(rng, hi.saturating_add(dev / s)),
            _ => around(rng, (refu / s + hi) / 2),
        }
    };
    let (a, b) = (side(rng), side(rng));
    let (mut mn, mut mx) = if rng.chance(9, 10) { (a.min(b), a.max(b)) } else { (a, b) };
    let mut with_ref = with_ref;
    if rng.chance(1, 8) {
        // both sides clamped, deviation below half a tick, reference (mid) off the tick grid:
        // the clamped max = floor and the clamped min = ceil cross over
        let lo_v = rng.range(1000, 4_000_000_000) as u32;
        let gap = 2 * rng.range(1, 50) as u32 + 1; // odd gap -> mid = x.5 ticks
        mn = lo_v;
        mx = lo_v.saturating_add(gap);
        with_ref = false;
    }
    let mmin: u8 = if rng.chance(1, 12) { rng.below(24) as u8 } else { m };
    let mmax: u8 = if rng.chance(1, 40) { rng.range(21, 60) as u8 } else { m };
    let price = Price { min: Decimal { value: mn, decimal_multiplier: mmin }, max: Decimal { value: mx, decimal_multiplier: mmax } };
    let r = if with_ref { Some(Decimal { value: vref, decimal_multiplier: mref }) } else { None };
    (factor, price, r)
}

fn core_num(e: &anchor_lang::error::Error) -> u32 { anchor_err_num(e) }

/// One token through the real `with_prices_opts` (custom feed, feed decimals = precision).
fn pipe_case(allow: bool, ratio: u32, td: u8, p: u8, vref: u32, mn: u128, mx: u128) {
    let m = 20 - td - p;
    let s = 10u128.pow(m as u32);
    let now = 1_700_000_000i64;
    let tspec = TokenSpec { td, precision: p, heartbeat: 60, allow_adjust: allow, ratio, ..Default::default() };
    let fspec = FeedSpec { provider: 0, decimals: p, pflags: 1, status: 0, lud: 0, ts: now - 1, price: vref as u128, min: mn, max: mx, slot: 5, published_at: now - 1, owner_ok: true, feed_id_ok: true };
    let env = Env { now, slot: 10, max_age: 3600, max_range: 3600, max_future: 10 };
    // the Decimals the pipeline will see
    let fp = feed_price(p, 1, 0, 0, now - 1, vref as u128, mn, mx);
    let tc = token_config(&tspec, gmsol_verif_harness::g9rt::key(200));
    let (Ok(price), Ok(refd)) = (fp.try_to_price(&tc), fp.try_to_ref_price(&tc)) else {
        emit("pipe/trivial", "Pipe false None ((1, 0), (1, 0)) None (Ok (0, 1, 1))");
        return;
    };
    let rr = no_panic(move || run(&env, &[(tspec, fspec)], false, false, 1, false, true));
    let fo = if ratio == 0 { "None".to_string() } else { format!("(Some {})", ratio as u128 * 1_000_000_000_000) };
    let (tag, rs) = match &rr {
        None => ("pipe/panic".to_string(), "(Err 9)".to_string()),
        Some(r) => match (&r.res, &r.inside) {
            (Ok(()), Some((_, prices))) => match &prices[0] {
                Ok((umin, umax)) => (format!("pipe/accepted{}", if price.min.value as u128 * s != *umin || price.max.value as u128 * s != *umax { "_adjusted" } else { "" }),
                                    format!("(Ok ({m}, {}, {}))", umin / s, umax / s)),
                Err(c) => ("pipe/noprice".to_string(), format!("(Err {})", 50_000 + c)),
            },
            (Err(c), _) => (format!("pipe/rejected{c}"), format!("(Err {c})")),
            _ => ("pipe/weird".to_string(), "(Err 77)".to_string()),
        },
    };
    emit(&tag, &format!("Pipe {} {fo} {} (Some {}) {rs}", b(allow), pz(&price), dz(&refd)));
}

/// adjust (if allowed and a factor is configured) -> validate_one -> from_price, composed as in parse_from_feed_account.
fn hook_pipeline(allow: bool, ratio: u32, price: Price, r: Option<Decimal>, kind: &str) {
    let tspec = TokenSpec { allow_adjust: allow, ratio, ..Default::default() };
    let tc = token_config(&tspec, gmsol_verif_harness::g9rt::key(200));
    let now = 1_700_000_000i64;
    gmsol_verif_harness::g9rt::set_clock(10, now);
    let out = no_panic(move || -> std::result::Result<(u8, u32, u32), u32> {
        let mut store: Box<Store> = Box::new(bytemuck::Zeroable::zeroed());
        *store.get_amount_mut("oracle_max_age").unwrap() = 3600;
        *store.get_amount_mut("oracle_max_timestamp_range").unwrap() = 3600;
        *store.get_amount_mut("oracle_max_future_timestamp_excess").unwrap() = 10;
        let mut v = PriceValidator::try_from(&*store).map_err(|e| core_num(&e))?;
        let provider = PriceProviderKind::ChainlinkDataStreams;
        let mut p = price;
        if tc.is_price_adjustment_allowed() {
            if let Some(f) = tc.get_feed_config(&provider).unwrap().max_deviation_factor() {
                if let Some(q) = adjust(&f, &p, r.as_ref()) { p = q; }
            }
        }
        v.verif_validate_one(&tc, &provider, now, 5, &p, r.as_ref()).map_err(|e| core_num(&e))?;
        let sp = SmallPrices::verif_from_price(&p, false, true).map_err(|e| core_num(&e))?;
        Ok((sp.min().decimal_multiplier, sp.min().value, sp.max().value))
    });
    let fo = if ratio == 0 { "None".to_string() } else { format!("(Some {})", ratio as u128 * 1_000_000_000_000) };
    let (tag, rs) = match &out {
        None => (format!("{kind}/panic").to_string(), "(Err 9)".to_string()),
        Some(Ok((m, x, y))) => (format!("{kind}/accepted"), format!("(Ok ({m}, {x}, {y}))")),
        Some(Err(c)) => (format!("{kind}/rejected{c}"), format!("(Err {c})")),
    };
    emit(&tag, &format!("Pipe {} {fo} {} {} {rs}", b(allow), pz(&price), odz(&r)));
}

fn main() {
    let a = args();
    silence_panics();
    quiet();
    gmsol_verif_harness::g9rt::install();
    if a.extra.iter().any(|x| x == "--witness") {
        // crafted inputs replayed on the real pipeline (copied into corpus/C29, corpus/C24)
        // 1. adjustment allowed, upper band edge not representable in u32 -> adjust() = None, accepted unchanged, max below r - dev
        pipe_case(true, 1000, 8, 4, 4294967000, 4294924050, 4294924050);
        // 2. adjustment not allowed: max one step above r + dev, inside the rounded deviation
        pipe_case(false, 1_000_000, 8, 4, 100001, 100001, 101002);
        // 3. same with adjustment allowed: clamped
        pipe_case(true, 1_000_000, 8, 4, 100001, 100001, 101002);
        // 4. factor above 100 %: lower edge negative -> adjust() = None although max was clampable
        pipe_case(true, 150_000_001, 8, 4, 100, 251, 251);
        // 5. computed deviation 0 (tiny reference): check skipped when adjustment is not allowed
        pipe_case(false, 1, 2, 18, 50_000_000, 50_000_000, 4_000_000_000);
        pipe_case(true, 1, 2, 18, 50_000_000, 50_000_000, 4_000_000_000);
        // 6. (lead note) reference = mid off the tick grid, deviation below half a tick, both sides clamped:
        //    the adjustment function itself returns an INVERTED price ...
        {
            use gmsol_utils::price::{Decimal, Price};
            let d = |v: u32, m: u8| Decimal { value: v, decimal_multiplier: m };
            for (factor, price, r) in [
                (1_000_000_000_000_000u128, Price { min: d(99, 1), max: d(102, 1) }, None),
                (1_000_000_000_000u128, Price { min: d(1_000_000, 8), max: d(1_000_003, 8) }, None),
                (1_000_000_000_000_000u128, Price { min: d(9, 2), max: d(12, 2) }, Some(d(1055, 0))),
            ] {
                let out = adjust(&factor, &price, r.as_ref());
                let rs = match &out { None => "(Some None)".to_string(), Some(p) => format!("(Some (Some {}))", pz(p)) };
                emit("witness/adjust_inverted", &format!("Adjust {factor} {} {} {rs}", pz(&price), odz(&r)));
                // ... and the rest of the pipeline (validate_one, then SmallPrices::from_price) rejects it
                hook_pipeline(true, (factor / 1_000_000_000_000) as u32, price, r, "witness");
            }
        }
        finish();
        return;
    }
    let mut rng = Rng::new(a.seed);
    for i in 0..a.n {
        match (i as u64) % 4 {
            0 | 1 => {
                let (factor, price, r) = gen_adjust(&mut rng);
                let out = no_panic(move || adjust(&factor, &price, r.as_ref()));
                let (tag, rs) = match &out {
                    None => ("adjust/panic", "None".to_string()),
                    Some(None) => ("adjust/none", "(Some None)".to_string()),
                    Some(Some(p)) => (if p.min.decimal_multiplier == p.max.decimal_multiplier && p.min.value > p.max.value { "adjust/some_inverted" } else { "adjust/some" }, format!("(Some (Some {}))", pz(p))),
                };
                emit(tag, &format!("Adjust {factor} {} {} {rs}", pz(&price), odz(&r)));
            }
            2 => {
                // real pipeline: one token, custom feed, decimals = precision so that Decimal value = feed price
                let p: u8 = rng.range(2, 8) as u8;
                let td: u8 = rng.range(6, 20 - p as u64) as u8;
                let m = 20 - td - p;
                let s = 10u128.pow(m as u32);
                let vref: u32 = match rng.below(5) { 0 => u32::MAX - rng.below(100_000) as u32, 1 => rng.range(1, 50) as u32, _ => rng.range(1000, 400_000_000) as u32 };
                let ratio: u32 = match rng.below(8) { 0 => 0, 1 => 1, 2 => rng.range(100_000_000, 400_000_000) as u32, _ => rng.range(1000, 5_000_000) as u32 };
                let refu = vref as u128 * s;
                let dev = refu.checked_mul_div(&(ratio as u128 * 1_000_000_000_000), &UNIT).unwrap_or(0);
                let hi = (refu + dev) / s;
                let lo = refu.saturating_sub(dev).div_ceil(s);
                let rdev_steps = dev.div_ceil(s);
                let side = |rng: &mut Rng| -> u128 {
                    let j = rng.below(5) as i128 - 2;
                    let c = match rng.below(8) { 0 | 1 => hi, 2 | 3 => lo, 4 => vref as u128 + rdev_steps, 5 => (vref as u128).saturating_sub(rdev_steps), 6 => vref as u128, _ => rng.uint(32) };
                    (c as i128 + j).max(0) as u128
                };
                let (x, y) = (side(&mut rng), side(&mut rng));
                let (mn, mx) = if rng.chance(9, 10) { (x.min(y), x.max(y)) } else { (x, y) };
                let allow = rng.chance(2, 3);
                pipe_case(allow, ratio, td, p, vref, mn, mx);
            }
            _ => {
                // hook-composed pipeline: adjust (if allowed and a factor is configured) -> validate_one -> from_price
                let (factor0, price, r) = gen_adjust(&mut rng);
                let ratio: u32 = if rng.chance(1, 8) { 0 } else { ((factor0 / 1_000_000_000_000).clamp(1, u32::MAX as u128)) as u32 };
                let allow = rng.chance(2, 3);
                hook_pipeline(allow, ratio, price, r, "pipe_hooks");
            }
        }
    }
    finish();
}
