//! C38 driver: LP staking rewards and unstaking.
//!
//! * `Twa` / `Rew`: the private pure functions through the cfg(gmsol_verif) re-export.
//! * `Hist`: histories of the REAL instructions (set_claim_enabled, update_min_stake_value,
//!   update_apy_gradient_sparse / _range, claim_gt, unstake_lp) through
//!   `gmsol_liquidity_provider::entry` in the g6 mini runtime.  The GT-store and token-program
//!   CPIs are stubs: they are RECORDED (program, data) and the driver applies the requested token
//!   movements itself; the cumulative inverse cost returned by the stubbed store CPI is chosen by
//!   the driver (return data).  The position account is created by the driver (byte level) —
//!   `stake_gm`/`stake_glv` need the store's pricing CPIs.
use anchor_lang::prelude::Pubkey;
use anchor_lang::solana_program::system_program;
use anchor_lang::{AccountDeserialize, Discriminator, InstructionData};
use gmsol_liquidity_provider as lp;
use gmsol_liquidity_provider::verif_hooks as vh;
use gmsol_verif_harness::g6rt::{self, emit, m, Acct};
use gmsol_verif_harness::*;
use std::str::FromStr;

const APY_MAX: u128 = 200_000_000_000_000_000_000;
const UNIT: u128 = 100_000_000_000_000_000_000;
const WEEK: i64 = 604800;

fn key(k: u64) -> Pubkey {
    let mut b = [0u8; 32];
    b[..8].copy_from_slice(&k.to_le_bytes());
    b[31] = 0xC3;
    Pubkey::new_from_array(b)
}

fn zlc<T: std::fmt::Display>(v: &[T]) -> String {
    if v.is_empty() { "nil".into() } else { format!("({} :: nil)", v.iter().map(|x| z(x)).collect::<Vec<_>>().join(" :: ")) }
}

/// gradient = base everywhere + overrides; printed compactly
struct Grad { base: u128, over: Vec<(usize, u128)> }
impl Grad {
    fn arr(&self) -> [u128; 53] {
        let mut a = [self.base; 53];
        for (i, v) in &self.over { a[*i] = *v; }
        a
    }
    fn term(&self) -> String {
        let idx: Vec<usize> = self.over.iter().map(|x| x.0).collect();
        let vals: Vec<u128> = self.over.iter().map(|x| x.1).collect();
        format!("{} {} {}", z(self.base), zlc(&idx), zlc(&vals))
    }
}
fn gen_grad(rng: &mut Rng, capped: bool) -> Grad {
    let val = |rng: &mut Rng| -> u128 {
        match rng.below(8) {
            0 => 0,
            1 => APY_MAX,
            2 => APY_MAX - rng.below(1000) as u128,
            3 if !capped => rng.uint(128),
            4 => UNIT / 10 * (1 + rng.below(15) as u128),
            _ => rng.below(1_000_000) as u128 * (UNIT / 1_000_000) * 2,
        }
    };
    let base = val(rng);
    let n = rng.below(6) as usize;
    let mut over = vec![];
    for _ in 0..n {
        let i = match rng.below(4) { 0 => 0, 1 => 52, 2 => 51, _ => rng.below(53) as usize };
        let v = val(rng);
        over.retain(|x: &(usize, u128)| x.0 != i);
        over.push((i, v));
    }
    Grad { base, over }
}

fn direct_twa(rng: &mut Rng) {
    let capped = rng.chance(5, 6);
    let g = gen_grad(rng, capped);
    let start: i64 = match rng.below(8) { 0 => 0, 1 => rng.sint(64) as i64, 2 => -(rng.below(1u64 << 62) as i64), _ => 1_600_000_000 + rng.below(200_000_000) as i64 };
    let dur: i64 = match rng.below(12) {
        0 => 0,
        1 => -(rng.below(1000) as i64),
        2 => 1,
        3 => WEEK * (rng.below(60) as i64) + rng.below(3) as i64 - 1,
        4 => WEEK * 52 + rng.below(3) as i64 - 1,
        5 => WEEK * 53 + rng.below(3) as i64 - 1,
        6 => WEEK * (53 + rng.below(500) as i64) + rng.below(WEEK as u64) as i64,
        7 => rng.below(WEEK as u64) as i64,
        8 => (rng.uint(63) as i64).max(0),
        9 => 1_700_000_000_000_000_000 + rng.below(1u64 << 60) as i64,
        _ => rng.below(40_000_000) as i64,
    };
    let now = if rng.chance(1, 30) { rng.sint(64) as i64 } else { start.saturating_add(dur) };
    let arr = g.arr();
    let r = no_panic(std::panic::AssertUnwindSafe(|| vh::compute_time_weighted_apy(start, now, &arr)));
    let t = now as i128 - start as i128;
    let tag = if r.is_none() { "twa/panic" } else if t <= 0 { "twa/nonpositive" } else if t > 1_700_000_000_000_000_000 { "twa/huge" } else if t >= (WEEK as i128) * 52 { "twa/past-last" } else { "twa/within" };
    emit(tag, &format!("Twa {} {} {} {}", z(start), z(now), g.term(), oz(r)));
}

fn direct_reward(rng: &mut Rng) {
    let value: u128 = match rng.below(6) { 0 => 0, 1 => rng.uint(128), 2 => UNIT * (1 + rng.below(10_000_000) as u128), _ => UNIT * rng.below(1_000_000) as u128 + rng.below(1_000_000) as u128 };
    let duration: i64 = match rng.below(8) { 0 => -1, 1 => rng.sint(64) as i64, 2 => 0, _ => rng.below(100_000_000) as i64 };
    let aps: u128 = match rng.below(6) { 0 => 0, 1 => APY_MAX / 31_557_600, 2 => rng.uint(128), _ => rng.below(7_000_000_000_000) as u128 };
    let integral: u128 = match rng.below(6) { 0 => 0, 1 => rng.uint(128), 2 => UNIT * 20 * rng.below(100_000_000) as u128, _ => UNIT / 5 * rng.below(10_000_000) as u128 + rng.below(1000) as u128 };
    let r = vh::calculate_gt_reward_amount(value, duration, aps, integral);
    let rs = match &r { Ok(v) => format!("(Ok {})", z(v)), Err(e) => format!("(Err {})", class_anchor(e)) };
    let tag = match &r { Ok(v) if *v == u64::MAX => "rew/saturated", Ok(0) => "rew/zero", Ok(_) => "rew/ok", Err(_) => "rew/err" };
    emit(tag, &format!("Rew {} {} {} {} {rs}", z(value), z(duration), z(aps), z(integral)));
}

fn class_code(c: u64) -> u64 {
    match c {
        6000 => 1,
        6001 => 2,
        6002 => 3,
        6003 => 4,
        6004 => 5,
        2001 | 3010 => 7,
        3012 | 3007 | 3001 | 3002 | 3003 => 8,
        c => 100_000 + c,
    }
}
fn class_anchor(e: &anchor_lang::error::Error) -> u64 {
    match e {
        anchor_lang::error::Error::AnchorError(a) => class_code(a.error_code_number as u64),
        _ => 91,
    }
}

fn token_account_bytes(mint: &Pubkey, owner: &Pubkey, amount: u64) -> Vec<u8> {
    let mut v = vec![0u8; 165];
    v[0..32].copy_from_slice(mint.as_ref());
    v[32..64].copy_from_slice(owner.as_ref());
    v[64..72].copy_from_slice(&amount.to_le_bytes());
    v[108] = 1; // AccountState::Initialized
    v
}
fn mint_bytes(decimals: u8) -> Vec<u8> {
    let mut v = vec![0u8; 82];
    v[36..44].copy_from_slice(&1_000_000_000_000u64.to_le_bytes());
    v[44] = decimals;
    v[45] = 1;
    v
}

const A_GS: usize = 0;
const A_CTRL: usize = 1;
const A_MINT: usize = 2;
const A_STORE: usize = 3;
const A_GTPROG: usize = 4;
const A_POS: usize = 5;
const A_VAULT: usize = 6;
const A_OWNER: usize = 7;
const A_GTUSER: usize = 8;
const A_USERTOK: usize = 9;
const A_EVAUTH: usize = 10;
const A_TOKPROG: usize = 11;
const A_AUTH: usize = 12;
const A_BADAUTH: usize = 13;

fn history(rng: &mut Rng) {
    let pid = lp::ID;
    let store_pid = gmsol_programs::gmsol_store::ID;
    let token_pid = Pubkey::from_str("TokenkegQfeZyiNwAJbNbGKPFXCWuBvf9Ss623VQ5DA").unwrap();
    let (gs_key, gs_bump) = Pubkey::find_program_address(&[lp::GLOBAL_STATE_SEED], &pid);
    let authority = key(1);
    let owner = key(2);
    let ctrl_key = key(3);
    let mint_key = key(4);
    let store_key = key(5);
    let position_id: u64 = rng.below(5);
    let (pos_key, pos_bump) = Pubkey::find_program_address(&[lp::POSITION_SEED, ctrl_key.as_ref(), owner.as_ref(), &position_id.to_le_bytes()], &pid);
    let (vault_key, _) = Pubkey::find_program_address(&[lp::VAULT_SEED, pos_key.as_ref()], &pid);

    // ---- initial configuration ----
    let grad = gen_grad(rng, true);
    let arr = grad.arr();
    let unit_small = rng.chance(1, 3);
    let scale: u128 = if unit_small { 1 } else { UNIT / 1000 };
    let min_stake: u128 = match rng.below(5) { 0 => 0, 1 => scale * 1000 * (1 + rng.below(50) as u128), _ => scale * (1 + rng.below(2000) as u128) };
    let claim0 = rng.chance(1, 2);
    let enabled = rng.chance(2, 3);
    let t_stake: i64 = 1_700_000_000 + rng.below(10_000_000) as i64;
    let c_stake: u128 = rng.below(1_000_000) as u128 * UNIT;
    let amount0: u64 = match rng.below(6) { 0 => 1, 1 => u64::MAX - rng.below(3), _ => 1 + rng.below(1_000_000) };
    let value0: u128 = match rng.below(8) { 0 => min_stake, 1 => rng.uint(128), 2 => u128::MAX / 2 + rng.below(1000) as u128, _ => min_stake + scale * rng.below(100_000) as u128 + rng.below(1000) as u128 };
    let dis_at: i64 = t_stake + if rng.chance(1, 6) { -(rng.below(1000) as i64) } else { rng.below(60_000_000) as i64 };
    let dis_cum: u128 = if rng.chance(1, 8) { c_stake.saturating_sub(1) } else { c_stake + rng.below(50_000_000) as u128 * (UNIT / 10) };
    let npos0: u64 = if rng.chance(1, 10) { 0 } else { 1 + rng.below(5) };
    let dust0: u64 = if rng.chance(1, 4) { rng.below(1000) } else { 0 };
    let vault0 = amount0.saturating_add(dust0);

    // GlobalState bytes (borsh): authority, pending_authority, apy_gradient[53], min_stake_value, claim_enabled, bump, staleness, reserved vec
    let mut gs = lp::GlobalState::DISCRIMINATOR.to_vec();
    gs.extend_from_slice(authority.as_ref());
    gs.extend_from_slice(Pubkey::default().as_ref());
    for v in arr.iter() { gs.extend_from_slice(&v.to_le_bytes()); }
    gs.extend_from_slice(&min_stake.to_le_bytes());
    gs.push(claim0 as u8);
    gs.push(gs_bump);
    gs.extend_from_slice(&300u32.to_le_bytes());
    gs.extend_from_slice(&0u32.to_le_bytes());
    // LpTokenController
    let mut ct = lp::LpTokenController::DISCRIMINATOR.to_vec();
    ct.extend_from_slice(gs_key.as_ref());
    ct.extend_from_slice(mint_key.as_ref());
    ct.extend_from_slice(&0u64.to_le_bytes());
    ct.extend_from_slice(&npos0.to_le_bytes());
    ct.push(enabled as u8);
    ct.extend_from_slice(&(if enabled { 0i64 } else { dis_at }).to_le_bytes());
    ct.extend_from_slice(&(if enabled { 0u128 } else { dis_cum }).to_le_bytes());
    ct.push(7);
    ct.extend_from_slice(&0u32.to_le_bytes());
    // Position
    let mut ps = lp::Position::DISCRIMINATOR.to_vec();
    ps.extend_from_slice(owner.as_ref());
    ps.extend_from_slice(ctrl_key.as_ref());
    ps.extend_from_slice(mint_key.as_ref());
    ps.extend_from_slice(vault_key.as_ref());
    ps.extend_from_slice(&position_id.to_le_bytes());
    ps.extend_from_slice(&amount0.to_le_bytes());
    ps.extend_from_slice(&value0.to_le_bytes());
    ps.extend_from_slice(&t_stake.to_le_bytes());
    ps.extend_from_slice(&c_stake.to_le_bytes());
    ps.push(pos_bump);
    ps.extend_from_slice(&0u32.to_le_bytes());
    // store / gt user (declare_program types of gmsol_programs)
    use gmsol_programs::gmsol_store::accounts::{Store as PStore, UserHeader as PUser};
    let mut st = PStore::DISCRIMINATOR.to_vec();
    st.extend_from_slice(&vec![0u8; std::mem::size_of::<PStore>()]);
    let mut gu = PUser::DISCRIMINATOR.to_vec();
    {
        let mut u: PUser = bytemuck::Zeroable::zeroed();
        u.owner = owner;
        u.store = store_key;
        gu.extend_from_slice(bytemuck::bytes_of(&u));
    }
    let mut store = vec![
        Acct::with_data(gs_key, pid, &gs),
        Acct::with_data(ctrl_key, pid, &ct),
        Acct::with_data(mint_key, token_pid, &mint_bytes(6)),
        Acct::with_data(store_key, store_pid, &st),
        Acct::program(store_pid),
        Acct::with_data(pos_key, pid, &ps),
        Acct::with_data(vault_key, token_pid, &token_account_bytes(&mint_key, &gs_key, vault0)),
        Acct::wallet(owner, 1_000_000),
        Acct::with_data(key(6), store_pid, &gu),
        Acct::with_data(key(7), token_pid, &token_account_bytes(&mint_key, &owner, 0)),
        Acct::wallet(key(8), 1),
        Acct::program(token_pid),
        Acct::wallet(authority, 1_000_000),
        Acct::wallet(key(9), 1_000_000),
    ];
    let _ = system_program::ID;

    let head = format!(
        "{} {} {} {} {} {} {} {} {} {} {} {}",
        grad.term(), z(min_stake), b(claim0), b(enabled), z(if enabled { 0 } else { dis_at }), z(if enabled { 0 } else { dis_cum }), z(npos0),
        z(amount0), z(value0), z(t_stake), z(c_stake), z(vault0)
    );

    let mut now = t_stake;
    let mut cum = c_stake;
    let nops = 2 + rng.below(14) as usize;
    let mut out: Vec<String> = vec![];
    let (mut n_partial, mut n_full, mut n_promoted, mut n_claim, mut n_err, mut n_grad) = (0, 0, 0, 0, 0, 0);
    for _ in 0..nops {
        now = now.saturating_add(match rng.below(8) { 0 => 0, 1 => rng.below(100) as i64, 2 => WEEK * rng.below(60) as i64, 3 if rng.chance(1, 5) => -(rng.below(100_000) as i64), _ => rng.below(3_000_000) as i64 });
        cum = if rng.chance(1, 25) { cum.saturating_sub(1 + rng.below(100) as u128) } else { cum.saturating_add(rng.below(3_000_000) as u128 * (UNIT / 100)) };
        g6rt::set_now(now);
        g6rt::set_return_data(Some((store_pid, cum.to_le_bytes().to_vec())));
        g6rt::take_cpi_log();
        let pos_now = lp::Position::try_deserialize(&mut store[A_POS].data()).ok();
        let kind = rng.below(100);
        let (opstr, res, is_grad) = if kind < 8 {
            let bflag = rng.chance(1, 2);
            let ok = !rng.chance(1, 6);
            let data = lp::instruction::SetClaimEnabled { enabled: bflag }.data();
            let r = g6rt::run(lp::entry, &pid, &mut store, &[m(A_GS, false, true), m(if ok { A_AUTH } else { A_BADAUTH }, true, false)], &data);
            (format!("SetClaim {} {}", b(bflag), b(ok)), r, false)
        } else if kind < 14 {
            let v: u128 = match rng.below(4) { 0 => 0, 1 => rng.uint(128), _ => scale * rng.below(3000) as u128 };
            let ok = !rng.chance(1, 6);
            let data = lp::instruction::UpdateMinStakeValue { new_min_stake_value: v }.data();
            let r = g6rt::run(lp::entry, &pid, &mut store, &[m(A_GS, false, true), m(if ok { A_AUTH } else { A_BADAUTH }, true, false)], &data);
            (format!("SetMin {} {}", z(v), b(ok)), r, false)
        } else if kind < 20 {
            let n = rng.below(4) as usize;
            let mut idx: Vec<u8> = (0..n).map(|_| if rng.chance(1, 10) { 53 + rng.below(3) as u8 } else { rng.below(53) as u8 }).collect();
            let vals: Vec<u128> = (0..n).map(|_| if rng.chance(1, 8) { APY_MAX + 1 + rng.below(5) as u128 } else { rng.below(2_000_001) as u128 * (UNIT / 1_000_000) }).collect();
            if rng.chance(1, 8) { idx.push(1); }
            let data = lp::instruction::UpdateApyGradientSparse { bucket_indices: idx.clone(), apy_values: vals.clone() }.data();
            let r = g6rt::run(lp::entry, &pid, &mut store, &[m(A_GS, false, true), m(A_AUTH, true, false)], &data);
            (format!("GradSparse {} {}", zlc(&idx), zlc(&vals)), r, true)
        } else if kind < 26 {
            let s = rng.below(53) as u8;
            let e = if rng.chance(1, 8) { 53 } else if rng.chance(1, 8) { s.saturating_sub(1) } else { (s + rng.below(4) as u8).min(52) };
            let n = if rng.chance(1, 8) { rng.below(4) as usize } else { (e as usize + 1).saturating_sub(s as usize) };
            let vals: Vec<u128> = (0..n).map(|_| if rng.chance(1, 10) { APY_MAX + 1 } else { rng.below(2_000_001) as u128 * (UNIT / 1_000_000) }).collect();
            let data = lp::instruction::UpdateApyGradientRange { start_bucket: s, end_bucket: e, apy_values: vals.clone() }.data();
            let r = g6rt::run(lp::entry, &pid, &mut store, &[m(A_GS, false, true), m(A_AUTH, true, false)], &data);
            (format!("GradRange {} {} {}", s, e, zlc(&vals)), r, true)
        } else if kind < 32 {
            let k = 1 + rng.below(50);
            // somebody sends tokens to the vault (only while it exists)
            if store[A_VAULT].len == 165 {
                let a = u64::from_le_bytes(store[A_VAULT].data()[64..72].try_into().unwrap());
                if let Some(na) = a.checked_add(k) {
                    store[A_VAULT].data_mut()[64..72].copy_from_slice(&na.to_le_bytes());
                    (format!("Dust {k}"), Ok(()), false)
                } else { continue; }
            } else { continue; }
        } else if kind < 50 {
            let data = lp::instruction::ClaimGt { _position_id: position_id }.data();
            let r = g6rt::run(lp::entry, &pid, &mut store,
                &[m(A_GS, false, false), m(A_CTRL, false, false), m(A_STORE, false, true), m(A_GTPROG, false, false), m(A_POS, false, true),
                  m(A_OWNER, true, false), m(A_GTUSER, false, true), m(A_EVAUTH, false, false)], &data);
            if r.is_ok() { n_claim += 1; }
            (format!("Claim {} {}", z(now), z(cum)), r, false)
        } else {
            let old = pos_now.as_ref().map(|p| p.staked_amount).unwrap_or(10);
            let amt: u64 = match rng.below(10) {
                0 => 0,
                1 => old,
                2 => old.saturating_add(1),
                3 => old.saturating_sub(1),
                4 => old / 2,
                5 => 1,
                _ => 1 + rng.below(old.max(1)),
            };
            let data = lp::instruction::UnstakeLp { _position_id: position_id, unstake_amount: amt }.data();
            let r = g6rt::run(lp::entry, &pid, &mut store,
                &[m(A_GS, false, false), m(A_CTRL, false, true), m(A_MINT, false, false), m(A_STORE, false, true), m(A_GTPROG, false, false),
                  m(A_POS, false, true), m(A_VAULT, false, true), m(A_OWNER, true, true), m(A_GTUSER, false, true), m(A_USERTOK, false, true),
                  m(A_EVAUTH, false, false), m(A_TOKPROG, false, false)], &data);
            (format!("Unstake {} {} {}", z(amt), z(now), z(cum)), r, false)
        };
        let log = g6rt::take_cpi_log();
        let (mut e_mint, mut e_transfer, mut e_close) = (0u64, 0u64, false);
        let rc = match &res {
            Ok(()) => {
                for c in &log {
                    if c.program == store_pid && c.data.len() == 16 {
                        e_mint = u64::from_le_bytes(c.data[8..16].try_into().unwrap());
                    } else if c.program == token_pid && c.data[0] == 12 {
                        e_transfer = u64::from_le_bytes(c.data[1..9].try_into().unwrap());
                        assert_eq!(c.accounts[0], vault_key);
                        assert_eq!(c.accounts[2], key(7));
                        assert_eq!(c.data[9], 6);
                        // the driver plays the token program
                        let a = u64::from_le_bytes(store[A_VAULT].data()[64..72].try_into().unwrap());
                        store[A_VAULT].data_mut()[64..72].copy_from_slice(&(a - e_transfer).to_le_bytes());
                        let bq = u64::from_le_bytes(store[A_USERTOK].data()[64..72].try_into().unwrap());
                        store[A_USERTOK].data_mut()[64..72].copy_from_slice(&bq.wrapping_add(e_transfer).to_le_bytes());
                    } else if c.program == token_pid && c.data[0] == 9 {
                        e_close = true;
                        assert_eq!(c.accounts[0], vault_key);
                        let a = &mut store[A_VAULT];
                        a.len = 0;
                        a.lamports = 0;
                        a.owner = system_program::ID;
                    }
                }
                0
            }
            Err(e) => { n_err += 1; class_code(g6rt::err_code(e)) }
        };
        let pos_after = if store[A_POS].len > 0 && store[A_POS].owner == pid { lp::Position::try_deserialize(&mut store[A_POS].data()).ok() } else { None };
        if rc == 0 && opstr.starts_with("Unstake") {
            match &pos_after {
                None => { n_full += 1; if let (Some(p), true) = (&pos_now, true) { if !opstr.starts_with(&format!("Unstake {} ", p.staked_amount)) { n_promoted += 1; } } }
                Some(_) => n_partial += 1,
            }
        }
        let ctrl = lp::LpTokenController::try_deserialize(&mut store[A_CTRL].data()).unwrap();
        let gsd = lp::GlobalState::try_deserialize(&mut store[A_GS].data()).unwrap();
        let vault_amt = if store[A_VAULT].len == 165 { u64::from_le_bytes(store[A_VAULT].data()[64..72].try_into().unwrap()) } else { 0 };
        let ps = match &pos_after { Some(p) => format!("(Some ({}, {}, {}, {}))", z(p.staked_amount), z(p.staked_value_usd), z(p.stake_start_time), z(p.cum_inv_cost)), None => "None".into() };
        if is_grad {
            n_grad += 1;
            out.push(format!("(Sp ({opstr}) (OGr {rc} {}))", zlc(&gsd.apy_gradient)));
        } else {
            out.push(format!("(Sp ({opstr}) (O {rc} {} {} {} {ps} {} {} {} {}))", z(e_mint), z(e_transfer), b(e_close), z(vault_amt), z(ctrl.total_positions), b(gsd.claim_enabled), z(gsd.min_stake_value)));
        }
    }
    let tag = format!("hist{}{}{}{}{}{}{}", if enabled { "" } else { "+disabled" }, if n_partial > 0 { "+partial" } else { "" }, if n_full > 0 { "+full" } else { "" },
        if n_promoted > 0 { "+promoted" } else { "" }, if n_claim > 0 { "+claim" } else { "" }, if n_grad > 0 { "+grad" } else { "" }, if n_err > 0 { "+err" } else { "" });
    emit(&tag, &format!("Hist {head} ({} :: nil)", out.join(" :: ")));
}

fn main() {
    let a = args();
    let mut rng = Rng::new(a.seed);
    g6rt::install();
    g6rt::quiet();
    for i in 0..a.n {
        match i % 10 {
            0..=3 => direct_twa(&mut rng),
            4 | 5 => direct_reward(&mut rng),
            _ => history(&mut rng),
        }
    }
    g6rt::finish();
}
