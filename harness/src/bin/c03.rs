//! C03 driver: price impact (pool/delta.rs, params/price_impact.rs, market/swap.rs swap_impact_value,
//! position.rs position_price_impact) on u64/9 and u128/20.
use gmsol_model::fixed::FixedPointOps;
use gmsol_model::market::SwapMarketExt;
use gmsol_model::params::PriceImpactParams;
use gmsol_model::pool::delta::{BalanceChange, PriceImpact};
use gmsol_model::{BalanceExt, PositionExt};
use gmsol_verif_harness::vmarket::{TestMarket, TestPool, TestPosition};
use gmsol_verif_harness::*;

fn err_code(e: &gmsol_model::Error) -> u32 {
    use gmsol_model::Error::*;
    match e {
        PowComputation => 1,
        Overflow => 2,
        Convert => 6,
        Computation(m) => match *m {
            "next delta long usd value" => 3,
            "next delta short usd value" => 4,
            "same side rebalance: negating delta" => 7,
            "cross over rebalance: negating delta" => 8,
            "delta long token usd value" => 9,
            "delta short token usd value" => 10,
            "calculating virtual open interest offset" => 11,
            "to opposite signed" => 12,
            "decreasing long amount" => 13,
            "decreasing short amount" => 14,
            _ => 99,
        },
        _ => 99,
    }
}

fn bc_name(bc: BalanceChange) -> &'static str {
    match bc {
        BalanceChange::Improved => "Improved",
        BalanceChange::Worsened => "Worsened",
        BalanceChange::Unchanged => "Unchanged",
    }
}

fn rv<S: std::fmt::Display>(r: &gmsol_model::Result<PriceImpact<S>>) -> String {
    match r {
        Ok(i) => format!("(Ok ({}, {}))", z(&i.value), bc_name(i.balance_change)),
        Err(e) => format!("(Err {})", err_code(e)),
    }
}

fn outcome<S: PartialOrd + Default>(r: &gmsol_model::Result<PriceImpact<S>>) -> &'static str {
    match r {
        Ok(i) => {
            let zero = S::default();
            match (i.balance_change, i.value > zero, i.value < zero) {
                (BalanceChange::Improved, true, _) => "improved-pos",
                (BalanceChange::Improved, _, true) => "improved-NEG",
                (BalanceChange::Improved, _, _) => "improved-zero",
                (BalanceChange::Worsened, _, true) => "worsened-neg",
                (BalanceChange::Worsened, true, _) => "worsened-POS",
                (BalanceChange::Worsened, _, _) => "worsened-zero",
                (BalanceChange::Unchanged, _, true) => "unchanged-neg",
                (BalanceChange::Unchanged, true, _) => "unchanged-POS",
                (BalanceChange::Unchanged, _, _) => "unchanged-zero",
            }
        }
        Err(_) => "fail",
    }
}

macro_rules! gen_for {
    ($fname:ident, $wname:ident, $U:ty, $S:ty, $W:expr, $DEC:expr) => {
        /// usd scenario: (long value, short value, delta long, delta short)
        fn $fname(rng: &mut Rng, kind: u64) {
            let w: u32 = $W;
            let dec: u8 = $DEC;
            let unit: $U = <$U as FixedPointOps<$DEC>>::UNIT;
            // exponent: unit multiples 0..3 (mostly 1 and 2)
            let n_exp: $U = *rng.pick(&[1, 1, 2, 2, 2, 3, 0]);
            // factors: tiny per-usd factors as configured in production, plus larger ones; pf > nf sometimes
            let fac = |r: &mut Rng| -> $U {
                match r.below(8) {
                    0 => 0,
                    1 => 1 + r.below(20) as $U,
                    2 => unit / 1_000_000_000 * (1 + r.below(1000) as $U) + r.below(7) as $U,
                    3 => unit / 100 * (1 + r.below(10) as $U),
                    4 => unit / 10 * (1 + r.below(10) as $U),
                    5 => unit,
                    6 => unit / 1_000_000 * (1 + r.below(1000) as $U),
                    _ => unit / 1000 * (1 + r.below(1000) as $U) + r.below(3) as $U,
                }
            };
            let nf = fac(rng);
            let pf = match rng.below(10) { 0 => nf, 1 => fac(rng), 2 => nf.saturating_add(1 + rng.below(1000) as $U), 3 | 4 => nf / 2, 5 => nf.saturating_sub(1), 6 => nf / 3 * 2, _ => (nf / 10) * (rng.below(10) as $U) };
            let params = PriceImpactParams::<$U>::builder().exponent(n_exp * unit).positive_factor(pf).negative_factor(nf).build();
            let pstr = format!("(MkPI {} {} {})", z(n_exp * unit), z(pf), z(nf));
            // magnitude of usd values so that diff^n stays (mostly) in range
            let cap_units: u128 = match (n_exp, w) {
                (0, _) | (1, 64) => 10_000_000_000,
                (1, _) => 1_000_000_000_000_000,
                (2, 64) => 130_000,
                (2, _) => 1_000_000_000,
                (_, 64) => 2_000,
                (_, _) => 1_000_000,
            };
            let val = |r: &mut Rng| -> $U {
                match r.below(16) {
                    0 => 0,
                    1 => unit,
                    2 => unit - 1 - r.below(5) as $U,
                    3 => unit + 1 + r.below(50) as $U,
                    4 => r.below(1000) as $U,
                    5 => (r.uint(w) as $U),
                    6 => 2 * unit + r.below(100) as $U,
                    _ => {
                        // k/1000 units with k uniform up to the cap, plus sub-milli noise
                        let k = (r.next128() % (cap_units * 1000)) as $U;
                        let k = if r.chance(1, 3) { k / 1000 } else { k };
                        k.saturating_mul(unit / 1000).saturating_add(r.below(100) as $U)
                    }
                }
            };
            // a pool (usd values) and a delta with structure
            let scen = |r: &mut Rng| -> ($U, $U, $S, $S) {
                let a = val(r);
                let bb = match r.below(8) { 0 => a, 1 | 2 => a.saturating_add(val(r)), 3 | 4 => a.saturating_sub(val(r) / 2), _ => val(r) };
                let (l, s) = if r.chance(1, 2) { (a, bb) } else { (bb, a) };
                let diff = l.abs_diff(s);
                let small = |r: &mut Rng| -> $U { match r.below(5) { 0 => 1, 1 => r.below(100) as $U, 2 => unit, 3 => diff / 2, _ => val(r) / 4 } };
                let to_s = |x: $U| -> $S { if x > <$S>::MAX as $U { <$S>::MAX } else { x as $S } };
                // signed change of (l - s): choose the kind of rebalance
                let heavy_long = l > s;
                let (dl, ds): ($S, $S) = match r.below(9) {
                    // same side, improving: move less than diff toward balance
                    0 => { let m = to_s(small(r).min(diff)); if heavy_long { if r.chance(1,2) { (-m, 0) } else { (0, m) } } else { if r.chance(1,2) { (m, 0) } else { (0, -m) } } }
                    // same side, worsening
                    1 => { let m = to_s(small(r)); if heavy_long { (m, 0) } else { (0, m) } }
                    // cross over: move between diff and 2*diff (improving) on the light side
                    2 => { let m = to_s(diff.saturating_add(small(r).min(diff))); if heavy_long { (0, m) } else { (m, 0) } }
                    // cross over exactly to the mirror image (unchanged magnitude) +-1
                    3 => { let m = to_s(diff.saturating_mul(2).saturating_add(r.below(3) as $U).saturating_sub(1)); if heavy_long { (0, m) } else { (m, 0) } }
                    // cross over, worsening
                    4 => { let m = to_s(diff.saturating_mul(2).saturating_add(small(r))); if heavy_long { (0, m) } else { (m, 0) } }
                    // both sides move (swap): +x on one, -y on the other
                    5 => { let m = to_s(small(r)); let k = to_s(small(r)); if r.chance(1,2) { (m, -k) } else { (-m, k) } }
                    // exactly balance
                    6 => { let m = to_s(diff); if heavy_long { (0, m) } else { (m, 0) } }
                    7 => if r.chance(1, 4) { (0, 0) } else { let m = to_s(small(r)); if r.chance(1,2) { (m, 0) } else { (0, -m.min(to_s(s))) } },
                    _ => if r.chance(1, 3) { (r.sint(w) as $S, r.sint(w) as $S) } else { let m = to_s(val(r) / 3); if heavy_long { (-m.min(to_s(l)), 0) } else { (0, -m.min(to_s(s))) } },
                };
                (l, s, dl, ds)
            };
            match kind {
                0 | 1 => {
                    // usd values directly (price one), or amounts * price with value deltas
                    let (l, s, dl, ds) = scen(rng);
                    let (plp, psp): ($U, $U) = if rng.chance(2, 3) { (1, 1) } else { (1 + rng.below(50) as $U, 1 + rng.below(50) as $U) };
                    let pool = TestPool::<$U> { long_amount: l / plp, short_amount: s / psp };
                    let r = pool.pool_delta_with_values(dl, ds, &plp, &psp).and_then(|d| d.price_impact::<$DEC>(&params));
                    emit(&format!("impact{w}/{}", outcome(&r)),
                         &format!("CImpact {w} {dec} {pstr} {} {} {} {} {} {} {}", z(pool.long_amount), z(pool.short_amount), z(plp), z(psp), z(dl), z(ds), rv(&r)));
                }
                2 => {
                    let (l, s, dl, ds) = scen(rng);
                    let (plp, psp): ($U, $U) = if rng.chance(1, 3) { (1, 1) } else { (1 + rng.below(50) as $U, 1 + rng.below(50) as $U) };
                    let pool = TestPool::<$U> { long_amount: l / plp, short_amount: s / psp };
                    let (dal, das) = (dl / plp as $S, ds / psp as $S);
                    let r = pool.pool_delta_with_amounts(&dal, &das, &plp, &psp).and_then(|d| d.price_impact::<$DEC>(&params));
                    emit(&format!("impactA{w}/{}", outcome(&r)),
                         &format!("CImpactA {w} {dec} {pstr} {} {} {} {} {} {} {}", z(pool.long_amount), z(pool.short_amount), z(plp), z(psp), z(dal), z(das), rv(&r)));
                }
                3 | 4 | 5 => {
                    // round trip A -> B -> A on the pool itself
                    let (mut l, mut s, mut dl, mut ds) = scen(rng);
                    let (mut plp, mut psp): ($U, $U) = if rng.chance(2, 3) { (1, 1) } else { (1 + rng.below(20) as $U, 1 + rng.below(20) as $U) };
                    if kind == 5 {
                        // rounding-sensitive: tiny same-side moves, so that the two legs' floors decide the total
                        plp = 1; psp = 1;
                        l = val(rng).saturating_add(unit); s = if rng.chance(1, 2) { 0 } else { l / (2 + rng.below(5) as $U) };
                        dl = 1 + rng.below(200) as $S; ds = 0;
                        if rng.chance(1, 2) { std::mem::swap(&mut l, &mut s); std::mem::swap(&mut dl, &mut ds); }
                        if rng.chance(1, 2) { dl = -dl; ds = -ds; }
                    }
                    let pool = TestPool::<$U> { long_amount: l / plp, short_amount: s / psp };
                    let (dal, das) = (dl / plp as $S, ds / psp as $S);
                    if dal == <$S>::MIN || das == <$S>::MIN { return; }
                    let mv = |x: $U, d: $S| -> Option<$U> { if d >= 0 { x.checked_add(d as $U) } else { x.checked_sub(d.unsigned_abs()) } };
                    let (Some(bl), Some(bs)) = (mv(pool.long_amount, dal), mv(pool.short_amount, das)) else { return };
                    let pool_b = TestPool::<$U> { long_amount: bl, short_amount: bs };
                    let r1 = pool.pool_delta_with_amounts(&dal, &das, &plp, &psp).and_then(|d| d.price_impact::<$DEC>(&params));
                    let r2 = pool_b.pool_delta_with_amounts(&(-dal), &(-das), &plp, &psp).and_then(|d| d.price_impact::<$DEC>(&params));
                    let tot = match (&r1, &r2) {
                        (Ok(a), Ok(b)) => { let t = a.value as i128 + b.value as i128; if t > 1 { "total-GT1" } else if t == 1 { "total-1" } else if t == 0 { "total-0" } else { "total-neg" } }
                        _ => "fail",
                    };
                    emit(&format!("round{w}/{tot}"),
                         &format!("CRound {w} {dec} {pstr} {} {} {} {} {} {} {} {}", z(pool.long_amount), z(pool.short_amount), z(plp), z(psp), z(dal), z(das), rv(&r1), rv(&r2)));
                }
                6 => {
                    // swap_impact_value on the harness market, with / without virtual inventory
                    let (l, s, dl, ds) = scen(rng);
                    let (plp, psp): ($U, $U) = if rng.chance(2, 3) { (1, 1) } else { (1 + rng.below(20) as $U, 1 + rng.below(20) as $U) };
                    let mut market = TestMarket::<$U, $DEC>::default();
                    market.config.swap_impact_params = params.clone();
                    market.primary = TestPool { long_amount: l / plp, short_amount: s / psp };
                    let vi: Option<TestPool<$U>> = match rng.below(5) {
                        0 => None,
                        1 => Some(market.primary),
                        2 => { let (vl, vs, _, _) = scen(rng); Some(TestPool { long_amount: vl / plp, short_amount: vs / psp }) }
                        // unbalanced in the other direction
                        3 => Some(TestPool { long_amount: market.primary.short_amount, short_amount: market.primary.long_amount }),
                        _ => Some(TestPool { long_amount: market.primary.long_amount.saturating_add(val(rng) / plp), short_amount: market.primary.short_amount }),
                    };
                    market.vi_swaps = vi;
                    let incl = rng.chance(4, 5);
                    let delta = match market.primary.pool_delta_with_values(dl, ds, &plp, &psp) { Ok(d) => d, Err(_) => return };
                    let r_real = market.swap_impact_value(&delta, false);
                    let r = market.swap_impact_value(&delta, incl);
                    let vis = match vi { Some(p) => format!("(Some ({}, {}))", z(p.long_amount), z(p.short_amount)), None => "None".to_string() };
                    let differs = match (&r_real, &r) { (Ok(a), Ok(b)) => a.value != b.value, (Ok(_), Err(_)) => true, _ => false };
                    emit(&format!("swap{w}/{}{}", outcome(&r), if differs { "-virtual" } else { "" }),
                         &format!("CSwap {w} {dec} {pstr} {} {} {} {} {} {} {vis} {} {} {}", z(market.primary.long_amount), z(market.primary.short_amount), z(plp), z(psp), z(dl), z(ds), b(incl), rv(&r_real), rv(&r)));
                }
                _ => {
                    // position_price_impact: open interest pools merged, usd price one
                    let (l, s, dl, ds) = scen(rng);
                    let mut market = TestMarket::<$U, $DEC>::default();
                    market.config.position_impact_params = params.clone();
                    let split = |r: &mut Rng, x: $U| -> ($U, $U) { let a = if r.chance(1, 3) { 0 } else { x / (1 + r.below(4) as $U) }; (a, x - a) };
                    let (oll, ols) = split(rng, l);
                    let (osl, oss) = split(rng, s);
                    market.open_interest = (TestPool { long_amount: oll, short_amount: ols }, TestPool { long_amount: osl, short_amount: oss });
                    let vi: Option<TestPool<$U>> = match rng.below(5) {
                        0 => None,
                        1 => Some(TestPool { long_amount: l, short_amount: s }),
                        2 => { let (vl, vs, _, _) = scen(rng); Some(TestPool { long_amount: vl, short_amount: vs }) }
                        3 => Some(TestPool { long_amount: s, short_amount: l }),
                        _ => Some(TestPool { long_amount: l.saturating_add(val(rng)), short_amount: s }),
                    };
                    market.vi_positions = vi;
                    let is_long = rng.chance(1, 2);
                    let sd: $S = if is_long { if dl != 0 { dl } else { ds } } else { if ds != 0 { ds } else { dl } };
                    let incl = rng.chance(4, 5);
                    let mut pos = if is_long { TestPosition::<$U, $DEC>::long(true) } else { TestPosition::<$U, $DEC>::short(true) };
                    let ops = pos.ops(&mut market);
                    let r_real = ops.position_price_impact(&sd, false);
                    let r = ops.position_price_impact(&sd, incl);
                    let vis = match vi { Some(p) => format!("(Some ({}, {}))", z(p.long_amount), z(p.short_amount)), None => "None".to_string() };
                    let differs = match (&r_real, &r) { (Ok(a), Ok(b)) => a.value != b.value, (Ok(_), Err(_)) => true, _ => false };
                    emit(&format!("posimpact{w}/{}{}", outcome(&r), if differs { "-virtual" } else { "" }),
                         &format!("CPosI {w} {dec} {pstr} {} {} {} {} {vis} {} {} {} {} {}", z(oll), z(ols), z(osl), z(oss), b(is_long), z(sd), b(incl), rv(&r_real), rv(&r)));
                }
            }
        }

        /// fixed replays of the two known findings through the real code
        fn $wname() {
            let w: u32 = $W; let dec: u8 = $DEC;
            let unit: $U = <$U as FixedPointOps<$DEC>>::UNIT;
            // (a) cross-over that improves the balance gets a negative impact:
            //     long 20u / short 10u, +19u short, e = 1, pf = 0.1, nf = 0.2
            let params = PriceImpactParams::<$U>::builder().exponent(unit).positive_factor(unit / 10).negative_factor(unit / 5).build();
            let pool = TestPool::<$U> { long_amount: 20 * unit, short_amount: 10 * unit };
            let r = pool.pool_delta_with_values(0, (19 * unit) as $S, &1, &1).and_then(|d| d.price_impact::<$DEC>(&params));
            emit("witness/cross-over-improved", &format!("CImpact {w} {dec} (MkPI {} {} {}) {} {} 1 1 0 {} {}", z(unit), z(unit / 10), z(unit / 5), z(20 * unit), z(10 * unit), z(19 * unit), rv(&r)));
            // (b) same-side round trip nets +1: pf = 0.02, nf = 0.03, diffs 2u+34 <-> 2u+50
            let params = PriceImpactParams::<$U>::builder().exponent(unit).positive_factor(unit / 50).negative_factor(unit / 100 * 3).build();
            let pool = TestPool::<$U> { long_amount: 2 * unit + 34, short_amount: 0 };
            let pool_b = TestPool::<$U> { long_amount: 2 * unit + 50, short_amount: 0 };
            let r1 = pool.pool_delta_with_amounts(&16, &0, &1, &1).and_then(|d| d.price_impact::<$DEC>(&params));
            let r2 = pool_b.pool_delta_with_amounts(&-16, &0, &1, &1).and_then(|d| d.price_impact::<$DEC>(&params));
            emit("witness/round-trip-plus-one", &format!("CRound {w} {dec} (MkPI {} {} {}) {} 0 1 1 16 0 {} {}", z(unit), z(unit / 50), z(unit / 100 * 3), z(2 * unit + 34), rv(&r1), rv(&r2)));
        }
    };
}

gen_for!(gen64, wit64, u64, i64, 64, 9);
gen_for!(gen128, wit128, u128, i128, 128, 20);

fn main() {
    let a = args();
    let mut rng = Rng::new(a.seed);
    wit64();
    wit128();
    for i in 0..a.n {
        let kind = (i as u64) % 8;
        if rng.chance(1, 2) { gen64(&mut rng, kind) } else { gen128(&mut rng, kind) }
    }
}
