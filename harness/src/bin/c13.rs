//! C13 driver: the real borrowing_factor_per_second (pure cases) and histories interleaving the real
//! IncreasePosition / DecreasePosition actions of several positions with UpdateBorrowingState, clock
//! advances, total_pending_borrowing_fees and per-position pending fees, on u64/9 and u128/20.
use gmsol_model::{
    params::fee::{BorrowingFeeKinkModelParamsForOneSide, BorrowingFeeParams},
    price::{Price, Prices},
    BorrowingFeeMarketExt, BorrowingFeeMarketMutExt, ClockKind, LiquidityMarketMutExt, MarketAction,
    PerpMarketMutExt, PositionExt, PositionMutExt,
};
use gmsol_verif_harness::vmarket::{TestMarket, TestMarketConfig, TestPool, TestPosition};
use gmsol_verif_harness::*;

fn ec(e: &gmsol_model::Error) -> u32 {
    use gmsol_model::Error::*;
    match e {
        Computation(_) => 1,
        Convert => 3,
        Overflow => 5,
        UnableToGetBorrowingFactorEmptyPoolValue => 6,
        _ => 9,
    }
}

const YEAR: u64 = 365 * 24 * 3600;

macro_rules! gen_for {
    ($fname:ident, $U:ty, $W:expr, $DEC:expr) => {
        mod $fname {
            use super::*;
            pub type U = $U;
            pub const W: u32 = $W;
            pub const DEC: u32 = $DEC;
            pub type M = TestMarket<U, $DEC>;
            pub type P = TestPosition<U, $DEC>;
            pub fn unit() -> U { (10 as U).pow(DEC) }
            /// token price scale: usd-unit per smallest token unit
            pub fn pscale() -> U { if W == 64 { 1 } else { 100_000_000_000 } }

            pub struct Cfg { pub exp_l: U, pub exp_s: U, pub fac_l: U, pub fac_s: U, pub skip: bool,
                             pub opt: U, pub base: U, pub above: U, pub oi_reserve: U, pub ignore_oi: bool, pub max_oi: U }
            impl Cfg {
                pub fn coq(&self) -> String {
                    format!("(BC {} {} {} {} {} {} {} {} {} {} {} {} {} {})", z(self.exp_l), z(self.exp_s), z(self.fac_l), z(self.fac_s), b(self.skip),
                        z(self.opt), z(self.base), z(self.above), z(self.opt), z(self.base), z(self.above), z(self.oi_reserve), b(self.ignore_oi), z(self.max_oi))
                }
                pub fn apply(&self, cfg: &mut TestMarketConfig<U, $DEC>) {
                    cfg.borrowing_fee_params = BorrowingFeeParams::builder()
                        .receiver_factor(unit() / 100 * 37)
                        .factor_for_long(self.fac_l).factor_for_short(self.fac_s)
                        .exponent_for_long(self.exp_l).exponent_for_short(self.exp_s)
                        .skip_borrowing_fee_for_smaller_side(self.skip)
                        .build();
                    cfg.borrowing_fee_kink_model_params = BorrowingFeeKinkModelParamsForOneSide::builder()
                        .optimal_usage_factor(self.opt).base_borrowing_factor(self.base)
                        .above_optimal_usage_borrowing_factor(self.above).build();
                    cfg.open_interest_reserve_factor = self.oi_reserve;
                    cfg.ignore_open_interest_for_usage_factor = self.ignore_oi;
                    cfg.max_open_interest = self.max_oi;
                }
            }

            pub fn gen_cfg(rng: &mut Rng, wild: bool) -> Cfg {
                let unit = unit();
                let exp = |rng: &mut Rng| match rng.below(10) { 0 => 0, 1 | 2 => 2 * unit, _ => unit };
                let fac = |rng: &mut Rng| -> U { match rng.below(8) { 0 => 0, 1 if wild => rng.uint(W) as U, _ => (unit / 1_000_000_000) * rng.range(1, 2000) as U + rng.below(50) as U } };
                let per_year = |x: U| x / (YEAR as U);
                let opt: U = match rng.below(10) { 0 | 1 | 2 => 0, 3 => unit, 4 if wild => unit + unit / 2, 5 if wild => 1, _ => unit / 100 * rng.range(30, 95) as U };
                let base: U = match rng.below(8) { 0 => 0, 1 if wild => rng.uint(W) as U, _ => per_year(unit / 10 * rng.range(1, 20) as U) };
                let above: U = match rng.below(8) { 0 => 0, 1 => base, 2 if wild => rng.uint(W) as U, _ => per_year(unit / 10 * rng.range(5, 50) as U) };
                let oi_reserve: U = match rng.below(10) { 0 if wild => 0, 1 if wild => rng.uint(W) as U, 2 => unit, _ => unit / 10 * rng.range(1, 20) as U };
                Cfg { exp_l: exp(rng), exp_s: exp(rng), fac_l: fac(rng), fac_s: fac(rng), skip: rng.chance(1, 2),
                      opt, base, above, oi_reserve, ignore_oi: rng.chance(3, 10), max_oi: 0 }
            }

            pub fn env(m: &M, pr: &Prices<U>) -> Option<String> {
                let oit = m.open_interest_in_tokens.0.long_amount.checked_add(m.open_interest_in_tokens.0.short_amount)?;
                let oil = m.open_interest.0.long_amount.checked_add(m.open_interest.0.short_amount)?;
                let ois = m.open_interest.1.long_amount.checked_add(m.open_interest.1.short_amount)?;
                Some(format!("(BE {} {} {} {} {} {} {} {})", z(oit), z(pr.index_token_price.max), z(oil), z(ois),
                    z(m.primary.long_amount), z(m.primary.short_amount), z(pr.long_token_price.min), z(pr.short_token_price.min)))
            }

            pub fn bfps_case(rng: &mut Rng) {
                let unit = unit();
                let wild = rng.chance(1, 4);
                let mut c = gen_cfg(rng, wild);
                // pool value and open interest in usd
                let k = rng.below(if W == 64 { 6 } else { 9 }) as u32 + 1;
                let pool_value: U = (rng.range(1, 9) as U) * (10 as U).pow(k) * unit;
                let price_l: U = pscale() * rng.range(1, 100_000) as U;
                let price_s: U = pscale() * rng.range(1, 3) as U;
                let idx: U = match rng.below(4) { 0 => price_l, _ => pscale() * rng.range(1, 100_000) as U };
                let frac = |rng: &mut Rng, v: U| -> U { match rng.below(8) { 0 => 0, 1 => v, 2 => v + v / 2, _ => v / 1000 * rng.below(1001) as U + rng.below(1000) as U } };
                let (mut oi_l, mut oi_s) = (frac(rng, pool_value), frac(rng, pool_value));
                if rng.chance(1, 8) { oi_s = oi_l; }            // equal sides: the smaller-side skip must not fire
                if rng.chance(1, 8) { oi_s = oi_l.saturating_add(1); }
                if wild && rng.chance(1, 3) { oi_l = rng.uint(W) as U / 2; }
                if wild && rng.chance(1, 3) { oi_s = rng.uint(W) as U / 2; }
                let oit_long: U = match rng.below(6) { 0 => 0, 1 if wild => rng.uint(W) as U, _ => oi_l / idx + rng.below(3) as U };
                c.max_oi = match rng.below(6) { 0 => 0, 1 => oi_l.max(oi_s), 2 if wild => rng.uint(W) as U, _ => pool_value * rng.range(1, 10) as U };
                let mut cfg = TestMarketConfig::<U, $DEC>::default();
                c.apply(&mut cfg);
                let mut m = M::with_config(cfg);
                m.primary = TestPool { long_amount: if rng.chance(1, 12) { 0 } else { pool_value / price_l }, short_amount: if rng.chance(1, 12) { 0 } else { pool_value / price_s } };
                let split = |rng: &mut Rng, v: U| -> (U, U) { let a = v / 100 * rng.below(101) as U; (a, v - a) };
                let (a, b_) = split(rng, oi_l); m.open_interest.0 = TestPool { long_amount: a, short_amount: b_ };
                let (a, b_) = split(rng, oi_s); m.open_interest.1 = TestPool { long_amount: a, short_amount: b_ };
                let (a, b_) = split(rng, oit_long); m.open_interest_in_tokens.0 = TestPool { long_amount: a, short_amount: b_ };
                let pr = Prices {
                    index_token_price: Price { min: idx - idx / 100, max: idx },
                    long_token_price: Price { min: price_l, max: price_l + price_l / 100 },
                    short_token_price: Price { min: price_s, max: price_s },
                };
                let is_long = rng.chance(1, 2);
                let Some(e) = env(&m, &pr) else { return; };
                let r = m.borrowing_factor_per_second(is_long, &pr);
                let (rs, tag) = match &r {
                    Ok(f) => (format!("(Ok {})", z(f)), if *f == 0 { "zero" } else { "pos" }),
                    Err(e) => (format!("(Err {})", ec(e)), "err"),
                };
                let kind = if c.opt == 0 { "exp" } else if c.opt >= unit { "kink_flat" } else { "kink" };
                emit(&format!("bfps{}_{kind}_{}/{tag}", W, if is_long { "l" } else { "s" }),
                    &format!("Bfps {} {} {} {} {} {}", W, DEC, c.coq(), e, b(is_long), rs));
            }

            fn bstate(m: &M) -> String {
                format!("(BS {} {} {} {} {})", z(m.borrowing_factor.long_amount), z(m.borrowing_factor.short_amount),
                    z(m.total_borrowing.long_amount), z(m.total_borrowing.short_amount), z(*m.clocks.get(&ClockKind::Borrowing).unwrap()))
            }
            fn bpos(x: &P) -> String { format!("(BP {} {} {})", b(x.is_long), z(x.size_in_usd), z(x.borrowing_factor)) }

            fn prices(rng: &mut Rng) -> Prices<U> {
                let p = pscale();
                let idx = p * 120 + p * rng.below(8) as U + if W == 128 { rng.below(1_000_000) as U } else { 0 };
                let spread = if rng.chance(1, 2) { 0 } else { p / if W == 64 { 1 } else { 1000 } };
                Prices {
                    index_token_price: Price { min: idx, max: idx + spread },
                    long_token_price: Price { min: idx, max: idx + spread },
                    short_token_price: Price { min: p, max: p },
                }
            }

            pub fn hist_case(rng: &mut Rng) {
                let unit = unit();
                let mut c = gen_cfg(rng, false);
                c.max_oi = if W == 64 { U::MAX } else { 1_000_000_000 * unit };
                if rng.chance(1, 2) { c.oi_reserve = unit; }
                let mut cfg = TestMarketConfig::<U, $DEC>::default();
                c.apply(&mut cfg);
                // keep position fees / impact out of the way of the borrowing projection? no: real defaults stay.
                let mut m = M::with_config(cfg);
                m.now = rng.below(1_000_000_000);
                m.clocks.insert(ClockKind::Borrowing, m.now);
                m.clocks.insert(ClockKind::Funding, m.now);
                m.clocks.insert(ClockKind::PriceImpactDistribution, m.now);
                let p0 = Prices { index_token_price: Price { min: pscale() * 120, max: pscale() * 120 },
                                  long_token_price: Price { min: pscale() * 120, max: pscale() * 120 },
                                  short_token_price: Price { min: pscale(), max: pscale() } };
                let dep_l: U = 1_000_000_000_000; let dep_s: U = 100_000_000_000_000;
                if m.deposit(dep_l, dep_s, p0).and_then(|a| a.execute()).is_err() { return; }
                // the cumulative factors may already be non-zero when the history starts
                if rng.chance(1, 2) {
                    m.borrowing_factor = TestPool { long_amount: rng.below(1_000_000) as U * (unit / 1_000_000_000).max(1), short_amount: rng.below(1_000_000) as U * (unit / 1_000_000_000).max(1) };
                }
                let mut xs: Vec<P> = (0..4).map(|i| if i % 2 == 0 { P::long(rng.chance(1, 2)) } else { P::short(rng.chance(1, 2)) }).collect();
                if rng.chance(1, 3) { xs[3] = P::long(true); }
                let s0 = bstate(&m);
                let xs0 = format!("[{}]", xs.iter().map(bpos).collect::<Vec<_>>().join("; "));
                let nops = rng.range(4, 14);
                let mut ops: Vec<String> = vec![];
                let (mut n_upd, mut n_inc, mut n_dec, mut n_fail, mut n_pend) = (0, 0, 0, 0, 0);
                for _ in 0..nops {
                    // time passes between operations
                    if rng.chance(2, 3) { m.now += match rng.below(4) { 0 => rng.below(10), 1 => rng.below(100_000), _ => rng.below(5_000) }; }
                    let pr = prices(rng);
                    match rng.below(20) {
                        0..=5 => {
                            let Some(e) = env(&m, &pr) else { continue; };
                            let snap = m.clone();
                            let now = m.now;
                            let r = m.update_borrowing(&pr).and_then(|a| a.execute());
                            let rs = match &r {
                                Ok(rep) => { n_upd += 1; format!("(Ok ({}, {}, {}))", z(rep.duration_in_seconds()), z(rep.next_cumulative_borrowing_factor(true)), z(rep.next_cumulative_borrowing_factor(false))) }
                                Err(er) => { n_fail += 1; let k = ec(er); m = snap; format!("(Err {k})") }
                            };
                            ops.push(format!("Upd {} {} {} {}", z(now), e, rs, bstate(&m)));
                        }
                        6..=10 => {
                            let i = rng.below(4) as usize;
                            let (sm, sx) = (m.clone(), xs[i]);
                            let coll: U = if xs[i].is_collateral_token_long { (rng.range(1, 100) as U) * 10_000_000_000 } else { (rng.range(1, 100) as U) * 1_000_000_000_000 };
                            let size: U = match rng.below(6) { 0 => 0, _ => (rng.range(1, 60) as U) * 1_000 * unit + (rng.below(1_000_000_000) as U) * (unit / 1_000_000_000) + rng.below(1000) as U };
                            let r = xs[i].ops(&mut m).increase(pr, coll, size, None).and_then(|a| a.execute());
                            let ok = r.is_ok();
                            if let (Err(er), true) = (&r, std::env::var("VERIF_LOUD").is_ok()) { eprintln!("inc fail coll={} size={}: {er}", coll, size); }
                            if ok { n_inc += 1 } else { n_fail += 1; m = sm; xs[i] = sx; }
                            ops.push(format!("PosOp {}%nat true {} {} {}", i, b(ok), bpos(&xs[i]), bstate(&m)));
                        }
                        11..=14 => {
                            let mut i = rng.below(4) as usize;
                            if rng.chance(9, 10) {
                                if xs.iter().all(|x| x.size_in_usd == 0) { continue; }
                                for k in 0..4 { if xs[(i + k) % 4].size_in_usd != 0 { i = (i + k) % 4; break; } }
                            }
                            let (sm, sx) = (m.clone(), xs[i]);
                            let cur = xs[i].size_in_usd;
                            let delta: U = match rng.below(6) { 0 => cur, 1 => cur / 2, 2 => cur / 4 + rng.below(1000) as U, 3 => cur.saturating_add(1), 4 => cur - cur / 7, _ => cur / (rng.range(1, 9) as U) };
                            let mut flags = gmsol_model::action::decrease_position::DecreasePositionFlags::default();
                            flags.is_cap_size_delta_usd_allowed = rng.chance(1, 2);
                            let r = xs[i].ops(&mut m).decrease(pr, delta, None, 0, flags).and_then(|a| a.execute());
                            let ok = r.is_ok();
                            if let (Err(er), true) = (&r, std::env::var("VERIF_LOUD").is_ok()) { eprintln!("dec fail size={} delta={}: {er}", cur, delta); }
                            if ok { n_dec += 1 } else { n_fail += 1; m = sm; xs[i] = sx; }
                            ops.push(format!("PosOp {}%nat false {} {} {}", i, b(ok), bpos(&xs[i]), bstate(&m)));
                        }
                        15..=17 => {
                            let Some(e) = env(&m, &pr) else { continue; };
                            let is_long = rng.chance(1, 2);
                            let passed = m.now.saturating_sub(*m.clocks.get(&ClockKind::Borrowing).unwrap());
                            let nc = m.next_cumulative_borrowing_factor(is_long, &pr, passed);
                            let r = m.total_pending_borrowing_fees(&pr, is_long);
                            let ncs = match &nc { Ok((f, d)) => format!("(Ok ({}, {}))", z(f), z(d)), Err(er) => format!("(Err {})", ec(er)) };
                            let rs = match &r { Ok(v) => format!("(Ok {})", z(v)), Err(er) => format!("(Err {})", ec(er)) };
                            n_pend += 1;
                            ops.push(format!("TPend {} {} {} {} {}", b(is_long), z(m.now), e, ncs, rs));
                        }
                        18 => {
                            // funding runs too (not part of the borrowing projection); positions must keep a defined pending funding fee
                            let snap = m.clone();
                            if m.update_funding(&pr).and_then(|a| a.execute()).is_err() { m = snap; }
                            for x in xs.iter_mut() {
                                if x.ops(&mut m).pending_funding_fees().is_err() {
                                    ops.push("PPend 99%nat (Err 99)".to_string()); // flagged by the oracle: pending funding failed
                                }
                            }
                        }
                        _ => {
                            let i = rng.below(4) as usize;
                            let r = xs[i].ops(&mut m).pending_borrowing_fee_value();
                            let rs = match &r { Ok(v) => format!("(Ok {})", z(v)), Err(er) => format!("(Err {})", ec(er)) };
                            n_pend += 1;
                            ops.push(format!("PPend {}%nat {}", i, rs));
                        }
                    }
                }
                let tag = if n_inc == 0 { "trivial".to_string() } else { format!("u{}i{}d{}f{}p{}", n_upd.min(3), n_inc.min(3), n_dec.min(3), n_fail.min(1), n_pend.min(1)) };
                emit(&format!("hist{}/{}", W, tag), &format!("Hist {} {} {} {} {} [{}]", W, DEC, c.coq(), s0, xs0, ops.join("; ")));
            }
        }
    };
}

gen_for!(g64, u64, 64, 9);
gen_for!(g128, u128, 128, 20);

fn main() {
    let a = args();
    if std::env::var("VERIF_LOUD").is_err() { silence_panics(); }
    let mut rng = Rng::new(a.seed);
    for i in 0..a.n {
        let hist = i % 2 == 1;
        match (rng.chance(1, 2), hist) {
            (true, false) => g64::bfps_case(&mut rng),
            (false, false) => g128::bfps_case(&mut rng),
            (true, true) => g64::hist_case(&mut rng),
            (false, true) => g128::hist_case(&mut rng),
        }
    }
}
