//! C26 driver: Decimal::try_from_price / to_unit_price / with_unit_price,
//! find_divisor_decimals / convert_to_u128_storage, Pyth conversions — all public API.
use gmsol_utils::oracle::{pyth_price_value_to_decimal, pyth_price_with_confidence_to_price, OracleError};
use gmsol_utils::price::{
    convert_to_u128_storage, find_divisor_decimals, Decimal, DecimalError, PriceFeedPrice, U192,
};
use gmsol_utils::token_config::TokenConfig;
use gmsol_verif_harness::*;

fn dec_res(r: &Result<Decimal, DecimalError>) -> String {
    match r {
        Ok(d) => format!("(Ok ({}, {}))", d.value, d.decimal_multiplier),
        Err(DecimalError::ExceedMaxDecimals) => "(Err 1)".into(),
        Err(DecimalError::Overflow) => "(Err 2)".into(),
        Err(_) => "(Err 99)".into(),
    }
}

fn oracle_err(e: &OracleError) -> u32 {
    match e {
        OracleError::InvalidPriceFeedPrice(s) => match *s {
            "mid_price" => 1,
            "min_price" => 2,
            "max_price" => 3,
            "exponent too small" => 4,
            "exponent too big" => 5,
            "price overflow" => 6,
            "converting to Decimal" => 7,
            _ => 99,
        },
    }
}

fn token_config(td: u8, p: u8) -> TokenConfig {
    let mut tc: TokenConfig = bytemuck::Zeroable::zeroed();
    tc.token_decimals = td;
    tc.precision = p;
    tc
}

fn pow10(e: u32) -> u128 {
    10u128.checked_pow(e).unwrap_or(u128::MAX)
}

/// (decimals, token_decimals, precision): mostly valid, sometimes at / beyond the limits.
fn gen_decs(rng: &mut Rng) -> (u8, u8, u8) {
    match rng.below(10) {
        0 => (rng.below(256) as u8, rng.below(256) as u8, rng.below(256) as u8),
        1 => {
            // exactly one limit crossed by one
            let mut v = [rng.below(21) as u8, rng.below(11) as u8, rng.below(11) as u8];
            match rng.below(4) {
                0 => v[0] = 21,
                1 => v[1] = 21,
                2 => v[2] = 21,
                _ => {
                    v[1] = rng.below(21) as u8;
                    v[2] = 21 - v[1];
                }
            }
            (v[0], v[1], v[2])
        }
        2 => {
            // td + p = 20 exactly
            let td = rng.below(21) as u8;
            (rng.below(21) as u8, td, 20 - td)
        }
        3 => {
            let x = rng.below(21) as u8;
            (x, x, rng.below(21 - x as u64) as u8)
        }
        _ => {
            let td = rng.below(21) as u8;
            let p = rng.below(21 - td as u64) as u8;
            (rng.below(21) as u8, td, p)
        }
    }
}

/// A price whose converted value is interesting for (d, p): around the u32 limit,
/// around an exact multiple of the truncation divisor, or a boundary-heavy u128.
fn gen_price(rng: &mut Rng, d: u8, p: u8) -> u128 {
    let d = (d as u32).min(38);
    let p = (p as u32).min(38);
    let jitter = |r: &mut Rng, x: u128| x.wrapping_add(r.below(5) as u128).wrapping_sub(2);
    match rng.below(8) {
        0 => rng.uint(128),
        1 | 2 => {
            // value near 2^32: price ~ 2^32 * 10^(d-p)
            let v = (1u128 << 32).wrapping_add(rng.below(5) as u128).wrapping_sub(2);
            if d >= p {
                let x = v.saturating_mul(pow10(d - p));
                jitter(rng, x)
            } else {
                let q = pow10(p - d);
                let up = if rng.chance(1, 2) { 1 } else { 0 };
                jitter(rng, v / q + up)
            }
        }
        3 | 4 => {
            // multiple of the divisor +-1
            let v = rng.uint(32);
            if d >= p {
                let x = v.saturating_mul(pow10(d - p));
                jitter(rng, x)
            } else {
                rng.uint(32) / pow10((p - d).min(9))
            }
        }
        5 => {
            // near the u128 overflow of an intermediate product
            let e = rng.below(21) as u32;
            jitter(rng, u128::MAX / pow10(e))
        }
        6 => rng.uint(64),
        _ => rng.uint(96),
    }
}

/// Decimal string of a U192 (ruint is built without Display here).
fn u192s(x: &U192) -> String {
    let mut l = *x.as_limbs();
    if l == [0, 0, 0] { return "0".into(); }
    let mut chunks: Vec<u64> = vec![];
    const B: u128 = 10_000_000_000_000_000_000;
    while l != [0, 0, 0] {
        let mut rem: u128 = 0;
        for i in (0..3).rev() {
            let cur = (rem << 64) | l[i] as u128;
            l[i] = (cur / B) as u64;
            rem = cur % B;
        }
        chunks.push(rem as u64);
    }
    let mut s = format!("{}", chunks.pop().unwrap());
    while let Some(c) = chunks.pop() { s.push_str(&format!("{c:019}")); }
    s
}

fn u192_of(rng: &mut Rng) -> U192 {
    let m = U192::from(u128::MAX);
    let ten = U192::from(10u64);
    match rng.below(8) {
        0 | 1 | 2 => {
            // around a table entry (2^128-1)*10^i, and around the true threshold 2^128*10^i
            let i = rng.below(21);
            let base = if rng.chance(1, 2) { m } else { m + U192::from(1u64) };
            let Some(b) = base.checked_mul(ten.pow(U192::from(i))) else { return U192::MAX; };
            let k = U192::from(rng.below(12));
            if rng.chance(1, 2) { b.saturating_add(k) } else { b.saturating_sub(k) }
        }
        3 => {
            // inside the band (M*10^i, (M+1)*10^i)
            let i = rng.range(1, 19);
            let b = m * ten.pow(U192::from(i));
            let w = ten.pow(U192::from(i));
            let off = U192::from_limbs([rng.next(), rng.next(), 0]) % w;
            b + off
        }
        4 => U192::from(rng.uint(128)),
        5 => U192::MAX - U192::from(rng.below(3)),
        _ => {
            let l = rng.range(1, 192) as usize;
            let x = U192::from_limbs([rng.next(), rng.next(), rng.next()]);
            if l >= 192 { x } else { x & ((U192::from(1u64) << l) - U192::from(1u64)) }
        }
    }
}

fn main() {
    let a = args();
    if std::env::var("C26_LOUD").is_err() { silence_panics(); }
    let mut rng = Rng::new(a.seed);
    for i in 0..a.n {
        match (i as u64) % 10 {
            0 | 1 | 2 => {
                let (d, td, p) = gen_decs(&mut rng);
                let price = gen_price(&mut rng, d, p);
                let Some(r) = no_panic(move || Decimal::try_from_price(price, d, td, p)) else {
                    emit("try_from_price/panic", &format!("TryFromPrice {} {} {} {} (Err 9) None", z(price), d, td, p));
                    continue;
                };
                let u = match &r {
                    Ok(dec) => {
                        let dec = *dec;
                        no_panic(move || dec.to_unit_price())
                    }
                    Err(_) => None,
                };
                let tag = match &r {
                    Ok(dec) if dec.value == 0 => "try_from_price/ok_zero",
                    Ok(_) => "try_from_price/ok",
                    Err(DecimalError::ExceedMaxDecimals) => "try_from_price/err_decimals",
                    Err(_) => "try_from_price/err_overflow",
                };
                emit(tag, &format!("TryFromPrice {} {} {} {} {} {}", z(price), d, td, p, dec_res(&r), oz(u)));
            }
            3 => {
                let v = rng.uint(32) as u32;
                let m = match rng.below(6) { 0 => rng.below(256) as u8, 1 => rng.range(36, 40) as u8, 2 => rng.range(27, 30) as u8, _ => rng.below(21) as u8 };
                let dec = Decimal { value: v, decimal_multiplier: m };
                let u = no_panic(move || dec.to_unit_price());
                emit(if u.is_some() { "to_unit/ok" } else { "to_unit/panic" }, &format!("ToUnit {v} {m} {}", oz(u)));
            }
            4 | 5 => {
                let m = match rng.below(8) { 0 => rng.below(256) as u8, 1 => rng.range(36, 40) as u8, _ => rng.below(21) as u8 };
                let mu = pow10(m as u32);
                let price = match rng.below(6) {
                    0 => rng.uint(128),
                    1 | 2 => (rng.uint(32)).saturating_mul(mu).wrapping_add(rng.below(3) as u128).wrapping_sub(1),
                    3 => ((1u128 << 32) - rng.below(2) as u128).saturating_mul(mu).wrapping_add(rng.below(3) as u128).wrapping_sub(1),
                    _ => (rng.uint(32)).saturating_mul(mu).saturating_add(rng.uint(64) % mu.max(1)),
                };
                let ru = rng.chance(1, 2);
                let dec = Decimal { value: 7, decimal_multiplier: m };
                let r = no_panic(move || dec.with_unit_price(price, ru));
                let (tag, rs) = match &r {
                    Some(Some(x)) => {
                        assert_eq!(x.decimal_multiplier, m);
                        ("with_unit/ok", format!("(Ok {})", x.value))
                    }
                    Some(None) => ("with_unit/none", "(Err 1)".to_string()),
                    None => ("with_unit/panic", "(Err 9)".to_string()),
                };
                emit(tag, &format!("WithUnit {m} {} {} {rs}", z(price), b(ru)));
            }
            6 => {
                let (d, td, p) = gen_decs(&mut rng);
                let x = gen_price(&mut rng, d, p);
                let y = match rng.below(4) { 0 => gen_price(&mut rng, d, p), 1 => x, 2 => x.wrapping_add(rng.uint(32)), _ => x.wrapping_sub(rng.below(1000) as u128) };
                let (mn, mx) = if rng.chance(4, 5) { (x.min(y), x.max(y)) } else { (x, y) };
                let pfp = PriceFeedPrice::new(d, 0, mn, mn, mx, 0);
                let tc = token_config(td, p);
                let Some(r) = no_panic(move || pfp.try_to_price(&tc)) else {
                    emit("feed_to_price/panic", &format!("FeedToPrice {} {} {d} {td} {p} (Err 9)", z(mn), z(mx)));
                    continue;
                };
                let (tag, rs) = match &r {
                    Ok(pr) => ("feed_to_price/ok", format!("(Ok (({}, {}), ({}, {})))", pr.min.value, pr.min.decimal_multiplier, pr.max.value, pr.max.decimal_multiplier)),
                    Err(DecimalError::ExceedMaxDecimals) => ("feed_to_price/err_decimals", "(Err 1)".to_string()),
                    Err(DecimalError::Overflow) => ("feed_to_price/err_overflow", "(Err 2)".to_string()),
                    Err(_) => ("feed_to_price/err", "(Err 99)".to_string()),
                };
                emit(tag, &format!("FeedToPrice {} {} {d} {td} {p} {rs}", z(mn), z(mx)));
            }
            7 => {
                let num = u192_of(&mut rng);
                if rng.chance(1, 2) {
                    let k = find_divisor_decimals(&num);
                    emit(&format!("find_div/k{}", if k == 0 { "0" } else if k == 20 { "20" } else { "mid" }), &format!("FindDiv {} {k}", u192s(&num)));
                } else {
                    let k = find_divisor_decimals(&num);
                    let decimals = match rng.below(4) { 0 => k, 1 => k.wrapping_sub(1), 2 => rng.below(256) as u8, _ => rng.range(k as u64, 30) as u8 };
                    let r = no_panic(move || convert_to_u128_storage(num, decimals));
                    let (tag, rs) = match &r {
                        Some(Some((q, dd))) => ("conv_u128/ok", format!("(Ok ({q}, {dd}))")),
                        Some(None) => ("conv_u128/none", "(Err 1)".to_string()),
                        None => ("conv_u128/panic", "(Err 9)".to_string()),
                    };
                    emit(tag, &format!("ConvU128 {} {decimals} {rs}", u192s(&num)));
                }
            }
            8 => {
                let exponent: i32 = match rng.below(10) {
                    0 => rng.sint(32) as i32,
                    1 => *rng.pick(&[i32::MIN, i32::MAX, -255, -256, -21, -20, 19, 20, 0, 1]),
                    2 => rng.range(1, 21) as i32,
                    _ => -(rng.below(21) as i32),
                };
                let (_, td, p) = gen_decs(&mut rng);
                let value = match rng.below(4) {
                    0 => rng.uint(64) as u64,
                    1 if exponent > 0 && exponent < 20 => (u64::MAX / 10u64.pow(exponent as u32)).wrapping_add(rng.below(3)).wrapping_sub(1),
                    _ => gen_price(&mut rng, (-exponent.max(-38).min(0)) as u8, p) as u64,
                };
                let tc = token_config(td, p);
                let r = no_panic(move || pyth_price_value_to_decimal(value, exponent, &tc));
                let (tag, rs) = match &r {
                    Some(Ok(d)) => ("pyth_val/ok".to_string(), format!("(Ok ({}, {}))", d.value, d.decimal_multiplier)),
                    Some(Err(e)) => (format!("pyth_val/err{}", oracle_err(e)), format!("(Err {})", oracle_err(e))),
                    None => ("pyth_val/panic".to_string(), "(Err 9)".to_string()),
                };
                emit(&tag, &format!("PythVal {value} {} {td} {p} {rs}", z(exponent)));
            }
            _ => {
                let exponent: i32 = match rng.below(10) {
                    0 => *rng.pick(&[i32::MIN, i32::MAX, -255, -256, -21, 19, 20]),
                    1 => rng.range(1, 12) as i32,
                    _ => -(rng.below(21) as i32),
                };
                let (_, td, p) = gen_decs(&mut rng);
                let price: i64 = match rng.below(6) {
                    0 => rng.sint(64) as i64,
                    _ => (gen_price(&mut rng, (-exponent.max(-38).min(0)) as u8, p) as u64 >> 1) as i64,
                };
                let conf: u64 = match rng.below(6) {
                    0 => rng.uint(64) as u64,
                    1 => price.max(0) as u64,
                    2 => (price.max(0) as u64).wrapping_add(1),
                    3 => (u64::MAX - price.max(0) as u64).wrapping_add(rng.below(2)),
                    4 => 0,
                    _ => (price.max(0) as u64) / rng.range(2, 5000),
                };
                let tc = token_config(td, p);
                let r = no_panic(move || pyth_price_with_confidence_to_price(price, conf, exponent, &tc));
                let (tag, rs) = match &r {
                    Some(Ok(pr)) => ("pyth_conf/ok".to_string(), format!("(Ok (({}, {}), ({}, {})))", pr.min.value, pr.min.decimal_multiplier, pr.max.value, pr.max.decimal_multiplier)),
                    Some(Err(e)) => (format!("pyth_conf/err{}", oracle_err(e)), format!("(Err {})", oracle_err(e))),
                    None => ("pyth_conf/panic".to_string(), "(Err 9)".to_string()),
                };
                emit(&tag, &format!("PythConf {} {conf} {} {td} {p} {rs}", z(price), z(exponent)));
            }
        }
    }
}
