//! C32 driver: builder fee helpers (ops/order.rs, through cfg(gmsol_verif) wrappers),
//! Order::record_builder_fee, and the REAL settle_builder_fee instruction run in-process through
//! the program entrypoint (g9rt account arena; SPL-token transfer_checked emulated by a CPI
//! dispatcher on the token-account bytes).
use anchor_lang::prelude::*;
use anchor_lang::solana_program::instruction::Instruction;
use anchor_lang::{Discriminator, InstructionData};
use gmsol_model::action::decrease_position::DecreasePositionSwapType;
use gmsol_model::price::Price;
use gmsol_programs::gmsol_store::accounts as sdk;
use gmsol_store::ops::order::verif_hooks_g1 as hk;
use gmsol_store::states::Order;
use gmsol_verif_harness::g9rt::{self, Arena};
use gmsol_verif_harness::{args, emit, z, Rng};

const UNIT: u128 = 100_000_000_000_000_000_000;

fn code(e: &anchor_lang::error::Error) -> u32 {
    match e {
        anchor_lang::error::Error::AnchorError(a) => match a.error_name.as_str() {
            "TokenAmountOverflow" => 2,
            "BuilderFeeExceedsCollateral" => 3,
            "BuilderFeeSwapTypeNotAllowed" => 4,
            _ => 99,
        },
        _ => 99,
    }
}
fn rz<T: std::fmt::Display>(r: &anchor_lang::Result<T>) -> String {
    match r { Ok(v) => format!("(Ok {})", z(v)), Err(e) => format!("(Err {})", code(e)) }
}
fn r2(r: &anchor_lang::Result<(u64, u64)>) -> String {
    match r { Ok((a, b)) => format!("(Ok ({a}, {b}))"), Err(e) => format!("(Err {})", code(e)) }
}

// ---------------------------------------------------------------- operand generators
fn factor(r: &mut Rng) -> u128 {
    match r.below(12) {
        0 => 0,
        1 => 1,
        2 => UNIT,
        3 => r.uint(128),
        4 => UNIT / 100 * (1 + r.below(20) as u128),
        5 => UNIT / 1_000_000 * (1 + r.below(10_000) as u128),
        _ => UNIT / 10_000 * (1 + r.below(100) as u128), // 1bp .. 1%
    }
}
fn size(r: &mut Rng) -> u128 {
    match r.below(12) {
        0 => 0,
        1 => r.uint(128),
        2 => u128::MAX / UNIT * UNIT,
        3 => UNIT / 1000 * (r.below(1_000_000) as u128),
        4 => UNIT * (r.below(1_000_000) as u128) + r.below(3) as u128,
        _ => UNIT * (1 + r.below(10_000_000) as u128) / (1 + r.below(7) as u128), // $1 .. $10M
    }
}
fn price(r: &mut Rng) -> Price<u128> {
    let min: u128 = match r.below(12) {
        0 => 0,
        1 => 1,
        2 => r.uint(128),
        3 => 10u128.pow(r.below(25) as u32),
        // unit price of a 6..9-decimals token worth $0.01 .. $100k
        _ => UNIT / 10u128.pow(6 + r.below(4) as u32) / 100 * (1 + r.below(10_000_000) as u128),
    };
    let max = match r.below(3) { 0 => min, 1 => min.saturating_add(min / 100 + 1), _ => min.saturating_add(r.below(1000) as u128) };
    Price { min, max }
}

// ---------------------------------------------------------------- mini runtime for settle_builder_fee
fn mint_data(decimals: u8) -> Vec<u8> {
    let mut d = vec![0u8; 82];
    d[36..44].copy_from_slice(&u64::MAX.to_le_bytes()); // supply
    d[44] = decimals;
    d[45] = 1; // is_initialized
    d
}
fn token_account_data(mint: Pubkey, owner: Pubkey, amount: u64) -> Vec<u8> {
    let mut d = vec![0u8; 165];
    d[0..32].copy_from_slice(mint.as_ref());
    d[32..64].copy_from_slice(owner.as_ref());
    d[64..72].copy_from_slice(&amount.to_le_bytes());
    d[108] = 1; // AccountState::Initialized
    d
}
fn token_amount(data: &[u8]) -> u64 { u64::from_le_bytes(data[64..72].try_into().unwrap()) }

struct World {
    arena: Arena,
    store: usize, order: usize, mint: usize, escrow: usize, user: usize, vault: usize,
    token_prog: usize, ev_auth: usize, prog: usize,
}

fn zc<T: bytemuck::Pod>(disc: &[u8], v: &T) -> Vec<u8> {
    let mut d = Vec::with_capacity(8 + std::mem::size_of::<T>());
    d.extend_from_slice(disc);
    d.extend_from_slice(bytemuck::bytes_of(v));
    d
}

fn world(decimals: u8) -> World {
    let pid = gmsol_store::ID;
    let tok = anchor_spl::token::ID;
    let mut arena = Arena::new();
    let store_key = g9rt::key(1);
    let order_key = g9rt::key(2);
    let mint_key = g9rt::key(3);
    let user_key = g9rt::key(4);
    let escrow_key = anchor_spl::associated_token::get_associated_token_address(&order_key, &mint_key);
    let vault_key = anchor_spl::associated_token::get_associated_token_address(&user_key, &mint_key);
    let (ev_auth, _) = Pubkey::find_program_address(&[b"__event_authority"], &pid);

    let store: sdk::Store = bytemuck::Zeroable::zeroed();
    let mut order: sdk::Order = bytemuck::Zeroable::zeroed();
    order.header.store = store_key;
    order.header.owner = g9rt::key(10);
    order.header.creator = g9rt::key(10);
    order.header.bump = 254;
    order.tokens.final_output_token.token = mint_key;
    order.tokens.final_output_token.account = escrow_key;
    order.builder = user_key;
    let mut user: sdk::UserHeader = bytemuck::Zeroable::zeroed();
    user.flags.value = 1; // UserFlag::Initialized
    user.store = store_key;
    user.owner = g9rt::key(11);

    let s = arena.add(store_key, pid, 1, &zc(gmsol_store::states::Store::DISCRIMINATOR, &store), false, false, false);
    let o = arena.add(order_key, pid, 1, &zc(Order::DISCRIMINATOR, &order), false, true, false);
    let m = arena.add(mint_key, tok, 1, &mint_data(decimals), false, false, false);
    let e = arena.add(escrow_key, tok, 1, &token_account_data(mint_key, order_key, 0), false, true, false);
    let u = arena.add(user_key, pid, 1, &zc(gmsol_store::states::user::UserHeader::DISCRIMINATOR, &user), false, false, false);
    let v = arena.add(vault_key, tok, 1, &token_account_data(mint_key, user_key, 0), false, true, false);
    let tp = arena.add(tok, Pubkey::default(), 1, &[], false, false, true);
    let ea = arena.add(ev_auth, Pubkey::default(), 0, &[], false, false, false);
    let p = arena.add(pid, Pubkey::default(), 1, &[], false, false, true);
    World { arena, store: s, order: o, mint: m, escrow: e, user: u, vault: v, token_prog: tp, ev_auth: ea, prog: p }
}

/// SPL-token `TransferChecked` on the account bytes; the store's self-CPI (event) is accepted.
fn dispatcher() -> g9rt::Dispatcher {
    Box::new(|ix: &Instruction, infos: &[AccountInfo], _seeds: &[&[&[u8]]]| {
        use anchor_lang::solana_program::program_error::ProgramError;
        if ix.program_id == gmsol_store::ID {
            return Ok(());
        }
        if ix.program_id != anchor_spl::token::ID || ix.data.first() != Some(&12) {
            return Err(ProgramError::InvalidInstructionData);
        }
        let amount = u64::from_le_bytes(ix.data[1..9].try_into().unwrap());
        let find = |k: &Pubkey| infos.iter().find(|a| a.key == k).ok_or(ProgramError::NotEnoughAccountKeys);
        let from = find(&ix.accounts[0].pubkey)?;
        let mint = find(&ix.accounts[1].pubkey)?;
        let to = find(&ix.accounts[2].pubkey)?;
        let auth = &ix.accounts[3];
        if !auth.is_signer { return Err(ProgramError::MissingRequiredSignature); }
        if mint.try_borrow_data()?[44] != ix.data[9] { return Err(ProgramError::Custom(18)); } // MintDecimalsMismatch
        {
            let f = from.try_borrow_data()?;
            let t = to.try_borrow_data()?;
            if f[0..32] != t[0..32] || f[0..32] != *mint.key.as_ref() { return Err(ProgramError::Custom(3)); } // MintMismatch
            if f[32..64] != *auth.pubkey.as_ref() { return Err(ProgramError::Custom(4)); } // OwnerMismatch
        }
        let fa = token_amount(&from.try_borrow_data()?);
        let ta = token_amount(&to.try_borrow_data()?);
        let nf = fa.checked_sub(amount).ok_or(ProgramError::Custom(1))?; // InsufficientFunds
        let nt = ta.checked_add(amount).ok_or(ProgramError::Custom(14))?; // Overflow
        from.try_borrow_mut_data()?[64..72].copy_from_slice(&nf.to_le_bytes());
        to.try_borrow_mut_data()?[64..72].copy_from_slice(&nt.to_le_bytes());
        Ok(())
    })
}

impl World {
    fn order_mut(&mut self) -> &mut Order {
        bytemuck::from_bytes_mut::<Order>(&mut self.arena.mems[self.order].data_mut()[8..])
    }
    fn recorded(&self) -> u64 {
        bytemuck::from_bytes::<Order>(&self.arena.mems[self.order].data()[8..]).builder_fee_amount()
    }
    fn escrow_amount(&self) -> u64 { token_amount(self.arena.mems[self.escrow].data()) }
    fn vault_amount(&self) -> u64 { token_amount(self.arena.mems[self.vault].data()) }
    fn set_escrow(&mut self, v: u64) { self.arena.mems[self.escrow].data_mut()[64..72].copy_from_slice(&v.to_le_bytes()); }

    /// Runs the real `settle_builder_fee` instruction; returns Ok(()) or the error number.
    fn settle(&mut self, with_builder_accounts: bool) -> std::result::Result<(), u32> {
        let a = &self.arena;
        let none = a.info(self.prog); // Anchor's convention for an omitted optional account
        let accounts = vec![
            a.info(self.store),
            a.info(self.order),
            a.info(self.mint),
            a.info(self.escrow),
            if with_builder_accounts { a.info(self.user) } else { none.clone() },
            if with_builder_accounts { a.info(self.vault) } else { none.clone() },
            a.info(self.token_prog),
            a.info(self.ev_auth),
            a.info(self.prog),
        ];
        let data = gmsol_store::instruction::SettleBuilderFee {}.data();
        let snap = self.arena.snapshot();
        // the entrypoint wants `&'a [AccountInfo<'a>]` with the arena's 'static infos: leak the (small) slice
        let accounts: &'static [AccountInfo<'static>] = Box::leak(accounts.into_boxed_slice());
        let r = gmsol_store::entry(&gmsol_store::ID, accounts, &data);
        match r {
            Ok(()) => Ok(()),
            Err(e) => {
                self.arena.restore(&snap); // failed transactions are rolled back
                Err(match e {
                    anchor_lang::solana_program::program_error::ProgramError::Custom(c) => c,
                    _ => 1,
                })
            }
        }
    }
}

fn order_history(rng: &mut Rng) {
    let decimals = rng.below(10) as u8;
    let mut w = world(decimals);
    let mut steps: Vec<String> = vec![];
    let n = 3 + rng.below(8);
    let mut tag = "order/history";
    for _ in 0..n {
        match rng.below(7) {
            0 => {
                // plain record
                let amt = match rng.below(4) { 0 => u64::MAX - rng.below(3), 1 => 0, _ => rng.below(1_000_000_000) };
                let r = hk::order_record_builder_fee(w.order_mut(), amt);
                if r.is_ok() { let e = w.escrow_amount().saturating_add(amt); w.set_escrow(e); }
                steps.push(format!("SRecord {amt} {} {}", match &r { Ok(()) => 0, Err(e) => code(e) }, w.recorded()));
            }
            1 | 2 => {
                // decrease path, replayed with the real helpers in the order of execute_decrease_position
                let (sz, f, p) = (size(rng), factor(rng), price(rng));
                let output: u64 = match rng.below(4) { 0 => 0, 1 => rng.uint(64) as u64, _ => rng.below(1_000_000_000_000) };
                let r: anchor_lang::Result<u64> = (|| {
                    if f == 0 { return Ok(0); }
                    let payable = hk::compute_builder_fee_amount(sz, f, &p)?;
                    let paid = hk::clamp_builder_fee_amount(payable, output.into());
                    let recorded = u64::try_from(paid).map_err(|_| error!(gmsol_store::CoreError::TokenAmountOverflow))?;
                    hk::order_record_builder_fee(w.order_mut(), recorded)?;
                    Ok(recorded)
                })();
                if let Ok(_) = &r { let e = w.escrow_amount().saturating_add(output); w.set_escrow(e); }
                steps.push(format!("SDecrease {} {} {} {output} {} {}", z(sz), z(f), z(p.min), match &r { Ok(_) => 0, Err(e) => code(e) }, w.recorded()));
            }
            3 | 4 => {
                // increase path: charge on the collateral increment, record, route the fee to the escrow
                let (sz, f, p) = (size(rng), factor(rng), price(rng));
                let incr: u64 = match rng.below(4) { 0 => 0, 1 => rng.uint(64) as u64, _ => rng.below(1_000_000_000_000) };
                let r: anchor_lang::Result<(u64, u64)> = (|| {
                    if f == 0 { return Ok((incr, 0)); }
                    let (after, payable) = hk::charge_builder_fee_on_collateral_increment(incr, sz, f, &p)?;
                    hk::order_record_builder_fee(w.order_mut(), payable)?;
                    Ok((after, payable))
                })();
                if let Ok((_, fee)) = &r { let e = w.escrow_amount().saturating_add(*fee); w.set_escrow(e); }
                steps.push(format!("SIncrease {incr} {} {} {} {} {}", z(sz), z(f), z(p.min), r2(&r), w.recorded()));
            }
            _ => {
                // settlement through the real instruction; sometimes the escrow is short (defence in depth)
                if rng.chance(1, 5) { let e = w.escrow_amount(); w.set_escrow(e / (1 + rng.below(3))); }
                // token supply is a u64: the builder's vault and the escrow cannot exceed it together
                if w.vault_amount().checked_add(w.escrow_amount()).is_none() {
                    let v = w.vault; w.arena.mems[v].data_mut()[64..72].copy_from_slice(&0u64.to_le_bytes());
                }
                let esc = w.escrow_amount();
                let vault0 = w.vault_amount();
                let rec0 = w.recorded();
                let with_accounts = rec0 != 0 || rng.chance(1, 2);
                match w.settle(with_accounts) {
                    Ok(()) => {
                        let t = w.vault_amount() - vault0;
                        steps.push(format!("SSettle {esc} {t} {} {}", w.recorded(), w.escrow_amount()));
                        // repeating it is a no-op
                        let (e1, v1) = (w.escrow_amount(), w.vault_amount());
                        let again = w.settle(rng.chance(1, 2));
                        assert!(again.is_ok(), "second settlement failed: {again:?}");
                        steps.push(format!("SSettle {e1} {} {} {}", w.vault_amount() - v1, w.recorded(), w.escrow_amount()));
                    }
                    Err(c) => { tag = "order/settle-error"; steps.push(format!("SSettle {esc} {} {} {}", u64::MAX, c, 0)); }
                }
            }
        }
    }
    emit(tag, &format!("COrder [{}]", steps.join("; ")));
}

fn main() {
    let a = args();
    let mut rng = Rng::new(a.seed);
    g9rt::install();
    g9rt::set_dispatcher(Some(dispatcher()));
    for i in 0..a.n {
        match i % 6 {
            0 => {
                let (sz, f, p) = (size(&mut rng), factor(&mut rng), price(&mut rng));
                let r = hk::compute_builder_fee_amount(sz, f, &p);
                emit(&format!("compute/{}", if f == 0 { "trivial" } else if r.is_ok() { "ok" } else { "fail" }),
                     &format!("CCompute {} {} {} {} {}", z(sz), z(f), z(p.min), z(p.max), rz(&r)));
            }
            1 => {
                let fee = rng.uint(128); let avail = if rng.chance(1, 3) { fee } else { rng.uint(64) };
                let r = hk::clamp_builder_fee_amount(fee, avail);
                emit("clamp/ok", &format!("CClamp {} {} {}", z(fee), z(avail), z(r)));
            }
            2 => {
                let (sz, f, p) = (size(&mut rng), factor(&mut rng), price(&mut rng));
                let exact = hk::compute_builder_fee_amount(sz, f, &p).ok().and_then(|x| u64::try_from(x).ok());
                let incr: u64 = match (rng.below(5), exact) { (0, Some(x)) => x, (1, Some(x)) => x.saturating_sub(1), (2, Some(x)) => x.saturating_add(1 + rng.below(1000)), (3, _) => rng.uint(64) as u64, _ => rng.below(1_000_000_000_000) };
                let r = hk::charge_builder_fee_on_collateral_increment(incr, sz, f, &p);
                emit(&format!("charge/{}", match &r { Ok(_) => "ok".to_string(), Err(e) => format!("err{}", code(e)) }),
                     &format!("CCharge {incr} {} {} {} {} {}", z(sz), z(f), z(p.min), z(p.max), r2(&r)));
            }
            3 => {
                let (sz, f, p) = (size(&mut rng), factor(&mut rng), price(&mut rng));
                let wd = match rng.below(3) { 0 => rng.uint(128), _ => rng.uint(64) };
                let (st, sts) = *rng.pick(&[(DecreasePositionSwapType::NoSwap, "NoSwap"), (DecreasePositionSwapType::PnlTokenToCollateralToken, "PnlTokenToCollateralToken"), (DecreasePositionSwapType::CollateralToPnlToken, "CollateralToPnlToken")]);
                let r = hk::estimate_builder_fee_for_collateral_withdrawal(wd, sz, f, &p, st);
                emit(&format!("estimate/{}", match &r { Ok(_) => "ok".to_string(), Err(e) => format!("err{}", code(e)) }),
                     &format!("CEstimate {} {} {} {} {} {sts} {}", z(wd), z(sz), z(f), z(p.min), z(p.max), rz(&r)));
            }
            _ => order_history(&mut rng),
        }
    }
}
