//! C12 driver: the real UpdateFundingState (pure next_funding_factor_per_second and histories of
//! executed updates) and PositionExt::pending_funding_fees over vmarket::TestMarket, u64/9 and u128/20.
use gmsol_model::{
    action::update_funding_state::UpdateFundingState,
    params::fee::FundingFeeParams,
    price::{Price, Prices},
    ClockKind, MarketAction, PerpMarketMutExt, PositionExt,
};
use gmsol_verif_harness::vmarket::{TestMarket, TestMarketConfig, TestPool, TestPosition};
use gmsol_verif_harness::*;

fn ec(e: &gmsol_model::Error) -> u32 {
    use gmsol_model::Error::*;
    match e {
        Computation(_) => 1,
        UnableToGetFundingFactorEmptyOpenInterest => 2,
        Convert => 3,
        InvalidArgument(_) => 4,
        Overflow => 5,
        _ => 9,
    }
}

macro_rules! gen_for {
    ($fname:ident, $U:ty, $S:ty, $W:expr, $DEC:expr) => {
        mod $fname {
            use super::*;
            pub type U = $U;
            pub type S = $S;
            pub const W: u32 = $W;
            pub const DEC: u32 = $DEC;
            pub type M = TestMarket<U, $DEC>;
            pub type P = TestPosition<U, $DEC>;

            pub fn unit() -> U { (10 as U).pow(DEC) }
            pub fn sc() -> U { unit() / 10_000_000 }

            pub struct Params { pub exp: U, pub factor: U, pub inc: U, pub dec: U, pub max: U, pub min: U, pub ts: U, pub td: U }
            impl Params {
                pub fn coq(&self) -> String {
                    format!("(FP {} {} {} {} {} {} {} {})", z(self.exp), z(self.factor), z(self.inc), z(self.dec), z(self.max), z(self.min), z(self.ts), z(self.td))
                }
                pub fn build(&self) -> FundingFeeParams<U> {
                    FundingFeeParams::builder()
                        .exponent(self.exp).funding_factor(self.factor)
                        .increase_factor_per_second(self.inc).decrease_factor_per_second(self.dec)
                        .max_factor_per_second(self.max).min_factor_per_second(self.min)
                        .threshold_for_stable_funding(self.ts).threshold_for_decrease_funding(self.td)
                        .build()
                }
            }

            pub fn gen_params(rng: &mut Rng, adaptive: bool) -> Params {
                let unit = unit(); let sc = sc();
                let exp = match rng.below(10) { 0 => 0, 1 | 2 => 2 * unit, 3 => 3 * unit, _ => unit };
                let max: U = match rng.below(12) {
                    0 => rng.uint(W) as U,
                    1 => (1 as U) << (W - 1),
                    2 => 0,
                    _ => rng.below(sc as u64) as U + 1,
                };
                let min: U = match rng.below(10) {
                    0 => 0,
                    1 => max,
                    2 => max.saturating_add(1),
                    3 => rng.uint(W) as U,
                    4 | 5 => max / 2,
                    _ => max / (rng.range(2, 50) as U),
                };
                let factor: U = match rng.below(8) { 0 => 0, 1 => rng.uint(W) as U, 2 => unit, _ => rng.below(3 * sc as u64) as U };
                let inc: U = if !adaptive { 0 } else { match rng.below(8) { 0 => rng.uint(W) as U, 1 => 1, _ => rng.below((sc / 5).max(2) as u64) as U + 1 } };
                let dec: U = match rng.below(6) { 0 => 0, 1 => rng.uint(W) as U, _ => rng.below((sc / 5).max(2) as u64) as U };
                let ts: U = match rng.below(6) { 0 => 0, 1 => unit, _ => (unit / 20) * rng.below(6) as U };
                let td: U = match rng.below(5) { 0 => 0, 1 => ts, 2 => unit, _ => ts / (rng.range(1, 4) as U) };
                Params { exp, factor, inc, dec, max, min, ts, td }
            }

            /// (long, short) open interest: balanced, skewed, near-equal, tiny, one-sided, extreme
            pub fn gen_oi(rng: &mut Rng) -> (U, U) {
                let unit = unit();
                // log-uniform magnitude: 10^k dollars, k = 0..=6 (u64) / 0..=9 (u128)
                let k = rng.below(if W == 64 { 7 } else { 10 }) as u32;
                let base: U = (rng.range(1, 9) as U) * (10 as U).pow(k) * unit + (rng.below(1000) as U) * (unit / 1000) + rng.below(1000) as U;
                match rng.below(14) {
                    0 => (base, base),
                    1 => (base, 0),
                    2 => (0, base),
                    3 => (0, 0),
                    4 => (rng.uint(W) as U, rng.uint(W) as U),
                    5 => (base, base + rng.below(unit as u64).min(1_000_000_000) as U),          // diff below one unit
                    6 => (base + unit + rng.below(5) as U - 2, base),
                    7 => (rng.below(2000) as U, rng.below(2000) as U),
                    8 | 9 => { let k = rng.range(1, 99) as U; (base, base / 100 * k) }
                    10 | 11 => { let k = rng.range(1, 99) as U; (base / 100 * k, base) }
                    12 => (base, base / 1000 * (1000 - rng.range(1, 60) as U)),
                    _ => (base / 1000 * (1000 - rng.range(1, 60) as U), base),
                }
            }

            pub fn gen_cur(rng: &mut Rng, p: &Params) -> S {
                let m = p.max.min(S::MAX as U) as S;
                match rng.below(10) {
                    0 => 0,
                    1 => rng.sint(W) as S,
                    2 => m, 3 => -m,
                    4 => (p.min.min(S::MAX as U) as S) / 2,
                    5 => -((p.min.min(S::MAX as U) as S) / 2),
                    _ => { let v = rng.below((m.max(1) as u128).min(u64::MAX as u128 - 1) as u64 + 1) as S; if rng.chance(1, 2) { v } else { -v } }
                }
            }

            pub fn gen_dur(rng: &mut Rng) -> u64 {
                match rng.below(8) { 0 => 0, 1 => 1, 2 => rng.uint(64) as u64, 3 => rng.below(100_000), _ => rng.below(200) }
            }

            pub fn prices(pl: U, ps: U) -> Prices<U> {
                Prices {
                    index_token_price: Price { min: pl, max: pl },
                    long_token_price: Price { min: pl.min(pl / 2 + 1), max: pl },
                    short_token_price: Price { min: ps.min(ps / 2 + 1), max: ps },
                }
            }

            pub fn market(p: &Params, adj: U) -> M {
                let mut cfg = TestMarketConfig::<U, $DEC>::default();
                cfg.funding_fee_params = p.build();
                let mut m = M::with_config(cfg);
                m.funding_amount_per_size_adjustment = adj;
                m
            }

            pub fn rate_case(rng: &mut Rng) {
                let adaptive = rng.chance(3, 5);
                let p = gen_params(rng, adaptive);
                let adaptive = p.inc != 0;
                let (long, short) = gen_oi(rng);
                let mut p = p;
                let mut cur = gen_cur(rng, &p);
                let mut dur = gen_dur(rng);
                // boundary targeting: put the skew factor exactly on / next to a threshold, or the
                // stored magnitude exactly on / next to the decrease value
                if adaptive && long != 0 && short != 0 {
                    let diff = if long > short { long - short } else { short - long };
                    let dtoi = (long as u128).checked_add(short as u128).filter(|t| *t != 0 && p.exp == unit() && diff >= unit())
                        .and_then(|t| (diff as u128).checked_mul(unit() as u128).map(|x| x / t));
                    if let (Some(d), true) = (dtoi, rng.chance(1, 3)) {
                        let d = d as U;
                        let v = match rng.below(3) { 0 => d, 1 => d.saturating_add(1), _ => d.saturating_sub(1) };
                        if rng.chance(1, 2) { p.ts = v; if p.td > p.ts { p.td = p.ts; } } else { p.td = v; if p.ts < p.td { p.ts = p.td; } }
                        // make the stored factor point the same way as the skew so the thresholds matter
                        if rng.chance(3, 4) { let a = cur.checked_abs().unwrap_or(S::MAX).max(1); cur = if long > short { a } else { -a }; }
                    }
                    if rng.chance(1, 4) && p.dec != 0 && p.dec < U::MAX / 100_000 {
                        dur = rng.range(1, 1000);
                        let dv = p.dec * dur as U;
                        let mag = match rng.below(3) { 0 => dv, 1 => dv + 1, _ => dv.saturating_sub(1) };
                        if mag <= S::MAX as U && mag != 0 {
                            cur = if long > short { mag as S } else { -(mag as S) };
                            p.td = unit(); p.ts = unit();   // force the Decrease arm (diff factor < threshold)
                        }
                    }
                }
                let mut m = market(&p, 10_000);
                m.funding_factor_per_second = cur;
                let pr = prices(100, 1);
                let a = UpdateFundingState::try_new(&mut m, &pr).expect("valid prices");
                let r = a.next_funding_factor_per_second(dur, &long, &short);
                let (rs, tag) = match &r {
                    Ok((mag, lps, nx)) => (
                        format!("(Ok ({}, {}, {}))", z(mag), b(*lps), z(nx)),
                        if long == 0 || short == 0 { "onesided" }
                        else if *mag == p.max && p.max != p.min { "at_max" }
                        else if *mag == p.min && adaptive { "at_min" }
                        else if *mag < p.min { "below_min" }
                        else if *mag == 0 { "zero" } else { "mid" },
                    ),
                    Err(e) => (format!("(Err {})", ec(e)), "err"),
                };
                let sign = if cur > 0 { "p" } else if cur < 0 { "n" } else { "z" };
                let skew = if long > short { "L" } else if long < short { "S" } else { "E" };
                let kind = if adaptive { format!("adaptive_{sign}{skew}") } else { "fallback".to_string() };
                emit(&format!("rate{}_{kind}/{}", W, if long == 0 && short == 0 { "trivial" } else { tag }),
                    &format!("Rate {} {} {} {} {} {} {} {}", W, DEC, p.coq(), z(cur), z(dur), z(long), z(short), rs));
            }

            fn q4(a: &TestPool<U>, b: &TestPool<U>) -> String {
                format!("(Q4 {} {} {} {})", z(a.long_amount), z(a.short_amount), z(b.long_amount), z(b.short_amount))
            }
            pub fn fstate(m: &M) -> String {
                format!("(FS {} {} {} {} {})", z(m.funding_factor_per_second),
                    q4(&m.open_interest.0, &m.open_interest.1),
                    q4(&m.funding_amount_per_size.0, &m.funding_amount_per_size.1),
                    q4(&m.claimable_funding_amount_per_size.0, &m.claimable_funding_amount_per_size.1),
                    z(*m.clocks.get(&ClockKind::Funding).unwrap()))
            }
            pub fn fpos(x: &P) -> String {
                format!("(POS {} {} {} {} {} {})", b(x.is_long), b(x.is_collateral_token_long), z(x.size_in_usd),
                    z(x.funding_fee_amount_per_size), z(x.claimable_funding_fee_amount_per_size.0), z(x.claimable_funding_fee_amount_per_size.1))
            }

            fn set_oi(rng: &mut Rng, m: &mut M) {
                let (mut long, mut short) = gen_oi(rng);
                // mostly two-sided, skewed and of sane size
                for _ in 0..3 {
                    if long != 0 && short != 0 && long != short && long < U::MAX / 8 && short < U::MAX / 8 { break; }
                    let t = gen_oi(rng); long = t.0; short = t.1;
                }
                let split = |rng: &mut Rng, v: U| -> (U, U) {
                    match rng.below(8) { 0 => (v, 0), 1 => (0, v), _ => { let a = v / 100 * (rng.below(101) as U); (a, v - a) } }
                };
                let (a, b_) = split(rng, long);
                let (c, d) = split(rng, short);
                m.open_interest.0 = TestPool { long_amount: a, short_amount: b_ };
                m.open_interest.1 = TestPool { long_amount: c, short_amount: d };
            }

            fn settle(m: &M, x: &mut P, n: U) {
                let (fa, cfa) = if x.is_long { (&m.funding_amount_per_size.0, &m.claimable_funding_amount_per_size.0) }
                    else { (&m.funding_amount_per_size.1, &m.claimable_funding_amount_per_size.1) };
                x.funding_fee_amount_per_size = if x.is_collateral_token_long { fa.long_amount } else { fa.short_amount };
                x.claimable_funding_fee_amount_per_size = (cfa.long_amount, cfa.short_amount);
                x.size_in_usd = n;
            }

            fn gen_size(rng: &mut Rng) -> U {
                let unit = unit();
                match rng.below(8) {
                    0 => 0,
                    1 => rng.uint(W) as U,
                    _ => (rng.below(1_000_000) as U + 1).min(U::MAX / unit / 4) * unit + rng.below(1000) as U,
                }
            }

            pub fn hist_case(rng: &mut Rng) {
                let adaptive = rng.chance(3, 5);
                let mut p = gen_params(rng, adaptive);
                // histories should mostly run: keep min <= max < 2^(w-1)
                let tame = rng.chance(17, 20);
                if tame {
                    let sc = sc();
                    p.max = rng.below(sc as u64) as U + 1;
                    p.min = match rng.below(4) { 0 => 0, 1 => p.max, _ => p.max / (rng.range(2, 20) as U) };
                    p.factor = rng.below(3 * sc as u64) as U + sc / 10;
                    if p.inc != 0 { p.inc = rng.below((sc / 5).max(2) as u64) as U + 1; }
                    p.dec = rng.below((sc / 5).max(2) as u64) as U;
                    if rng.chance(3, 4) { p.exp = unit(); }
                }
                let adaptive = p.inc != 0;
                let adj: U = match rng.below(6) { 0 => 1, 1 => rng.uint(W / 2) as U, _ => if W == 64 { 10_000 } else { 10_000_000_000 } };
                let mut m = market(&p, adj);
                m.now = rng.below(2_000_000_000);
                m.clocks.insert(ClockKind::Funding, m.now.saturating_sub(rng.below(1000)));
                set_oi(rng, &mut m);
                m.funding_factor_per_second = gen_cur(rng, &p);
                let idx = |rng: &mut Rng| -> U { match rng.below(24) { 0 | 1 | 2 => 0, 3 | 4 => (rng.uint(W) as U) >> 1, 5 => U::MAX - rng.below(1000) as U, _ => rng.uint(W / 2) as U } };
                m.funding_amount_per_size.0 = TestPool { long_amount: idx(rng), short_amount: idx(rng) };
                m.funding_amount_per_size.1 = TestPool { long_amount: idx(rng), short_amount: idx(rng) };
                m.claimable_funding_amount_per_size.0 = TestPool { long_amount: idx(rng), short_amount: idx(rng) };
                m.claimable_funding_amount_per_size.1 = TestPool { long_amount: idx(rng), short_amount: idx(rng) };
                // positions opened earlier: their indices are at or below the market's
                let mut xs: Vec<P> = vec![];
                for _ in 0..3 {
                    let mut x = if rng.chance(1, 2) { P::long(rng.chance(1, 2)) } else { P::short(rng.chance(1, 2)) };
                    settle(&m, &mut x, gen_size(rng));
                    let back = |rng: &mut Rng, v: U| -> U { match rng.below(4) { 0 => v, 1 => 0, _ => v - (rng.uint(W / 2) as U).min(v) } };
                    x.funding_fee_amount_per_size = back(rng, x.funding_fee_amount_per_size);
                    x.claimable_funding_fee_amount_per_size.0 = back(rng, x.claimable_funding_fee_amount_per_size.0);
                    x.claimable_funding_fee_amount_per_size.1 = back(rng, x.claimable_funding_fee_amount_per_size.1);
                    xs.push(x);
                }
                let s0 = fstate(&m);
                let ps0 = format!("[{}]", xs.iter().map(fpos).collect::<Vec<_>>().join("; "));
                let nops = rng.range(2, 9);
                let mut ops: Vec<String> = vec![];
                let (mut n_ok, mut n_err, mut n_moved, mut n_pend_ok, mut n_pend_err) = (0, 0, 0, 0, 0);
                for _ in 0..nops {
                    match rng.below(10) {
                        0 | 1 => { set_oi(rng, &mut m); ops.push(format!("SetOI {}", q4(&m.open_interest.0, &m.open_interest.1))); }
                        2 => {
                            let i = rng.below(3) as usize; let n = gen_size(rng);
                            settle(&m, &mut xs[i], n);
                            ops.push(format!("Settle {}%nat {} {}", i, z(n), fpos(&xs[i])));
                        }
                        3 | 4 => {
                            let i = rng.below(3) as usize;
                            let r = xs[i].ops(&mut m).pending_funding_fees();
                            let rs = match &r {
                                Ok(f) => { n_pend_ok += 1; format!("(Ok ({}, {}, {}))", z(f.amount()), z(f.claimable_long_token_amount()), z(f.claimable_short_token_amount())) }
                                Err(e) => { n_pend_err += 1; format!("(Err {})", ec(e)) }
                            };
                            ops.push(format!("Pend {}%nat {}", i, rs));
                        }
                        _ => {
                            let snap = m.clone();
                            let adv = gen_dur(rng);
                            m.now = m.now.saturating_add(adv);
                            let now = m.now;
                            let pl: U = match rng.below(6) { 0 => 1, 1 => rng.uint(W / 2) as U + 1, _ => rng.range(1, 1_000_000) as U };
                            let ps: U = match rng.below(6) { 0 => 1, 1 => rng.uint(W / 2) as U + 1, _ => rng.range(1, 1_000_000) as U };
                            let pr = prices(pl, ps);
                            let before = (m.funding_amount_per_size.clone(), m.claimable_funding_amount_per_size.clone());
                            let r = m.update_funding(&pr).and_then(|a| a.execute());
                            let rs = match &r {
                                Ok(rep) => {
                                    n_ok += 1;
                                    if before != (m.funding_amount_per_size.clone(), m.claimable_funding_amount_per_size.clone()) { n_moved += 1; }
                                    let d = |l: bool, c: bool| z(rep.delta_funding_amount_per_size(l, c));
                                    let cl = |l: bool, c: bool| z(rep.delta_claimable_funding_amount_per_size(l, c));
                                    format!("(Ok (REP {} {} (Q4 {} {} {} {}) (Q4 {} {} {} {})))", z(rep.duration_in_seconds()), z(rep.next_funding_factor_per_second()),
                                        d(true, true), d(true, false), d(false, true), d(false, false),
                                        cl(true, true), cl(true, false), cl(false, true), cl(false, false))
                                }
                                Err(e) => { n_err += 1; let c = ec(e); m = snap; format!("(Err {c})") }
                            };
                            ops.push(format!("Upd {} {} {} {} {}", z(now), z(pl), z(ps), rs, fstate(&m)));
                        }
                    }
                }
                let _ = n_ok;
                let tag = if n_moved == 0 && n_err == 0 && n_pend_ok + n_pend_err == 0 { "trivial".to_string() }
                    else { format!("{}m{}e{}p{}q{}", if adaptive { "ad" } else { "fb" }, n_moved.min(3), n_err.min(1), n_pend_ok.min(1), n_pend_err.min(1)) };
                emit(&format!("hist{}/{}", W, tag),
                    &format!("Hist {} {} {} {} {} {} [{}]", W, DEC, p.coq(), z(adj), s0, ps0, ops.join("; ")));
            }
        }
    };
}

gen_for!(g64, u64, i64, 64, 9);
gen_for!(g128, u128, i128, 128, 20);

fn main() {
    let a = args();
    if std::env::var("VERIF_LOUD").is_err() { silence_panics(); }
    let mut rng = Rng::new(a.seed);
    for i in 0..a.n {
        let hist = i % 3 == 2;
        match (rng.chance(1, 2), hist) {
            (true, false) => g64::rate_case(&mut rng),
            (false, false) => g128::rate_case(&mut rng),
            (true, true) => g64::hist_case(&mut rng),
            (false, true) => g128::hist_case(&mut rng),
        }
    }
}
