//! C02 driver: fee splitting in crates/model/src/params/fee.rs on u64/9 and u128/20.
use gmsol_model::fixed::FixedPointOps;
use gmsol_model::params::fee::{FundingFees, LiquidationFeeParams, PositionFees};
use gmsol_model::params::FeeParams;
use gmsol_model::pool::delta::BalanceChange;
use gmsol_model::price::Price;
use gmsol_model::PositionExt;
use gmsol_verif_harness::vmarket::{TestMarket, TestPosition};
use gmsol_verif_harness::*;

fn err_code(e: &gmsol_model::Error) -> u32 {
    use gmsol_model::Error::*;
    match e {
        InvalidPrices => 1,
        Overflow => 26,
        Computation(m) => match *m {
            "calculating order fee value" => 2,
            "calculating order fee amount" => 3,
            "calculating order receiver fee" => 4,
            "calculating order fee for pool" => 5,
            "calculating borrowing amount" => 6,
            "adding borrowing fee value" => 7,
            "calculating borrowing fee amount for receiver" => 8,
            "liquidation fee: calculating fee value" => 11,
            "liquidation fee: calculating fee amount" => 12,
            "liquidation fee: calculating fee amount for receiver" => 13,
            "calculating fee for receiver" => 20,
            "borrowing fee: calculating fee for pool" => 21,
            "adding borrowing fee for pool" => 22,
            "liquidation fee: calculating fee for pool" => 23,
            "adding liquidation fee for pool" => 24,
            "overflow while calculating total cost excluding funding" => 25,
            _ => 99,
        },
        _ => 99,
    }
}

fn rz<T: std::fmt::Display>(r: &gmsol_model::Result<T>) -> String {
    match r {
        Ok(v) => format!("(Ok {})", z(v)),
        Err(e) => format!("(Err {})", err_code(e)),
    }
}

fn bc_name(bc: BalanceChange) -> &'static str {
    match bc {
        BalanceChange::Improved => "Improved",
        BalanceChange::Worsened => "Worsened",
        BalanceChange::Unchanged => "Unchanged",
    }
}

macro_rules! gen_for {
    ($fname:ident, $U:ty, $W:expr, $DEC:expr) => {
        fn $fname(rng: &mut Rng, kind: u64) {
            let w: u32 = $W;
            let dec: u8 = $DEC;
            let unit: $U = <$U as FixedPointOps<$DEC>>::UNIT;
            let u = |r: &mut Rng| r.uint(w) as $U;
            // a factor: mostly a valid fraction (<= 100%), sometimes just above / far above
            let factor = |r: &mut Rng, invalid: bool| -> $U {
                if invalid {
                    match r.below(5) {
                        0 => unit + 1,
                        1 => unit + unit / 2,
                        2 => unit * (2 + r.below(50) as $U),
                        3 => unit + r.below(1_000_000) as $U,
                        _ => r.uint(w) as $U,
                    }
                } else {
                    match r.below(9) {
                        0 => 0,
                        1 => unit,
                        2 => unit - 1,
                        3 => 1,
                        4 => unit / 2,
                        5 => unit / 1000 * (r.below(1000) as $U),
                        6 => unit / 1_000_000 * (r.below(10_000) as $U),
                        7 => (r.uint(w) as $U) % (unit + 1),
                        _ => unit / 3 + r.below(7) as $U,
                    }
                }
            };
            // configuration: valid in ~3/4 of the cases, otherwise one or more factors above 100%
            let all_valid = !rng.chance(1, 4);
            let mut f = |r: &mut Rng| { let inv = !all_valid && r.chance(1, 2); factor(r, inv) };
            let pf = f(rng); let nf = f(rng); let rf = f(rng);
            let disc: Option<$U> = if rng.chance(1, 3) { None } else { Some(f(rng)) };
            let params = {
                let b = FeeParams::<$U>::builder()
                    .positive_impact_fee_factor(pf)
                    .negative_impact_fee_factor(nf)
                    .fee_receiver_factor(rf)
                    .build();
                match disc { Some(d) => b.with_discount_factor(d), None => b }
            };
            let pstr = format!("(MkFP {} {} {} {})", z(pf), z(nf), z(rf), oz(disc));
            let bc = *rng.pick(&[BalanceChange::Improved, BalanceChange::Worsened, BalanceChange::Unchanged]);
            let this_factor = match bc { BalanceChange::Improved => pf, _ => nf };
            // amounts: boundary heavy, plus amounts making amount*factor/unit straddle amount / MAX
            let amount = |r: &mut Rng| -> $U {
                match r.below(5) {
                    0 if this_factor != 0 => (<$U>::MAX / this_factor).wrapping_mul(unit).wrapping_add(r.below(3) as $U).wrapping_sub(1),
                    1 => unit * (r.below(1_000_000) as $U) + r.below(3) as $U,
                    _ => r.uint(w) as $U,
                }
            };
            let price = |r: &mut Rng, allow_zero: bool| -> Price<$U> {
                let min: $U = match r.below(8) {
                    0 if allow_zero => 0,
                    1 => 1,
                    2 => r.below(1000) as $U + 1,
                    3 => unit / 1000 * (r.below(100_000) as $U + 1),
                    4 => (r.uint(w / 2) as $U).max(1),
                    5 => (r.uint(w) as $U).max(1),
                    _ => 10u64.pow(r.below(15) as u32) as $U,
                };
                let max: $U = match r.below(6) {
                    0 if allow_zero => 0,
                    1 => min,
                    2 => min.saturating_add(r.below(1000) as $U),
                    _ => min.saturating_add(min / 100),
                };
                Price { min, max }
            };
            match kind {
                0 => {
                    let a = amount(rng);
                    let r = params.fee::<$DEC>(bc, &a);
                    emit(&format!("fee{w}/{}", if a == 0 { "trivial" } else if r.is_some() { "ok" } else { "fail" }),
                         &format!("CFee {w} {dec} {pstr} {} {} {}", bc_name(bc), z(a), oz(r)));
                }
                1 => {
                    let a = amount(rng);
                    let r = params.receiver_fee::<$DEC>(&a);
                    emit(&format!("recv{w}/{}", if a == 0 { "trivial" } else if r.is_some() { "ok" } else { "fail" }),
                         &format!("CRecv {w} {dec} {pstr} {} {}", z(a), oz(r)));
                }
                2 | 3 => {
                    let a = amount(rng);
                    let r = params.apply_fees::<$DEC>(bc, &a);
                    let rs = match &r {
                        Some((n, fees)) => format!("(Some ({}, {}, {}))", z(n), z(fees.fee_amount_for_pool()), z(fees.fee_amount_for_receiver())),
                        None => "None".to_string(),
                    };
                    emit(&format!("apply{w}/{}{}", if a == 0 { "trivial" } else if r.is_some() { "ok" } else { "fail" }, if all_valid { "" } else { "-invalidcfg" }),
                         &format!("CApply {w} {dec} {pstr} {} {} {rs}", bc_name(bc), z(a)));
                }
                4 => {
                    let size = amount(rng);
                    let pr = price(rng, true);
                    let r = params.base_position_fees::<$DEC>(&pr, &size, bc);
                    let rs = match &r {
                        Ok(f) => format!("(Ok ({}, {}, {}))", z(f.order_fees().fee_amounts().fee_amount_for_pool()),
                                         z(f.order_fees().fee_amounts().fee_amount_for_receiver()), z(f.order_fees().fee_value())),
                        Err(e) => format!("(Err {})", err_code(e)),
                    };
                    let over = matches!(&r, Ok(f) if *f.order_fees().fee_value() > size);
                    emit(&format!("order{w}/{}", if over { "ok-fee-above-size" } else if r.is_ok() { "ok" } else { "fail" }),
                         &format!("COrder {w} {dec} {pstr} {} {} {} {} {rs}", z(pr.min), z(pr.max), z(size), bc_name(bc)));
                }
                _ => {
                    // whole position_fees path through the harness market (liquidation fee is pub(crate))
                    let size = amount(rng);
                    // debug builds assert a non-zero price inside position_fees
                    let pr = price(rng, !cfg!(debug_assertions));
                    let is_liq = rng.chance(2, 3);
                    let lf = if rng.chance(1, 6) { 0 } else { f(rng) };
                    let lrf = f(rng);
                    let brf = f(rng);
                    let mut market = TestMarket::<$U, $DEC>::default();
                    market.config.order_fee_params = params.clone();
                    market.config.liquidation_fee_params = LiquidationFeeParams::builder().factor(lf).receiver_factor(lrf).build();
                    market.config.borrowing_fee_params = gmsol_model::params::fee::BorrowingFeeParams::builder()
                        .receiver_factor(brf).factor_for_long(0).factor_for_short(0)
                        .exponent_for_long(unit).exponent_for_short(unit).build();
                    // pending borrowing value = position size * cumulative factor / unit
                    let psize: $U = match rng.below(4) { 0 => 0, 1 => unit * (rng.below(1_000_000) as $U), 2 => u(rng) % (<$U>::MAX / 4), _ => u(rng) };
                    let cum: $U = match rng.below(4) { 0 => 0, 1 => unit / 100 * (rng.below(300) as $U), 2 => unit, _ => unit / 1_000_000 * (rng.below(1_000_000) as $U) };
                    market.borrowing_factor.long_amount = cum;
                    let mut pos = TestPosition::<$U, $DEC>::long(true);
                    pos.size_in_usd = psize;
                    let funding: $U = match rng.below(4) { 0 => 0, 1 => u(rng), _ => rng.below(1_000_000_000) as $U };
                    let ops = pos.ops(&mut market);
                    let bval = match ops.pending_borrowing_fee_value() { Ok(v) => v, Err(_) => return };
                    let r: gmsol_model::Result<PositionFees<$U>> = ops.position_fees(&pr, &size, bc, is_liq).map(|f| {
                        f.set_funding_fees(FundingFees::builder().amount(funding).claimable_long_token_amount(0).claimable_short_token_amount(0).build())
                    });
                    let rs = match &r {
                        Ok(f) => {
                            let liq = match f.liquidation_fees() {
                                Some(l) => format!("(Some ({}, {}, {}))", z(l.fee_value()), z(l.fee_amount()), z(l.fee_amount_for_receiver())),
                                None => "None".to_string(),
                            };
                            format!("(Ok (MkPF {} {} {} {} {} {} {} {liq}, ({}, {}, {}, {})))",
                                z(f.paid_order_and_borrowing_fee_value()),
                                z(f.order_fees().fee_amounts().fee_amount_for_pool()),
                                z(f.order_fees().fee_amounts().fee_amount_for_receiver()),
                                z(f.order_fees().fee_value()),
                                z(f.borrowing_fees().fee_amount()), z(f.borrowing_fees().fee_amount_for_receiver()),
                                z(f.funding_fees().amount()),
                                rz(&f.for_receiver()), rz(&f.for_pool::<$DEC>()), rz(&f.total_cost_excluding_funding()), rz(&f.total_cost_amount()))
                        }
                        Err(e) => format!("(Err {})", err_code(e)),
                    };
                    emit(&format!("pos{w}/{}{}", if r.is_ok() { "ok" } else { "fail" }, if is_liq { "-liq" } else { "" }),
                         &format!("CPos {w} {dec} {pstr} (MkLP {} {}) {} {} {} {} {} {} {} {} {rs}",
                                  z(lf), z(lrf), z(brf), z(pr.min), z(pr.max), z(size), bc_name(bc), b(is_liq), z(bval), z(funding)));
                }
            }
        }
    };
}

gen_for!(gen64, u64, 64, 9);
gen_for!(gen128, u128, 128, 20);

/// Fixed replays of the known findings through the real code (DESIGN.md section 7, C02).
fn witnesses() {
    let params = FeeParams::<u64>::builder()
        .positive_impact_fee_factor(1_500_000_000)
        .negative_impact_fee_factor(500_000_000)
        .fee_receiver_factor(0)
        .build();
    let pr = Price { min: 1u64, max: 1u64 };
    let size = 1_000_000u64;
    let r = params.base_position_fees::<9>(&pr, &size, BalanceChange::Improved);
    let rs = match &r {
        Ok(f) => format!("(Ok ({}, {}, {}))", z(f.order_fees().fee_amounts().fee_amount_for_pool()),
                         z(f.order_fees().fee_amounts().fee_amount_for_receiver()), z(f.order_fees().fee_value())),
        Err(e) => format!("(Err {})", err_code(e)),
    };
    emit("witness/order-fee-150pct", &format!("COrder 64 9 (MkFP 1500000000 500000000 0 None) 1 1 {} Improved {rs}", z(size)));
    let r = params.apply_fees::<9>(BalanceChange::Improved, &size);
    let rs = match &r {
        Some((n, fees)) => format!("(Some ({}, {}, {}))", z(n), z(fees.fee_amount_for_pool()), z(fees.fee_amount_for_receiver())),
        None => "None".to_string(),
    };
    emit("witness/apply-fees-150pct", &format!("CApply 64 9 (MkFP 1500000000 500000000 0 None) Improved {} {rs}", z(size)));
}

fn main() {
    let a = args();
    let mut rng = Rng::new(a.seed);
    witnesses();
    for i in 0..a.n {
        let kind = (i as u64) % 7;
        if rng.chance(1, 2) { gen64(&mut rng, kind) } else { gen128(&mut rng, kind) }
    }
}
