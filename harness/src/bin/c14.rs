//! C14 driver: histories of the real DistributePositionImpact action (and the pure
//! pending_position_impact_pool_distribution_amount) over vmarket::TestMarket on u64/9 and u128/20.
use gmsol_model::{
    market::{PositionImpactMarketExt, PositionImpactMarketMutExt},
    params::position::PositionImpactDistributionParams,
    ClockKind, MarketAction,
};
use gmsol_verif_harness::vmarket::{TestMarket, TestMarketConfig};
use gmsol_verif_harness::*;

fn err_code(e: &gmsol_model::Error) -> u32 {
    match e {
        gmsol_model::Error::Computation("calculating distribution amount") => 1,
        gmsol_model::Error::Convert => 2,
        _ => 3,
    }
}

macro_rules! gen_for {
    ($fname:ident, $U:ty, $W:expr, $DEC:expr) => {
        fn $fname(rng: &mut Rng, pure_case: bool) {
            let w: u32 = $W;
            let dec: u32 = $DEC;
            let unit: $U = (10 as $U).pow(dec);
            // rate: 0, whole units per second, fractions of a unit, arbitrary
            let rate: $U = match rng.below(16) {
                0 => 0,
                1 | 2 => unit.wrapping_mul(rng.range(1, 1000) as $U),
                3 | 4 => unit / (rng.range(1, 1000) as $U),
                5 => unit + rng.below(3) as $U - 1,
                6 => rng.below(1000) as $U,
                _ => { let r = rng.uint(w) as $U; if r < unit / 1_000_000 { (unit / 1_000_000) * (rng.range(1, 1000) as $U) } else { r } }
            };
            let pool0: $U = match rng.below(6) {
                0 => rng.uint(w) as $U,
                1 => <$U>::MAX - rng.below(3) as $U,
                _ => (rng.uint(w / 2 + 8) as $U).saturating_add(1000),
            };
            let minp: $U = match rng.below(16) {
                0 | 1 => 0,
                2 => pool0,
                3 => pool0.saturating_add(rng.below(5) as $U),
                4 | 5 => pool0.saturating_sub(rng.below(5) as $U),
                6 => rng.uint(w) as $U,
                _ => pool0 / (rng.range(2, 50) as $U),
            };
            // a slice of cases aimed at the failure branches (amount >= 2^(w-1), product overflow)
            let big = rng.chance(1, 10);
            let (rate, pool0, minp): ($U, $U, $U) = if big {
                let r = if rng.chance(1, 2) { unit.wrapping_mul(rng.range(1, 8) as $U) } else { (rng.uint(w) as $U) | (1 << (w - 3)) };
                (r, <$U>::MAX - (rng.uint(w - 2) as $U), rng.below(1000) as $U)
            } else { (rate, pool0, minp) };
            let mut cfg = TestMarketConfig::<$U, $DEC>::default();
            cfg.position_impact_distribution_params = PositionImpactDistributionParams::builder()
                .distribute_factor(rate)
                .min_position_impact_pool_amount(minp)
                .build();
            let mut m = TestMarket::<$U, $DEC>::with_config(cfg);
            let t0: u64 = if rng.chance(1, 10) { rng.uint(64) as u64 / 2 } else { rng.below(2_000_000_000) };
            m.now = t0;
            let last0 = if rng.chance(1, 8) { t0.saturating_add(rng.below(100)) } else { t0.saturating_sub(rng.below(10_000)) };
            m.clocks.insert(ClockKind::PriceImpactDistribution, last0);
            m.position_impact.long_amount = pool0;

            // duration that makes dur*rate/unit land around `target`
            let dur_for = |rng: &mut Rng, target: $U, rate: $U| -> u64 {
                if rate == 0 { return rng.below(100_000); }
                let wide = (target as u128).saturating_mul(unit as u128) / (rate as u128);
                let base = wide.min(u64::MAX as u128 / 4) as u64;
                match rng.below(7) {
                    0 => base / 4,
                    1 => base / 2,
                    2 => base,
                    3 => base.saturating_add(1),
                    4 => base.saturating_sub(1),
                    5 => base.saturating_mul(2),
                    _ => base / (rng.range(1, 20)),
                }
            };

            if pure_case {
                let cur = pool0;
                let excess = cur.saturating_sub(minp);
                let dur = match rng.below(if big { 3 } else { 8 }) { 0 => 0, 1 => rng.uint(64) as u64, _ => dur_for(rng, excess, rate) };
                let r = m.pending_position_impact_pool_distribution_amount(dur);
                let (rs, tag) = match &r {
                    Ok((d, n)) => (format!("(Ok ({}, {}))", z(d), z(n)),
                        if *d == 0 { "zero" } else if *d == excess { "capped" } else { "partial" }),
                    Err(e) => (format!("(Err {})", err_code(e)), "fail"),
                };
                emit(&format!("pending{w}/{}", if rate == 0 && dur == 0 { "trivial" } else { tag }),
                    &format!("Pending {w} {dec} {} {} {} {} {}", z(rate), z(minp), z(cur), z(dur), rs));
                return;
            }

            let nops = rng.range(1, 8);
            let mut ops: Vec<String> = vec![];
            let (mut n_part, mut n_cap, mut n_zero, mut n_fail) = (0, 0, 0, 0);
            for _ in 0..nops {
                let at_floor = m.position_impact.long_amount <= minp;
                if rng.chance(if at_floor { 3 } else { 1 }, 6) {
                    // the pool is refilled / drained by position actions between distributions
                    let cur = m.position_impact.long_amount;
                    let p: $U = match rng.below(5) {
                        0 => minp.saturating_add(rng.below(3) as $U),
                        1 => cur.saturating_add(rng.uint(w / 2) as $U),
                        2 => rng.uint(w) as $U,
                        3 => minp.saturating_add(rng.uint(w / 2) as $U),
                        _ => cur / 2,
                    };
                    m.position_impact.long_amount = p;
                    ops.push(format!("SetPool {}", z(p)));
                    continue;
                }
                let cur = m.position_impact.long_amount;
                let excess = cur.saturating_sub(minp);
                let adv: u64 = match rng.below(if big { 3 } else { 12 }) {
                    0 => 0,
                    1 => rng.uint(64) as u64 / 2,
                    2 => rng.below(100),
                    _ => {
                        // split the excess over a few steps, or hit it exactly / just over
                        let frac = match rng.below(4) { 0 => excess, 1 => excess / 3, 2 => excess / 2 + 1, _ => excess / (rng.range(1, 8) as $U) };
                        let d = dur_for(rng, frac, rate);
                        if d == 0 { rng.range(1, 1000) } else { d }
                    }
                };
                // the distribution clock may be ahead of `now` (saturating_sub -> 0)
                let last = *m.clocks.get(&ClockKind::PriceImpactDistribution).unwrap();
                let now = if rng.chance(1, 25) { last.saturating_sub(rng.below(5)) } else { m.now.max(last).saturating_add(adv) };
                m.now = now;
                let r = m.distribute_position_impact().and_then(|a| a.execute());
                let rs = match &r {
                    Ok(rep) => {
                        let d = *rep.distribution_amount();
                        if d == 0 { n_zero += 1 } else if d == excess { n_cap += 1 } else { n_part += 1 }
                        format!("(Ok ({}, {}, {}))", z(rep.duration_in_seconds()), z(d), z(rep.next_position_impact_pool_amount()))
                    }
                    Err(e) => { n_fail += 1; format!("(Err {})", err_code(e)) }
                };
                let la = *m.clocks.get(&ClockKind::PriceImpactDistribution).unwrap();
                ops.push(format!("Dist {} {} {} {}", z(now), rs, z(m.position_impact.long_amount), z(la)));
            }
            let tag = if n_part + n_cap == 0 && n_fail == 0 { "trivial".to_string() }
                else { format!("p{}c{}z{}f{}", n_part.min(2), n_cap.min(2), n_zero.min(1), n_fail.min(1)) };
            emit(&format!("hist{w}/{tag}"),
                &format!("Hist {w} {dec} {} {} {} {} [{}]", z(rate), z(minp), z(pool0), z(last0), ops.join("; ")));
        }
    };
}

gen_for!(gen64, u64, 64, 9);
gen_for!(gen128, u128, 128, 20);

fn main() {
    let a = args();
    let mut rng = Rng::new(a.seed);
    for i in 0..a.n {
        let pure_case = i % 4 == 3;
        if rng.chance(1, 2) { gen64(&mut rng, pure_case) } else { gen128(&mut rng, pure_case) }
    }
}
