//! C37 driver: treasury Config factors and GT bank buyback claims.  The real helper methods are
//! driven directly through cfg(gmsol_verif) wrappers; the per-token transfer loop of
//! CompleteGtExchange::execute is replayed with the same calls in the same order
//! (get_balance, checked_mul_div, record_transferred_out, record_claimed) without the CPIs.
use anchor_lang::prelude::Pubkey;
use bytemuck::Zeroable;
use gmsol_model::num::MulDiv;
use gmsol_treasury::states::config::verif_hooks_g1 as ch;
use gmsol_treasury::states::gt_bank::verif_hooks_g1 as bh;
use gmsol_treasury::states::{Config, GtBank};
use gmsol_verif_harness::*;
use gmsol_verif_harness::g9rt::Arena;
use anchor_lang::{Discriminator, InstructionData};
use anchor_lang::solana_program::{account_info::AccountInfo, instruction::Instruction, program_error::ProgramError};

const UNIT: u128 = 100_000_000_000_000_000_000;

fn code(e: &anchor_lang::error::Error) -> u32 {
    match e {
        anchor_lang::error::Error::AnchorError(a) => match a.error_name.as_str() {
            "TokenAmountOverflow" => 2,
            "NotFound" => 3,
            "NotEnoughTokenAmount" => 4,
            "InvalidArgument" => 5,
            "Internal" => 6,
            "PreconditionsAreNotMet" => 7,
            "ExceedMaxLengthLimit" => 9,
            _ => 99,
        },
        _ => 99,
    }
}
fn rcode<T>(r: &anchor_lang::Result<T>) -> u32 { match r { Ok(_) => 0, Err(e) => code(e) } }

fn tok(n: u64) -> Pubkey {
    let mut b = [0u8; 32];
    b[24..32].copy_from_slice(&n.to_be_bytes());
    Pubkey::new_from_array(b)
}
fn tok_id(k: &Pubkey) -> u64 {
    let b = k.to_bytes();
    u64::from_be_bytes(b[24..32].try_into().unwrap())
}

fn snap(bank: &GtBank) -> String {
    let rows: Vec<String> = bank.tokens().map(|t| format!("({}, {})", tok_id(&t), bank.get_balance(&t).unwrap())).collect();
    format!("SSnap [{}] {}", rows.join("; "), bh::remaining_confirmed_gt_amount(bank))
}

/// The transfer loop of `CompleteGtExchange::execute` (instructions/gt_bank.rs) without the CPIs.
fn claim(bank: &mut GtBank, gt_amount: u64) -> anchor_lang::Result<Vec<(u64, u64, u64)>> {
    use anchor_lang::prelude::*;
    use gmsol_store::CoreError;
    let mut rows = vec![];
    if gt_amount == 0 {
        return Ok(rows);
    }
    let gt_bank_tokens = bank.tokens().collect::<Vec<_>>();
    let total_gt_amount = bh::remaining_confirmed_gt_amount(bank);
    require_gte!(total_gt_amount, gt_amount, CoreError::Internal);
    for token in gt_bank_tokens.iter() {
        let balance = bank.get_balance(token).expect("must exist");
        if balance == 0 {
            continue;
        }
        let amount = balance
            .checked_mul_div(&gt_amount, &total_gt_amount)
            .ok_or_else(|| error!(CoreError::TokenAmountOverflow))?;
        bh::record_transferred_out(bank, token, amount)?;
        rows.push((tok_id(token), balance, amount));
    }
    bh::record_claimed(bank, gt_amount)?;
    Ok(rows)
}

fn amount(r: &mut Rng) -> u64 {
    match r.below(8) {
        0 => r.uint(64) as u64,
        1 => r.below(1000),
        2 => 1_000_000 * r.below(1_000_000),
        3 => u64::MAX / (1 + r.below(5)),
        _ => r.below(1_000_000_000_000),
    }
}

fn config_history(rng: &mut Rng) {
    let mut cfg: Config = Config::zeroed();
    let mut steps = vec![];
    let n = 3 + rng.below(8);
    for _ in 0..n {
        let which = rng.chance(1, 2);
        let cur = if which { cfg.gt_factor() } else { cfg.buyback_factor() };
        let f: u128 = match rng.below(9) {
            0 => cur,
            1 => UNIT,
            2 => UNIT + 1,
            3 => UNIT - 1,
            4 => 0,
            5 => rng.uint(128),
            6 => UNIT * (1 + rng.below(5) as u128),
            _ => UNIT / 1000 * rng.below(1001) as u128,
        };
        let r = if which { ch::set_gt_factor(&mut cfg, f) } else { ch::set_buyback_factor(&mut cfg, f) };
        let rs = match &r { Ok(p) => format!("(Ok {})", z(p)), Err(e) => format!("(Err {})", code(e)) };
        steps.push(format!("{} {} {rs} {} {}", if which { "SGt" } else { "SBuy" }, z(f), z(cfg.gt_factor()), z(cfg.buyback_factor())));
    }
    emit("config/history", &format!("CConfig 20 [{}]", steps.join("; ")));
}

fn bank_history(rng: &mut Rng) {
    let mut bank: GtBank = GtBank::zeroed();
    let _ = bh::try_init(&mut bank, 255, tok(1000), tok(1001));
    let mut steps: Vec<String> = vec![];
    // ---- phase A: deposits / withdrawals
    let ntok = match rng.below(10) { 0 => 17 + rng.below(2), 1 => 16, 2 => 1, _ => 1 + rng.below(6) };
    let nops = ntok + rng.below(6);
    for i in 0..nops {
        let t = if i < ntok { 1 + ((i * 7) % 23) } else { 1 + rng.below(24) };
        if rng.chance(5, 6) {
            let a = amount(rng);
            let r = bh::record_transferred_in(&mut bank, &tok(t), a);
            steps.push(format!("SIn {t} {a} {}", rcode(&r)));
        } else {
            let cur = bank.get_balance(&tok(t)).unwrap_or(0);
            let a = match rng.below(4) { 0 => 0, 1 => cur, 2 => cur.saturating_add(1), _ => cur / 2 };
            let r = bh::record_transferred_out(&mut bank, &tok(t), a);
            steps.push(format!("SOut {t} {a} {}", rcode(&r)));
        }
    }
    steps.push(snap(&bank));
    // ---- confirmation: claimants first (their GT amounts sum to the confirmed total)
    let ncl = 1 + rng.below(8);
    let mut claims: Vec<u64> = vec![];
    let mut total: u64 = 0;
    for _ in 0..ncl {
        let g = match rng.below(8) { 0 => 0, 1 => 1, 2 => rng.below(1000), 3 => u64::MAX / 16, _ => rng.below(1_000_000_000_000) };
        if let Some(t) = total.checked_add(g) { total = t; claims.push(g); }
    }
    if rng.chance(1, 12) { claims.clear(); total = 0; }
    let r = bh::confirm_unchecked(&mut bank, total);
    steps.push(format!("SConfirm {total} {}", rcode(&r)));
    if rng.chance(1, 8) {
        let r = bh::confirm_unchecked(&mut bank, total / 2);
        steps.push(format!("SConfirm {} {}", total / 2, rcode(&r)));
    }
    // reserve the balances eligible for buyback (ConfirmGtBuyback::update_balances)
    match rng.below(8) {
        0 => { let _ = bh::record_all_transferred_out(&mut bank); steps.push("SAllOut".to_string()); }
        1 => {}
        _ => {
            let den: u128 = match rng.below(8) { 0 => rng.uint(128), 1 => 0, _ => (rng.next128() >> rng.below(100)) | 1 };
            let num: u128 = match rng.below(8) {
                0 => den,
                1 => den.saturating_add(1),
                2 => 0,
                3 => den / 2,
                4 => den - den / (2 + rng.below(1000) as u128),
                _ => if den == 0 { 0 } else { den / 16 * (1 + rng.below(15) as u128) + rng.next128() % (den / 16 + 1) }.min(den),
            };
            let before = bank;
            let r = bh::reserve_balances(&mut bank, &num, &den);
            if r.is_err() { bank = before; } // the transaction would be rolled back
            steps.push(format!("SReserve {} {} {}", z(num), z(den), rcode(&r)));
        }
    }
    steps.push(snap(&bank));
    // ---- phase B: claims in random order, with some refused ones
    let mut order = claims.clone();
    for i in (1..order.len()).rev() { let j = rng.below(i as u64 + 1) as usize; order.swap(i, j); }
    let mut tag = "bank/claims";
    for (i, g) in order.iter().enumerate() {
        if rng.chance(1, 6) {
            let rem = bh::remaining_confirmed_gt_amount(&bank);
            if let Some(bad) = rem.checked_add(1 + rng.below(5)) {
                let before = bank;
                let r = claim(&mut bank, bad);
                if r.is_err() { bank = before; }
                steps.push(format!("SClaim {bad} {} [] {}", rcode(&r), bh::remaining_confirmed_gt_amount(&bank)));
                tag = "bank/claims-with-refusals";
            }
        }
        let before = bank;
        let r = claim(&mut bank, *g);
        match &r {
            Ok(rows) => {
                let rs: Vec<String> = rows.iter().map(|(t, b, p)| format!("({t}, {b}, {p})")).collect();
                steps.push(format!("SClaim {g} 0 [{}] {}", rs.join("; "), bh::remaining_confirmed_gt_amount(&bank)));
            }
            Err(e) => { bank = before; steps.push(format!("SClaim {g} {} [] {}", code(e), bh::remaining_confirmed_gt_amount(&bank))); }
        }
        if rng.chance(1, 3) || i + 1 == order.len() { steps.push(snap(&bank)); }
    }
    if order.is_empty() { tag = "bank/no-claims"; }
    emit(tag, &format!("CBank [{}]", steps.join("; ")));
}


// ================================================================= instruction level
// The REAL `complete_gt_exchange` instruction of the treasury program, run in-process through
// `gmsol_treasury::entry`: Anchor account validation, the CPI into the store program's
// `close_gt_exchange` (dispatched to `gmsol_store::entry`, PDA signer checked), and the SPL-token
// `transfer_checked` CPIs (emulated on the token-account bytes, PDA signer checked).

fn token_account_data(mint: Pubkey, owner: Pubkey, amount: u64) -> Vec<u8> {
    let mut d = vec![0u8; 165];
    d[0..32].copy_from_slice(mint.as_ref());
    d[32..64].copy_from_slice(owner.as_ref());
    d[64..72].copy_from_slice(&amount.to_le_bytes());
    d[108] = 1; // AccountState::Initialized
    d
}
fn mint_data(decimals: u8) -> Vec<u8> {
    let mut d = vec![0u8; 82];
    d[36..44].copy_from_slice(&u64::MAX.to_le_bytes());
    d[44] = decimals;
    d[45] = 1;
    d
}
fn token_amount(data: &[u8]) -> u64 { u64::from_le_bytes(data[64..72].try_into().unwrap()) }
fn zc(disc: &[u8], bytes: &[u8]) -> Vec<u8> { let mut d = disc.to_vec(); d.extend_from_slice(bytes); d }
fn core_code(e: gmsol_store::CoreError) -> u32 {
    match anchor_lang::error::Error::from(e) { anchor_lang::error::Error::AnchorError(a) => a.error_code_number, _ => 0 }
}

fn pda_signed(key: &Pubkey, seeds: &[&[&[u8]]], caller: &Pubkey) -> bool {
    seeds.iter().any(|s| Pubkey::create_program_address(s, caller).map(|k| k == *key).unwrap_or(false))
}

fn ix_dispatcher() -> g9rt::Dispatcher {
    Box::new(|ix: &Instruction, infos: &[AccountInfo], seeds: &[&[&[u8]]]| {
        let caller = gmsol_treasury::ID;
        let find = |k: &Pubkey| infos.iter().find(|a| a.key == k).ok_or(ProgramError::NotEnoughAccountKeys);
        let signed = |k: &Pubkey| -> bool { find(k).map(|a| a.is_signer).unwrap_or(false) || pda_signed(k, seeds, &caller) };
        if ix.program_id == gmsol_store::ID {
            // CPI into the real store program
            let mut accounts: Vec<AccountInfo> = vec![];
            for m in &ix.accounts {
                let mut a = find(&m.pubkey)?.clone();
                if m.is_signer && !signed(&m.pubkey) { return Err(ProgramError::MissingRequiredSignature); }
                a.is_signer = m.is_signer;
                a.is_writable = m.is_writable;
                accounts.push(a);
            }
            // lifetimes: the infos point into the 'static arena
            let accounts: &'static [AccountInfo<'static>] = unsafe { std::mem::transmute::<&[AccountInfo], &'static [AccountInfo<'static>]>(Box::leak(accounts.into_boxed_slice())) };
            return gmsol_store::entry(&gmsol_store::ID, accounts, &ix.data);
        }
        if ix.program_id != anchor_spl::token::ID || ix.data.first() != Some(&12) {
            return Err(ProgramError::InvalidInstructionData);
        }
        let amount = u64::from_le_bytes(ix.data[1..9].try_into().unwrap());
        let from = find(&ix.accounts[0].pubkey)?;
        let mint = find(&ix.accounts[1].pubkey)?;
        let to = find(&ix.accounts[2].pubkey)?;
        let auth = &ix.accounts[3];
        if !auth.is_signer || !signed(&auth.pubkey) { return Err(ProgramError::MissingRequiredSignature); }
        if mint.try_borrow_data()?[44] != ix.data[9] { return Err(ProgramError::Custom(18)); }
        {
            let f = from.try_borrow_data()?;
            let t = to.try_borrow_data()?;
            if f[0..32] != t[0..32] || f[0..32] != *mint.key.as_ref() { return Err(ProgramError::Custom(3)); }
            if f[32..64] != *auth.pubkey.as_ref() { return Err(ProgramError::Custom(4)); }
        }
        let fa = token_amount(&from.try_borrow_data()?);
        let ta = token_amount(&to.try_borrow_data()?);
        let nf = fa.checked_sub(amount).ok_or(ProgramError::Custom(1))?;
        let nt = ta.checked_add(amount).ok_or(ProgramError::Custom(14))?;
        from.try_borrow_mut_data()?[64..72].copy_from_slice(&nf.to_le_bytes());
        to.try_borrow_mut_data()?[64..72].copy_from_slice(&nt.to_le_bytes());
        Ok(())
    })
}

struct IxWorld {
    arena: Arena,
    store: usize, config: usize, tvc: usize, vault: usize, bank: usize,
    store_prog: usize, token_prog: usize, token22_prog: usize,
    store_key: Pubkey, vault_key: Pubkey, bank_key: Pubkey,
}

impl IxWorld {
    fn bank(&self) -> &GtBank { bytemuck::from_bytes::<GtBank>(&self.arena.mems[self.bank].data()[8..]) }
    fn bank_mut(&mut self) -> &mut GtBank { let i = self.bank; bytemuck::from_bytes_mut::<GtBank>(&mut self.arena.mems[i].data_mut()[8..]) }
    fn bank_vault_key(&self, t: u64) -> Pubkey { anchor_spl::associated_token::get_associated_token_address(&self.bank_key, &tok(t)) }

    fn new() -> Self {
        use gmsol_store::ops::order::verif_hooks_g1 as sh;
        let tid = gmsol_treasury::ID;
        let sid = gmsol_store::ID;
        let mut arena = Arena::new();
        let store_key = g9rt::key(1);
        let (config_key, config_bump) = Pubkey::find_program_address(&[b"config", store_key.as_ref()], &tid);
        let tvc_key = g9rt::key(3);
        let vault_key = g9rt::key(4);
        let (bank_key, bank_bump) = Pubkey::find_program_address(&[b"gt_bank", tvc_key.as_ref(), vault_key.as_ref()], &tid);

        let mut st: gmsol_store::states::Store = bytemuck::Zeroable::zeroed();
        st.init(g9rt::key(90), "", 255, g9rt::key(91), g9rt::key(92)).unwrap();
        st.enable_role("GT_CONTROLLER").unwrap();
        st.grant(&config_key, "GT_CONTROLLER").unwrap();
        sh::gt_init(&mut st, 7, 100_000_000_000_000_000_000, 101_000_000_000_000_000_000, 1_000_000, &[10, 20]).unwrap();
        let store = arena.add(store_key, sid, 1, &g9rt::zero_copy_data(&st), false, false, false);

        let mut cfg = vec![0u8; std::mem::size_of::<Config>()];
        cfg[1] = config_bump;
        cfg[16..48].copy_from_slice(store_key.as_ref());
        cfg[48..80].copy_from_slice(tvc_key.as_ref());
        let config = arena.add(config_key, tid, 1, &zc(Config::DISCRIMINATOR, &cfg), false, false, false);

        let mut tv = vec![0u8; std::mem::size_of::<gmsol_treasury::states::TreasuryVaultConfig>()];
        tv[16..48].copy_from_slice(config_key.as_ref());
        let tvc = arena.add(tvc_key, tid, 1, &zc(gmsol_treasury::states::TreasuryVaultConfig::DISCRIMINATOR, &tv), false, false, false);

        let mut gv: gmsol_programs::gmsol_store::accounts::GtExchangeVault = bytemuck::Zeroable::zeroed();
        gv.bump = 250; gv.flags.value = 0b11; gv.ts = 1_700_000_000; gv.time_window = 3600; gv.store = store_key;
        let vault = arena.add(vault_key, sid, 1, &zc(gmsol_store::states::gt::GtExchangeVault::DISCRIMINATOR, bytemuck::bytes_of(&gv)), false, true, false);

        let mut bank: GtBank = GtBank::zeroed();
        bh::try_init(&mut bank, bank_bump, tvc_key, vault_key).unwrap();
        let bank_i = arena.add(bank_key, tid, 1, &g9rt::zero_copy_data(&bank), false, true, false);

        let store_prog = arena.add(sid, Pubkey::default(), 1, &[], false, false, true);
        let token_prog = arena.add(anchor_spl::token::ID, Pubkey::default(), 1, &[], false, false, true);
        let token22_prog = arena.add(anchor_spl::token_2022::ID, Pubkey::default(), 1, &[], false, false, true);
        IxWorld { arena, store, config, tvc, vault, bank: bank_i, store_prog, token_prog, token22_prog, store_key, vault_key, bank_key }
    }

    /// Adds (or finds) an account.
    fn ensure(&mut self, key: Pubkey, owner: Pubkey, data: &[u8], writable: bool) -> usize {
        match self.arena.find(&key) { Some(i) => i, None => self.arena.add(key, owner, 1, data, false, writable, false) }
    }

    /// One exchange claim of `g` GT by claimant number `who` through the real instruction.
    /// Returns the rows (token, balance before, paid) or the custom error number.
    fn claim(&mut self, who: u64, g: u64) -> std::result::Result<Vec<(u64, u64, u64)>, u32> {
        let owner_key = g9rt::key(100 + who);
        let owner = match self.arena.find(&owner_key) { Some(i) => i, None => self.arena.add(owner_key, Pubkey::default(), 1_000_000, &[], true, true, false) };
        let (ex_key, ex_bump) = Pubkey::find_program_address(&[b"gt_exchange", self.vault_key.as_ref(), owner_key.as_ref()], &gmsol_store::ID);
        let mut ex: gmsol_programs::gmsol_store::accounts::GtExchange = bytemuck::Zeroable::zeroed();
        ex.bump = ex_bump; ex.flags.value = 1; ex.amount = g; ex.owner = owner_key; ex.store = self.store_key; ex.vault = self.vault_key;
        let exchange = self.arena.add(ex_key, gmsol_store::ID, 2_000_000, &zc(gmsol_store::states::gt::GtExchange::DISCRIMINATOR, bytemuck::bytes_of(&ex)), false, true, false);

        let tokens: Vec<u64> = self.bank().tokens().map(|t| tok_id(&t)).collect();
        let before: Vec<u64> = tokens.iter().map(|t| self.bank().get_balance(&tok(*t)).unwrap()).collect();
        let mut mints = vec![]; let mut vaults = vec![]; let mut targets = vec![];
        for t in &tokens {
            let bal = self.bank().get_balance(&tok(*t)).unwrap();
            let m = self.ensure(tok(*t), anchor_spl::token::ID, &mint_data((t % 10) as u8), false);
            let vk = self.bank_vault_key(*t);
            let bank_key = self.bank_key;
            let v = self.ensure(vk, anchor_spl::token::ID, &token_account_data(tok(*t), bank_key, 0), true);
            // the vault holds at least the recorded balance (anything above it belongs to the treasury)
            self.arena.mems[v].data_mut()[64..72].copy_from_slice(&bal.to_le_bytes());
            let tk = g9rt::key(10_000 + who * 100 + t);
            let tg = self.ensure(tk, anchor_spl::token::ID, &token_account_data(tok(*t), owner_key, 0), true);
            self.arena.mems[tg].data_mut()[64..72].copy_from_slice(&0u64.to_le_bytes());
            mints.push(m); vaults.push(v); targets.push(tg);
        }
        let a = &self.arena;
        let mut accounts = vec![
            a.info_with(owner, true, true), a.info(self.store), a.info(self.config), a.info(self.tvc),
            a.info(self.vault), a.info(self.bank), a.info(exchange),
            a.info(self.store_prog), a.info(self.token_prog), a.info(self.token22_prog),
        ];
        for i in mints.iter().chain(vaults.iter()).chain(targets.iter()) { accounts.push(a.info(*i)); }
        let data = gmsol_treasury::instruction::CompleteGtExchange {}.data();
        let snap = self.arena.snapshot();
        let accounts: &'static [AccountInfo<'static>] = Box::leak(accounts.into_boxed_slice());
        match gmsol_treasury::entry(&gmsol_treasury::ID, accounts, &data) {
            Ok(()) => {
                let mut rows = vec![];
                for (i, t) in tokens.iter().enumerate() {
                    let paid = token_amount(self.arena.mems[targets[i]].data());
                    // a zero claim returns before the loop: nothing is paid and there are no rows
                    if before[i] != 0 && g != 0 { rows.push((*t, before[i], paid)); }
                    else { assert_eq!(paid, 0); }
                    // the bank's token vault really lost what the bank recorded
                    assert_eq!(token_amount(self.arena.mems[vaults[i]].data()), before[i] - paid);
                }
                // the exchange account was closed by the store program
                assert_eq!(self.arena.mems[exchange].data_len(), 0);
                Ok(rows)
            }
            Err(e) => { self.arena.restore(&snap); Err(match e { ProgramError::Custom(c) => c, _ => 1 }) }
        }
    }
}

fn bank_history_ix(rng: &mut Rng) {
    let mut w = IxWorld::new();
    let mut steps: Vec<String> = vec![];
    let ntok = match rng.below(8) { 0 => 16, 1 => 1, _ => 1 + rng.below(5) };
    for i in 0..ntok {
        let t = 1 + ((i * 7) % 23);
        let a = if rng.chance(1, 8) { 0 } else { amount(rng) };
        let r = bh::record_transferred_in(w.bank_mut(), &tok(t), a);
        steps.push(format!("SIn {t} {a} {}", rcode(&r)));
    }
    steps.push(snap(w.bank()));
    let ncl = 1 + rng.below(6);
    let mut claims: Vec<u64> = vec![];
    let mut total: u64 = 0;
    for _ in 0..ncl {
        let g = match rng.below(8) { 0 => 0, 1 => 1, 2 => rng.below(1000), 3 => u64::MAX / 16, _ => rng.below(1_000_000_000_000) };
        if let Some(t) = total.checked_add(g) { total = t; claims.push(g); }
    }
    let r = bh::confirm_unchecked(w.bank_mut(), total);
    steps.push(format!("SConfirm {total} {}", rcode(&r)));
    // the exchange vault's confirmed amount
    { let v = w.vault; let d = w.arena.mems[v].data_mut(); d[8 + 24..8 + 32].copy_from_slice(&total.to_le_bytes()); }
    if rng.chance(3, 4) {
        let den: u128 = (rng.next128() >> rng.below(100)) | 1;
        let num: u128 = match rng.below(4) { 0 => den, 1 => den / 2, _ => (den / 16 * (1 + rng.below(15) as u128)).min(den) };
        let before = *w.bank();
        let r = bh::reserve_balances(w.bank_mut(), &num, &den);
        if r.is_err() { *w.bank_mut() = before; }
        steps.push(format!("SReserve {} {} {}", z(num), z(den), rcode(&r)));
    }
    steps.push(snap(w.bank()));
    let mut order: Vec<(u64, u64)> = claims.iter().enumerate().map(|(i, g)| (i as u64, *g)).collect();
    for i in (1..order.len()).rev() { let j = rng.below(i as u64 + 1) as usize; order.swap(i, j); }
    let internal = core_code(gmsol_store::CoreError::Internal);
    let mut tag = "bank-ix/claims";
    for (n, (who, g)) in order.iter().enumerate() {
        if rng.chance(1, 6) {
            let rem = bh::remaining_confirmed_gt_amount(w.bank());
            if let Some(bad) = rem.checked_add(1 + rng.below(5)) {
                let r = w.claim(50 + n as u64, bad);
                let c = match &r { Ok(_) => 0, Err(c) if *c == internal => 6, Err(_) => 99 };
                steps.push(format!("SClaim {bad} {c} [] {}", bh::remaining_confirmed_gt_amount(w.bank())));
                tag = "bank-ix/claims-with-refusals";
            }
        }
        match w.claim(*who, *g) {
            Ok(rows) => {
                let rs: Vec<String> = rows.iter().map(|(t, b, p)| format!("({t}, {b}, {p})")).collect();
                steps.push(format!("SClaim {g} 0 [{}] {}", rs.join("; "), bh::remaining_confirmed_gt_amount(w.bank())));
            }
            Err(c) => { tag = "bank-ix/ERROR"; steps.push(format!("SClaim {g} {} [] {}", if c == internal { 6 } else { c }, bh::remaining_confirmed_gt_amount(w.bank()))); }
        }
        if rng.chance(1, 3) || n + 1 == order.len() { steps.push(snap(w.bank())); }
    }
    emit(tag, &format!("CBank [{}]", steps.join("; ")));
}

fn main() {
    let a = args();
    let mut rng = Rng::new(a.seed);
    g9rt::install();
    g9rt::set_dispatcher(Some(ix_dispatcher()));
    for i in 0..a.n {
        match i % 5 { 0 => config_history(&mut rng), 1 | 2 => bank_history(&mut rng), _ => bank_history_ix(&mut rng) }
    }
}
