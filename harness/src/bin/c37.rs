//! C37 driver: treasury Config factors and GT bank buyback claims.  The real helper methods are
//! driven directly through cfg(gmsol_verif) wrappers; the per-token transfer loop of
//! CompleteGtExchange::execute is replayed with the same calls in the same order
//! (get_balance, checked_mul_div, record_transferred_out, record_claimed) without the CPIs.
use anchor_lang::prelude::Pubkey;
use bytemuck::Zeroable;
use gmsol_model::num::MulDiv;
use gmsol_treasury::states::config::verif_hooks_g1 as ch;
use gmsol_treasury::states::gt_bank::verif_hooks_g1 as bh;
use gmsol_treasury::states::{Config, GtBank};
use gmsol_verif_harness::*;

const UNIT: u128 = 100_000_000_000_000_000_000;

fn code(e: &anchor_lang::error::Error) -> u32 {
    match e {
        anchor_lang::error::Error::AnchorError(a) => match a.error_name.as_str() {
            "TokenAmountOverflow" => 2,
            "NotFound" => 3,
            "NotEnoughTokenAmount" => 4,
            "InvalidArgument" => 5,
            "Internal" => 6,
            "PreconditionsAreNotMet" => 7,
            "ExceedMaxLengthLimit" => 9,
            _ => 99,
        },
        _ => 99,
    }
}
fn rcode<T>(r: &anchor_lang::Result<T>) -> u32 { match r { Ok(_) => 0, Err(e) => code(e) } }

fn tok(n: u64) -> Pubkey {
    let mut b = [0u8; 32];
    b[24..32].copy_from_slice(&n.to_be_bytes());
    Pubkey::new_from_array(b)
}
fn tok_id(k: &Pubkey) -> u64 {
    let b = k.to_bytes();
    u64::from_be_bytes(b[24..32].try_into().unwrap())
}

fn snap(bank: &GtBank) -> String {
    let rows: Vec<String> = bank.tokens().map(|t| format!("({}, {})", tok_id(&t), bank.get_balance(&t).unwrap())).collect();
    format!("SSnap [{}] {}", rows.join("; "), bh::remaining_confirmed_gt_amount(bank))
}

/// The transfer loop of `CompleteGtExchange::execute` (instructions/gt_bank.rs) without the CPIs.
fn claim(bank: &mut GtBank, gt_amount: u64) -> anchor_lang::Result<Vec<(u64, u64, u64)>> {
    use anchor_lang::prelude::*;
    use gmsol_store::CoreError;
    let mut rows = vec![];
    if gt_amount == 0 {
        return Ok(rows);
    }
    let gt_bank_tokens = bank.tokens().collect::<Vec<_>>();
    let total_gt_amount = bh::remaining_confirmed_gt_amount(bank);
    require_gte!(total_gt_amount, gt_amount, CoreError::Internal);
    for token in gt_bank_tokens.iter() {
        let balance = bank.get_balance(token).expect("must exist");
        if balance == 0 {
            continue;
        }
        let amount = balance
            .checked_mul_div(&gt_amount, &total_gt_amount)
            .ok_or_else(|| error!(CoreError::TokenAmountOverflow))?;
        bh::record_transferred_out(bank, token, amount)?;
        rows.push((tok_id(token), balance, amount));
    }
    bh::record_claimed(bank, gt_amount)?;
    Ok(rows)
}

fn amount(r: &mut Rng) -> u64 {
    match r.below(8) {
        0 => r.uint(64) as u64,
        1 => r.below(1000),
        2 => 1_000_000 * r.below(1_000_000),
        3 => u64::MAX / (1 + r.below(5)),
        _ => r.below(1_000_000_000_000),
    }
}

fn config_history(rng: &mut Rng) {
    let mut cfg: Config = Config::zeroed();
    let mut steps = vec![];
    let n = 3 + rng.below(8);
    for _ in 0..n {
        let which = rng.chance(1, 2);
        let cur = if which { cfg.gt_factor() } else { cfg.buyback_factor() };
        let f: u128 = match rng.below(9) {
            0 => cur,
            1 => UNIT,
            2 => UNIT + 1,
            3 => UNIT - 1,
            4 => 0,
            5 => rng.uint(128),
            6 => UNIT * (1 + rng.below(5) as u128),
            _ => UNIT / 1000 * rng.below(1001) as u128,
        };
        let r = if which { ch::set_gt_factor(&mut cfg, f) } else { ch::set_buyback_factor(&mut cfg, f) };
        let rs = match &r { Ok(p) => format!("(Ok {})", z(p)), Err(e) => format!("(Err {})", code(e)) };
        steps.push(format!("{} {} {rs} {} {}", if which { "SGt" } else { "SBuy" }, z(f), z(cfg.gt_factor()), z(cfg.buyback_factor())));
    }
    emit("config/history", &format!("CConfig 20 [{}]", steps.join("; ")));
}

fn bank_history(rng: &mut Rng) {
    let mut bank: GtBank = GtBank::zeroed();
    let _ = bh::try_init(&mut bank, 255, tok(1000), tok(1001));
    let mut steps: Vec<String> = vec![];
    // ---- phase A: deposits / withdrawals
    let ntok = match rng.below(10) { 0 => 17 + rng.below(2), 1 => 16, 2 => 1, _ => 1 + rng.below(6) };
    let nops = ntok + rng.below(6);
    for i in 0..nops {
        let t = if i < ntok { 1 + ((i * 7) % 23) } else { 1 + rng.below(24) };
        if rng.chance(5, 6) {
            let a = amount(rng);
            let r = bh::record_transferred_in(&mut bank, &tok(t), a);
            steps.push(format!("SIn {t} {a} {}", rcode(&r)));
        } else {
            let cur = bank.get_balance(&tok(t)).unwrap_or(0);
            let a = match rng.below(4) { 0 => 0, 1 => cur, 2 => cur.saturating_add(1), _ => cur / 2 };
            let r = bh::record_transferred_out(&mut bank, &tok(t), a);
            steps.push(format!("SOut {t} {a} {}", rcode(&r)));
        }
    }
    steps.push(snap(&bank));
    // ---- confirmation: claimants first (their GT amounts sum to the confirmed total)
    let ncl = 1 + rng.below(8);
    let mut claims: Vec<u64> = vec![];
    let mut total: u64 = 0;
    for _ in 0..ncl {
        let g = match rng.below(8) { 0 => 0, 1 => 1, 2 => rng.below(1000), 3 => u64::MAX / 16, _ => rng.below(1_000_000_000_000) };
        if let Some(t) = total.checked_add(g) { total = t; claims.push(g); }
    }
    if rng.chance(1, 12) { claims.clear(); total = 0; }
    let r = bh::confirm_unchecked(&mut bank, total);
    steps.push(format!("SConfirm {total} {}", rcode(&r)));
    if rng.chance(1, 8) {
        let r = bh::confirm_unchecked(&mut bank, total / 2);
        steps.push(format!("SConfirm {} {}", total / 2, rcode(&r)));
    }
    // reserve the balances eligible for buyback (ConfirmGtBuyback::update_balances)
    match rng.below(8) {
        0 => { let _ = bh::record_all_transferred_out(&mut bank); steps.push("SAllOut".to_string()); }
        1 => {}
        _ => {
            let den: u128 = match rng.below(8) { 0 => rng.uint(128), 1 => 0, _ => (rng.next128() >> rng.below(100)) | 1 };
            let num: u128 = match rng.below(8) {
                0 => den,
                1 => den.saturating_add(1),
                2 => 0,
                3 => den / 2,
                4 => den - den / (2 + rng.below(1000) as u128),
                _ => if den == 0 { 0 } else { den / 16 * (1 + rng.below(15) as u128) + rng.next128() % (den / 16 + 1) }.min(den),
            };
            let before = bank;
            let r = bh::reserve_balances(&mut bank, &num, &den);
            if r.is_err() { bank = before; } // the transaction would be rolled back
            steps.push(format!("SReserve {} {} {}", z(num), z(den), rcode(&r)));
        }
    }
    steps.push(snap(&bank));
    // ---- phase B: claims in random order, with some refused ones
    let mut order = claims.clone();
    for i in (1..order.len()).rev() { let j = rng.below(i as u64 + 1) as usize; order.swap(i, j); }
    let mut tag = "bank/claims";
    for (i, g) in order.iter().enumerate() {
        if rng.chance(1, 6) {
            let rem = bh::remaining_confirmed_gt_amount(&bank);
            if let Some(bad) = rem.checked_add(1 + rng.below(5)) {
                let before = bank;
                let r = claim(&mut bank, bad);
                if r.is_err() { bank = before; }
                steps.push(format!("SClaim {bad} {} [] {}", rcode(&r), bh::remaining_confirmed_gt_amount(&bank)));
                tag = "bank/claims-with-refusals";
            }
        }
        let before = bank;
        let r = claim(&mut bank, *g);
        match &r {
            Ok(rows) => {
                let rs: Vec<String> = rows.iter().map(|(t, b, p)| format!("({t}, {b}, {p})")).collect();
                steps.push(format!("SClaim {g} 0 [{}] {}", rs.join("; "), bh::remaining_confirmed_gt_amount(&bank)));
            }
            Err(e) => { bank = before; steps.push(format!("SClaim {g} {} [] {}", code(e), bh::remaining_confirmed_gt_amount(&bank))); }
        }
        if rng.chance(1, 3) || i + 1 == order.len() { steps.push(snap(&bank)); }
    }
    if order.is_empty() { tag = "bank/no-claims"; }
    emit(tag, &format!("CBank [{}]", steps.join("; ")));
}

fn main() {
    let a = args();
    let mut rng = Rng::new(a.seed);
    g9rt::install();
    for i in 0..a.n {
        if i % 5 == 0 { config_history(&mut rng) } else { bank_history(&mut rng) }
    }
}
