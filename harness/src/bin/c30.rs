//! C30 driver: GT state machine (mint / burn / ranks / mint cost / exchange windows).
//!
//! The real `GtState`, `UserHeader`, `GtExchangeVault`, `GtExchange`, `Order` and `Store` structs are
//! created zeroed (bytemuck) and driven through the cfg(gmsol_verif) thin wrappers around the
//! crate-private functions; `Clock` comes from the syscall stub.  A failed call is rolled back
//! (the structs are `Copy`), as the runtime does for a failed transaction.
use anchor_lang::prelude::{AccountInfo, Pubkey};
use bytemuck::Zeroable;
use gmsol_store::states::gt::{verif_hooks_g6 as gh, GtExchange, GtExchangeVault, GtState};
use gmsol_store::states::order::verif_hooks_g6 as oh;
use gmsol_store::states::user::verif_hooks_g6 as uh;
use gmsol_store::states::{Order, Store, UserHeader};
use gmsol_verif_harness::g6rt::{self, emit};
use gmsol_verif_harness::*;

fn class(e: &anchor_lang::error::Error) -> u64 {
    match e {
        anchor_lang::error::Error::AnchorError(a) => match a.error_name.as_str() {
            "TokenAmountOverflow" => 1,
            "InvalidGTConfig" => 2,
            "Internal" => 3,
            "ValueOverflow" => 4,
            "NotEnoughTokenAmount" => 5,
            "PreconditionsAreNotMet" => 6,
            "InvalidArgument" => 7,
            "GTStateHasBeenInitialized" => 8,
            "InvalidUserAccount" => 9,
            _ => 90,
        },
        _ => 91,
    }
}

fn boxed_zeroed<T: Zeroable>() -> Box<T> {
    unsafe {
        let layout = std::alloc::Layout::new::<T>();
        let p = std::alloc::alloc_zeroed(layout) as *mut T;
        assert!(!p.is_null());
        Box::from_raw(p)
    }
}

fn i64_at<T: bytemuck::Pod>(v: &T, off: usize) -> i64 {
    i64::from_le_bytes(bytemuck::bytes_of(v)[off..off + 8].try_into().unwrap())
}

fn gstr(g: &GtState) -> String {
    // last_cumulative_inv_cost_factor_ts has no reader: offset 48 of the repr(C) struct
    format!(
        "(Gv {} {} {} {} {} {} {} {})",
        z(g.total_minted()), z(g.grow_steps()), z(g.supply()), z(g.gt_vault()), z(g.minting_cost()),
        z(gh::cumulative_inv_cost_factor(g)), z(i64_at(g, 48)), z(gh::last_minted_at(g))
    )
}
fn ustr(u: &UserHeader) -> String {
    format!(
        "(Uv {} {} {} {} {} {})",
        u.gt().rank(), z(uh::gt_last_minted_at(u)), z(uh::gt_total_minted(u)), z(u.gt().amount()),
        z(u.gt().paid_fee_value()), z(u.gt().minted_fee_value())
    )
}
fn vstr(v: &GtExchangeVault) -> String {
    // ts has no reader: bump u8, flags u8, padding [u8; 6], ts i64 at offset 8
    format!("(Vv {} {} {} {} {})", b(v.is_initialized()), b(v.is_confirmed()), z(i64_at(v, 8)), z(v.time_window()), z(v.amount()))
}
fn zlc<T: std::fmt::Display>(v: &[T]) -> String {
    if v.is_empty() { "nil".into() } else { format!("({} :: nil)", v.iter().map(|x| z(x)).collect::<Vec<_>>().join(" :: ")) }
}

const UNIT: u128 = 100_000_000_000_000_000_000;

struct Cfg { cost: u128, grow: u128, step: u64, ranks: Vec<u64> }

fn gen_cfg(rng: &mut Rng) -> Cfg {
    let cost = match rng.below(12) {
        0 => 0,
        1 => 1,
        2 => 1 + rng.below(50) as u128,
        3 => u128::MAX / (1 + rng.below(4) as u128),
        4 | 5 => UNIT / 20,
        6 => UNIT / 20 + rng.below(1000) as u128,
        _ => 1 + rng.below(100_000) as u128 * (1 + rng.below(1000) as u128),
    };
    let grow = match rng.below(12) {
        0 => 0,
        1 => UNIT,
        2 => UNIT - 1 - rng.below(UNIT as u64 / 2) as u128,
        3 => UNIT * (2 + rng.below(1000) as u128),
        4 => rng.uint(128),
        5 => UNIT + 1,
        _ => UNIT + UNIT / 100 * (1 + rng.below(20) as u128),
    };
    let step = match rng.below(10) {
        0 => 0,
        1 => 1,
        2 => u64::MAX - rng.below(3),
        3 => 100_000u64 * 10u64.pow(rng.below(5) as u32),
        _ => 1 + rng.below(60),
    };
    let n = match rng.below(8) { 0 => 0, 1 => 15, 2 => 16 + rng.below(3) as usize, _ => 1 + rng.below(7) as usize };
    let mut ranks: Vec<u64> = vec![];
    let mut cur: u64 = if rng.chance(1, 6) { 0 } else { 1 + rng.below(20) };
    for _ in 0..n {
        ranks.push(cur);
        let gap = if rng.chance(1, 2) { 3 } else { 40 };
        cur = cur.saturating_add(1 + rng.below(gap));
    }
    if n >= 2 && rng.chance(1, 12) {
        let i = rng.below(n as u64 - 1) as usize;
        if rng.chance(1, 2) { ranks[i + 1] = ranks[i]; } else { ranks.swap(i, i + 1); }
    }
    Cfg { cost, grow, step, ranks }
}

fn history(rng: &mut Rng) {
    let cfg = gen_cfg(rng);
    let mut store: Box<Store> = boxed_zeroed();
    let mut order: Box<Order> = boxed_zeroed();
    let t0: i64 = if rng.chance(1, 10) { rng.sint(64) as i64 } else { 1_000 + rng.below(100_000) as i64 };
    g6rt::set_now(t0);
    let store_key = Pubkey::new_unique();
    let r = gh::init(oh::gt_mut(&mut store), 7, cfg.cost, cfg.grow, cfg.step, &cfg.ranks);
    let head = format!("{} {} {} {} {}", z(t0), z(cfg.cost), z(cfg.grow), z(cfg.step), zlc(&cfg.ranks));
    if let Err(e) = &r {
        emit("ginit/rejected", &format!("GInit {head} {}", class(e)));
        return;
    }
    assert_eq!(store.gt().exchange_time_window() as i64, 86400);
    assert_eq!(gh::ranks(store.gt()).len(), cfg.ranks.len().min(15));
    // a second init must be rejected
    if rng.chance(1, 10) {
        let r2 = gh::init(oh::gt_mut(&mut store), 7, cfg.cost, cfg.grow, cfg.step, &cfg.ranks);
        assert!(r2.is_err());
    }
    let nusers = 1 + rng.below(4);
    let mut users: Vec<UserHeader> = (0..nusers).map(|i| {
        let mut u = UserHeader::zeroed();
        uh::user_init(&mut u, &store_key, &Pubkey::new_unique(), i as u8).unwrap();
        u
    }).collect();
    let nv = 3usize;
    let mut vaults: Vec<GtExchangeVault> = (0..nv).map(|_| GtExchangeVault::zeroed()).collect();
    let mut exch: std::collections::BTreeMap<(usize, usize), GtExchange> = Default::default();
    let mut lamports = 0u64;
    let mut data: [u8; 0] = [];
    let ea_key = Pubkey::new_unique();
    let owner = Pubkey::default();
    let event_authority = AccountInfo::new(&ea_key, false, false, &mut lamports, &mut data, &owner, false, 0);

    let mut now = t0;
    let nops = 4 + rng.below(36) as usize;
    let mut out: Vec<String> = vec![];
    let (mut n_err, mut n_steps, mut n_rank, mut n_conf, mut n_req, mut n_proc) = (0, 0, 0, 0, 0, 0);
    let step_amt = cfg.step.max(1);
    for _ in 0..nops {
        now = match rng.below(16) {
            0..=5 => now,
            6..=11 => now.saturating_add(rng.below(40) as i64),
            12 => now.saturating_add(rng.below(200_000) as i64),
            13 => now.saturating_sub(rng.below(50) as i64),
            14 if rng.chance(1, 4) => rng.sint(64) as i64,
            _ => now.saturating_add(1),
        };
        g6rt::set_now(now);
        let ui = rng.below(nusers) as usize;
        let vi = rng.below(nv as u64) as usize;
        let amount = |rng: &mut Rng, bal: u64| -> u64 {
            match rng.below(14) {
                0 => 0,
                1 => step_amt,
                2 => step_amt.saturating_sub(1),
                3 => step_amt.saturating_mul(2 + rng.below(5)).saturating_add(rng.below(3)),
                4 => bal,
                5 => bal.saturating_add(1),
                6 => rng.uint(64) as u64,
                7 if !cfg.ranks.is_empty() => { let r = *rng.pick(&cfg.ranks); r.saturating_sub(bal).saturating_add(rng.below(3)).saturating_sub(1) }
                8 if !cfg.ranks.is_empty() => { let r = *rng.pick(&cfg.ranks); bal.saturating_sub(r).saturating_add(rng.below(3)).saturating_sub(1) }
                _ => 1 + rng.below(40),
            }
        };
        // the program loops once per crossed step: keep that bounded unless the cost is sure to overflow quickly
        let bounded = |g: &GtState, mint: u64| -> u64 {
            let st = cfg.step.max(1);
            let crossed = (g.total_minted().saturating_add(mint) / st).saturating_sub(g.grow_steps());
            let explodes = g.minting_cost() >= 1 && cfg.grow >= 2 * UNIT;
            if crossed <= 300 || explodes || g.total_minted().checked_add(mint).is_none() { mint } else { st.saturating_mul(1 + mint % 200) }
        };
        // snapshots for rollback
        let g0 = *store.gt();
        let u0 = users[ui];
        let v0 = vaults[vi];
        let old_steps = g0.grow_steps();
        let old_rank = u0.gt().rank();
        let kind = rng.below(100);
        // prefer initialising a vault before using it
        let kind = if (62..95).contains(&kind) && !v0.is_initialized() && rng.chance(3, 4) { 65 } else { kind };
        let s = if kind < 30 {
            let a = amount(rng, u0.gt().amount());
            let a = bounded(&g0, a);
            let r = gh::mint_to(oh::gt_mut(&mut store), &mut users[ui], a);
            let rc = match &r { Ok(()) => 0, Err(e) => class(e) };
            if rc != 0 { *oh::gt_mut(&mut store) = g0; users[ui] = u0; }
            format!("(Sp (Mint {} {} {}) (OU {rc} {} {} None))", ui, z(a), z(now), gstr(store.gt()), ustr(&users[ui]))
        } else if kind < 42 {
            let a = amount(rng, u0.gt().amount());
            let r = gh::burn_from(oh::gt_mut(&mut store), &mut users[ui], a);
            let rc = match &r { Ok(()) => 0, Err(e) => class(e) };
            if rc != 0 { *oh::gt_mut(&mut store) = g0; users[ui] = u0; }
            format!("(Sp (Burn {} {}) (OU {rc} {} {} None))", ui, z(a), gstr(store.gt()), ustr(&users[ui]))
        } else if kind < 62 {
            let c = g0.minting_cost();
            let paid: u128 = match rng.below(10) {
                0 => 0,
                1 => c,
                2 => c.saturating_sub(1),
                3 => c.saturating_mul(1 + rng.below(100) as u128).saturating_add(rng.below(3) as u128),
                4 => rng.uint(128),
                5 => c.saturating_mul(step_amt as u128).saturating_add(rng.below(2) as u128),
                _ => (c / 7).saturating_mul(1 + rng.below(40) as u128).saturating_add(rng.below(100) as u128),
            };
            let paid = if c == 0 { paid } else {
                let want = (u0.gt().paid_fee_value().saturating_add(paid).saturating_sub(u0.gt().minted_fee_value()) / c).min(u64::MAX as u128) as u64;
                if bounded(&g0, want) == want { paid } else { c.saturating_mul(1 + (paid % 300)) }
            };
            let before_reward = oh::gt_reward(&order);
            let r = oh::process_gt(&mut order, &mut store, &mut users[ui], paid, &event_authority, 255);
            let rc = match &r { Ok(()) => 0, Err(e) => class(e) };
            if rc != 0 { *oh::gt_mut(&mut store) = g0; users[ui] = u0; }
            let reward = if rc == 0 && paid != 0 { format!("(Some {})", z(oh::gt_reward(&order))) } else { assert_eq!(oh::gt_reward(&order), before_reward); "None".into() };
            if rc == 0 && paid != 0 { n_proc += 1; }
            format!("(Sp (Proc {} {} {}) (OU {rc} {} {} {reward}))", ui, z(paid), z(now), gstr(store.gt()), ustr(&users[ui]))
        } else if kind < 70 {
            let win: u32 = match rng.below(10) { 0 => 0, 1 => 1, 2 => u32::MAX, 3 => 86400, 4 | 5 => 5 + rng.below(60) as u32, _ => 100 + rng.below(3000) as u32 };
            let r = gh::vault_init(&mut vaults[vi], 3, &store_key, win);
            let rc = match &r { Ok(()) => 0, Err(e) => class(e) };
            if rc != 0 { vaults[vi] = v0; }
            format!("(Sp (VInit {} {} {}) (OV {rc} {} {} None))", vi, z(win), z(now), gstr(store.gt()), vstr(&vaults[vi]))
        } else if kind < 87 {
            let a = amount(rng, u0.gt().amount());
            let a = if u0.gt().amount() > 0 && rng.chance(1, 2) { 1 + rng.below(u0.gt().amount()) } else { a };
            let x = exch.entry((vi, ui)).or_insert_with(|| {
                let mut x = GtExchange::zeroed();
                gh::exchange_init(&mut x, 1, &uh::owner(&u0), &store_key, &Pubkey::default()).unwrap();
                x
            });
            let x0 = *x;
            let r = gh::request_exchange(oh::gt_mut(&mut store), &mut users[ui], &mut vaults[vi], x, a);
            let rc = match &r { Ok(()) => 0, Err(e) => class(e) };
            if rc != 0 { *oh::gt_mut(&mut store) = g0; users[ui] = u0; vaults[vi] = v0; *x = x0; } else if a != 0 { n_req += 1; }
            format!("(Sp (Req {} {} {} {}) (OR {rc} {} {} {} {}))", ui, vi, z(a), z(now), gstr(store.gt()), ustr(&users[ui]), vstr(&vaults[vi]), z(x.amount()))
        } else {
            let r = gh::confirm_exchange_vault(oh::gt_mut(&mut store), &mut vaults[vi]);
            let (rc, ret) = match &r { Ok(a) => (0, format!("(Some {})", z(a))), Err(e) => (class(e), "None".to_string()) };
            if rc != 0 { *oh::gt_mut(&mut store) = g0; vaults[vi] = v0; } else { n_conf += 1; }
            format!("(Sp (Conf {} {}) (OV {rc} {} {} {ret}))", vi, z(now), gstr(store.gt()), vstr(&vaults[vi]))
        };
        if s.contains(" (OU 0 ") || s.contains(" (OV 0 ") || s.contains(" (OR 0 ") || s.contains(" (OG 0 ") {} else { n_err += 1; }
        if store.gt().grow_steps() != old_steps { n_steps += 1; }
        if users[ui].gt().rank() != old_rank { n_rank += 1; }
        out.push(s);
    }
    let tag = format!("hist{}{}{}{}{}{}",
        if n_steps > 0 { "+steps" } else { "" }, if n_rank > 0 { "+rank" } else { "" }, if n_proc > 0 { "+proc" } else { "" },
        if n_req > 0 { "+req" } else { "" }, if n_conf > 0 { "+conf" } else { "" }, if n_err > 0 { "+err" } else { "" });
    emit(&tag, &format!("Hist {head} {} ({} :: nil)", nusers, out.join(" :: ")));
}

/// get_mint_amount on boundary sizes.
fn direct_gma(rng: &mut Rng) {
    let mut g = GtState::zeroed();
    let cost = match rng.below(8) { 0 => 0, 1 => 1, 2 => rng.uint(128), 3 => UNIT / 20, _ => 1 + rng.below(1_000_000) as u128 };
    g6rt::set_now(5);
    if gh::init(&mut g, 7, cost, UNIT, 1, &[]).is_err() { return; }
    let size = match rng.below(8) {
        0 => 0,
        1 => cost.saturating_mul(u64::MAX as u128),
        2 => cost.saturating_mul(u64::MAX as u128).saturating_add(cost),
        3 => cost.saturating_mul(u64::MAX as u128).saturating_add(cost).saturating_sub(1),
        4 => rng.uint(128),
        5 => cost.saturating_mul(rng.below(1000) as u128).saturating_add(rng.below(3) as u128).saturating_sub(1),
        _ => rng.below(1_000_000_000) as u128,
    };
    let r = gh::get_mint_amount(&g, size);
    let rs = match &r { Ok((m, v, c)) => format!("(Ok ({}, {}, {}))", z(m), z(v), z(c)), Err(e) => format!("(Err {})", class(e)) };
    emit(if r.is_ok() { "gma/ok" } else { "gma/err" }, &format!("GMA {} {} {rs}", z(cost), z(size)));
}

/// next_minting_cost for an arbitrary `next_minted` after one mint.
fn direct_nmc(rng: &mut Rng) {
    let mut g = GtState::zeroed();
    let cost = match rng.below(5) { 0 => rng.uint(128), 1 => UNIT / 20, _ => 1 + rng.below(1_000_000_000) as u128 };
    let grow = match rng.below(6) { 0 => UNIT, 1 => rng.uint(128), 2 => UNIT * 2, 3 => UNIT / 2, _ => UNIT + UNIT / 100 };
    let step = match rng.below(4) { 0 => 1, 1 => 1 + rng.below(1000), 2 => 100_000, _ => 1 + rng.uint(64) as u64 / 2 };
    g6rt::set_now(0);
    if gh::init(&mut g, 7, cost, grow, step, &[]).is_err() { return; }
    let mut u = UserHeader::zeroed();
    let minted = match rng.below(4) { 0 => 0, 1 => step.saturating_mul(rng.below(20)), _ => rng.below(5000) };
    if gh::mint_to(&mut g, &mut u, minted).is_err() { return; }
    let next = match rng.below(6) {
        0 => minted,
        1 => minted.saturating_sub(step),
        2 => minted.saturating_add(step.saturating_mul(1 + rng.below(150))),
        3 => (minted / step + 1).saturating_mul(step).saturating_sub(rng.below(2)),
        4 => if step > u64::MAX / 300 { rng.uint(64) as u64 } else { minted + rng.below(200) * step },
        _ => minted.saturating_add(rng.below(3000)),
    };
    if (next / step).abs_diff(g.grow_steps()) > 400 { return; }
    let r = gh::next_minting_cost(&g, next);
    let rs = match &r {
        Ok(None) => "(Ok None)".to_string(),
        Ok(Some((s, c))) => format!("(Ok (Some ({}, {})))", z(s), z(c)),
        Err(e) => format!("(Err {})", class(e)),
    };
    emit(match &r { Ok(None) => "nmc/same", Ok(Some(_)) => "nmc/stepped", Err(_) => "nmc/err" },
         &format!("NMC {} {} {} {} {} {rs}", z(cost), z(grow), z(step), z(minted), z(next)));
}

/// exchange-window predicates on one vault.
fn direct_window(rng: &mut Rng) {
    let mut v = GtExchangeVault::zeroed();
    let win: u32 = match rng.below(6) { 0 => 1, 1 => u32::MAX, 2 => 86400, _ => 2 + rng.below(100) as u32 };
    let ts: i64 = match rng.below(6) { 0 => rng.sint(64) as i64, 1 => -(rng.below(1000) as i64), 2 => 0, _ => rng.below(100_000) as i64 };
    g6rt::set_now(ts);
    gh::vault_init(&mut v, 0, &Pubkey::default(), win).unwrap();
    let w = win as i64;
    let now = match rng.below(8) {
        0 => ts,
        1 => (ts / w).saturating_mul(w).saturating_add(w),
        2 => (ts / w).saturating_mul(w).saturating_add(w - 1),
        3 => (ts / w).saturating_mul(w).saturating_sub(1),
        4 => (ts / w).saturating_mul(w),
        5 => rng.sint(64) as i64,
        _ => ts.saturating_add(rng.below(3 * win as u64) as i64).saturating_sub(win as i64),
    };
    g6rt::set_now(now);
    let d = v.validate_depositable();
    let c = v.validate_confirmable();
    let f = |r: &anchor_lang::Result<()>| match r { Ok(()) => 0, Err(e) => class(e) };
    emit(&format!("win/dep{}conf{}", f(&d).min(1), f(&c).min(1)), &format!("Win {} {} {} {} {}", z(ts), z(win), z(now), f(&d), f(&c)));
}

fn main() {
    let a = args();
    let mut rng = Rng::new(a.seed);
    g6rt::install();
    g6rt::quiet();
    for i in 0..a.n {
        match i % 10 {
            0..=4 => history(&mut rng),
            5 | 6 => direct_gma(&mut rng),
            7 | 8 => direct_nmc(&mut rng),
            _ => direct_window(&mut rng),
        }
    }
    g6rt::finish();
}
