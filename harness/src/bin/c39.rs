//! C39 driver: competition leaderboard / time extension.
//!
//! * `Hist`: whole histories driven through the REAL Anchor entrypoint
//!   `gmsol_competition::entry` (initialize_competition, create_participant_idempotent,
//!   on_executed, close_participant) in the g6 mini runtime; after every instruction the
//!   competition account and the participant account are decoded and printed.
//! * `Upd` / `Ext`: the private `update_leaderboard` / `extend_competition_time` called
//!   directly (cfg(gmsol_verif) re-export) on arbitrary boards / i64 boundary values.
use anchor_lang::prelude::Pubkey;
use anchor_lang::solana_program::system_program;
use anchor_lang::{AccountDeserialize, AccountSerialize, Discriminator, InstructionData};
use gmsol_competition::states::{
    Competition, LeaderEntry, Participant, COMPETITION_SEED, PARTICIPANT_SEED,
};
use gmsol_competition::trade_callback::verif_hooks;
use gmsol_programs::gmsol_store::accounts::TradeData;
use gmsol_verif_harness::g6rt::{self, m, Acct};
use gmsol_verif_harness::*;

const CALLBACK_AUTHORITY_SEED: &[u8] = b"callback";
const ORDER_KIND: u8 = 3;

fn trader_key(k: u64) -> Pubkey {
    if k == 0 {
        return Pubkey::default();
    }
    let mut bytes = [0u8; 32];
    bytes[..8].copy_from_slice(&k.to_le_bytes());
    bytes[31] = 0xA7;
    Pubkey::new_from_array(bytes)
}

fn class(e: &anchor_lang::solana_program::program_error::ProgramError) -> u64 {
    match g6rt::err_code(e) {
        2501 | 2506 | 6002 => 1,
        6001 => 2,
        3012 | 3007 | 3001 | 3002 | 3003 => 3,
        2006 | 3010 => 4,
        2504 => 5,
        6007 => 6,
        6003 => 13,
        6004 => 14,
        6005 => 15,
        6006 => 16,
        6008 => 18,
        c => 100_000 + c,
    }
}

fn board_str(b: &[LeaderEntry], ids: &dyn Fn(&Pubkey) -> i64) -> String {
    let v: Vec<String> = b.iter().map(|e| format!("(E {} {})", z(ids(&e.address)), z(e.volume))).collect();
    // `a :: b :: nil` parses ~50x faster in coqc 8.16 than the `[a; b]` notation
    if v.is_empty() { "nil".into() } else { format!("({} :: nil)", v.join(" :: ")) }
}

struct World {
    store: Vec<Acct>,
    traders: Vec<u64>,
    comp_idx: usize,
}

const A_AUTH: usize = 0;
const A_BADAUTH: usize = 1;
const A_ACTION: usize = 2;
const A_POSITION: usize = 3;
const A_EVENT: usize = 4;
const A_NONE: usize = 5;
const A_PAYER: usize = 6;
const A_SYSTEM: usize = 7;
const A_COMP: usize = 8;
const A_T0: usize = 9;

impl World {
    fn tidx(&self, k: u64) -> usize {
        A_T0 + 2 * self.traders.iter().position(|x| *x == k).unwrap()
    }
    fn id_of(&self, key: &Pubkey) -> i64 {
        for k in &self.traders {
            if trader_key(*k) == *key {
                return *k as i64;
            }
        }
        -1
    }
    fn comp(&self) -> Competition {
        Competition::try_deserialize(&mut self.store[self.comp_idx].data()).expect("competition")
    }
    fn part(&self, k: u64) -> Option<Participant> {
        let a = &self.store[self.tidx(k) + 1];
        if a.len == 0 || a.owner != gmsol_competition::ID {
            return None;
        }
        Participant::try_deserialize(&mut a.data()).ok()
    }
}

fn history(rng: &mut Rng) {
    let pid = gmsol_competition::ID;
    let store_id = gmsol_programs::gmsol_store::ID;
    let (auth, auth_bump) = Pubkey::find_program_address(&[CALLBACK_AUTHORITY_SEED], &store_id);
    let payer = trader_key(0xFFFF_0001);

    // ---- configuration ----
    let mono = rng.chance(3, 4);
    let t0: i64 = if rng.chance(1, 12) { i64::MAX - 400 - rng.below(200) as i64 } else { 1_000 + rng.below(1_000_000) as i64 };
    let start = t0 + 1 + rng.below(20) as i64;
    let len = 1 + { let n_ = if rng.chance(1, 3) { 30 } else { 300 }; rng.below(n_) } as i64;
    let end = start.saturating_add(len);
    let big = rng.chance(1, 10);
    let thr: u128 = if big { u128::MAX - rng.below(2000) as u128 } else { 1 + { let n_ = if rng.chance(1, 2) { 400 } else { 3000 }; rng.below(n_) } as u128 };
    let dur: i64 = if rng.chance(1, 10) { i64::MAX - rng.below(3) as i64 } else { 1 + rng.below(60) as i64 };
    let cap: i64 = if rng.chance(1, 10) { i64::MAX - rng.below(3) as i64 } else { dur.saturating_add({ let n_ = if rng.chance(1, 2) { 1 } else { 100 }; rng.below(n_) } as i64) };
    let only_inc = rng.chance(1, 2);
    let win: i64 = 1 + { let n_ = if rng.chance(1, 2) { 5 } else { 50 }; rng.below(n_) } as i64;
    // a minority of invalid initialisations
    let (start, end, thr, dur, cap, win) = match rng.below(40) {
        0 => (t0, end, thr, dur, cap, win),
        1 => (start, start, thr, dur, cap, win),
        2 => (start, end, 0, dur, cap, win),
        3 => (start, end, thr, 0, cap, win),
        4 => (start, end, thr, dur, dur - 1, win),
        5 => (start, end, thr, dur, cap, 0),
        6 => (start, end, thr, -5, -3, win),
        _ => (start, end, thr, dur, cap, win),
    };

    let ntr = if rng.chance(2, 3) { 6 + rng.below(5) } else { 2 + rng.below(4) };
    let mut traders: Vec<u64> = (1..=ntr).collect();
    if rng.chance(1, 4) {
        traders.push(0);
    }
    let (comp_key, _) = Pubkey::find_program_address(&[COMPETITION_SEED, payer.as_ref(), &start.to_le_bytes()], &pid);

    let mut ev_bytes = TradeData::DISCRIMINATOR.to_vec();
    ev_bytes.extend_from_slice(bytemuck::bytes_of(&<TradeData as bytemuck::Zeroable>::zeroed()));

    let mut store = vec![
        Acct::wallet(auth, 1),
        Acct::wallet(trader_key(0xFFFF_0002), 1),
        Acct::wallet(trader_key(0xFFFF_0003), 1),
        Acct::wallet(trader_key(0xFFFF_0004), 1),
        Acct::with_data(trader_key(0xFFFF_0005), store_id, &ev_bytes),
        Acct::program(pid),
        Acct::wallet(payer, u64::MAX / 2),
        Acct::program(system_program::ID),
        Acct::wallet(comp_key, 0),
    ];
    for k in &traders {
        let tk = trader_key(*k);
        let (pk, _) = Pubkey::find_program_address(&[PARTICIPANT_SEED, comp_key.as_ref(), tk.as_ref()], &pid);
        store.push(Acct::wallet(tk, 1_000_000));
        store.push(Acct::wallet(pk, 0));
    }
    let mut w = World { store, traders: traders.clone(), comp_idx: A_COMP };

    // ---- initialize_competition (real instruction) ----
    g6rt::set_now(t0);
    let data = gmsol_competition::instruction::InitializeCompetition {
        start_time: start,
        end_time: end,
        volume_threshold: thr,
        extension_duration: dur,
        extension_cap: cap,
        only_count_increase: only_inc,
        volume_merge_window: win,
    }
    .data();
    let r = g6rt::run(gmsol_competition::entry, &pid, &mut w.store, &[m(A_PAYER, true, true), m(A_COMP, false, true), m(A_SYSTEM, false, false)], &data);
    let cfg = format!("{} {} {} {} {} {} {} {}", z(t0), z(start), z(end), z(thr), z(dur), z(cap), b(only_inc), z(win));
    if let Err(e) = &r {
        g6rt::emit("init/rejected", &format!("Init {cfg} {}", class(e)));
        return;
    }
    {
        let c = w.comp();
        assert!(c.leaderboard.is_empty() && c.extension_triggerer.is_none() && c.start_time == start && c.end_time == end);
    }

    // ---- ops ----
    let nops = 5 + { let n_ = if rng.chance(1, 6) { 110 } else { 40 }; rng.below(n_) } as usize;
    let mut now = t0;
    let mut out: Vec<String> = vec![];
    let mut prev_obs = format!("{} None nil", z(end));
    let (mut n_ext, mut n_trunc, mut n_close, mut n_err) = (0, 0, 0, 0);
    // seed sizes per trader so that trades look like position size changes
    let mut size: Vec<u128> = traders.iter().map(|_| 0u128).collect();
    for _ in 0..nops {
        // time
        let cur_end = w.comp().end_time;
        let step: i64 = match rng.below(20) {
            0..=7 => 0,
            8..=13 => rng.below(3) as i64,
            14..=16 => rng.below(win as u64 * 2 + 2) as i64,
            17 => rng.below(20) as i64,
            18 if rng.chance(1, 3) => cur_end.saturating_sub(now).max(0).saturating_add(rng.below(3) as i64 - 1).max(0),
            18 => 1,
            _ => start.saturating_sub(now).max(0),
        };
        let step = if now < start && rng.chance(1, 3) { start.saturating_sub(now).max(0) } else { step };
        now = now.saturating_add(step);
        if !mono && rng.chance(1, 6) {
            now = match rng.below(3) {
                0 => t0 + rng.below(40) as i64,
                1 => start.saturating_add(rng.below(100) as i64),
                _ => rng.sint(64) as i64,
            };
        }
        g6rt::set_now(now);
        let ti = rng.below(traders.len() as u64) as usize;
        let k = traders[ti];
        let tk = trader_key(k);
        let pi = w.tidx(k);
        let exists = w.part(k).is_some();
        let kind = rng.below(100);
        let (opstr, res) = if (!exists && kind < 85) || kind < 4 {
            // create_participant_idempotent
            let data = gmsol_competition::instruction::CreateParticipantIdempotent {}.data();
            let r = g6rt::run(gmsol_competition::entry, &pid, &mut w.store,
                &[m(A_PAYER, true, true), m(A_COMP, false, false), m(pi + 1, false, true), m(pi, false, false), m(A_SYSTEM, false, false)], &data);
            (format!("Create {} {}", z(k), z(now)), r)
        } else if kind < 4 + if mono { 5 } else { 3 } {
            let data = gmsol_competition::instruction::CloseParticipant {}.data();
            let r = g6rt::run(gmsol_competition::entry, &pid, &mut w.store,
                &[m(pi, true, true), m(A_COMP, false, false), m(pi + 1, false, true)], &data);
            if r.is_ok() { n_close += 1; }
            (format!("Close {} {}", z(k), z(now)), r)
        } else {
            // on_executed
            let success = !rng.chance(1, 40);
            let has_ev = !rng.chance(1, 40);
            let cv: u8 = if rng.chance(1, 60) { 1 } else { 0 };
            let akind: u8 = if rng.chance(1, 60) { rng.below(7) as u8 } else { ORDER_KIND };
            let extra: u8 = if rng.chance(1, 40) { rng.below(2) as u8 } else if rng.chance(1, 10) { 3 + rng.below(3) as u8 } else { 2 };
            let auth_ok = !rng.chance(1, 60);
            let ev_user = if rng.chance(1, 40) { traders[rng.below(traders.len() as u64) as usize] } else { k };
            let before = size[ti];
            let c = w.comp();
            let delta: u128 = match rng.below(24) {
                0 => 0,
                1 => c.volume_threshold,
                2 => c.volume_threshold.saturating_sub(1),
                3 => rng.uint(128),
                4 => u128::MAX / 3,
                5..=9 => 1 + rng.below(40) as u128,
                _ => rng.below((c.volume_threshold.min(5000) as u64) + 50) as u128,
            };
            let after = if rng.chance(2, 3) { before.saturating_add(delta) } else { before.saturating_sub(delta.min(before)) };
            let after = if rng.chance(1, 30) { rng.uint(128) } else { after };
            {
                let a = &mut w.store[A_EVENT];
                let mut td: TradeData = bytemuck::Zeroable::zeroed();
                td.user = trader_key(ev_user);
                td.before.size_in_usd = before;
                td.after.size_in_usd = after;
                let bytes = bytemuck::bytes_of(&td).to_vec();
                a.data_mut()[8..8 + bytes.len()].copy_from_slice(&bytes);
            }
            let data = gmsol_competition::instruction::OnExecuted {
                authority_bump: auth_bump,
                action_kind: akind,
                callback_version: cv,
                success,
                extra_account_count: extra,
            }
            .data();
            let metas = [
                m(if auth_ok { A_AUTH } else { A_BADAUTH }, true, false),
                m(A_COMP, false, true),
                m(pi + 1, false, true),
                m(pi, false, false),
                m(A_ACTION, false, false),
                m(A_POSITION, false, false),
                m(if has_ev { A_EVENT } else { A_NONE }, false, false),
            ];
            let old_end = c.end_time;
            let old_len = c.leaderboard.len();
            let was_on = c.leaderboard.iter().any(|e| e.address == tk);
            let r = g6rt::run(gmsol_competition::entry, &pid, &mut w.store, &metas, &data);
            if r.is_ok() {
                size[ti] = after;
                let c2 = w.comp();
                if c2.end_time != old_end { n_ext += 1; }
                if old_len == 5 && !was_on && c2.leaderboard.iter().any(|e| e.address == tk) { n_trunc += 1; }
            }
            let evs = if has_ev { format!("(P3 {} {} {})", z(ev_user), z(before), z(after)) } else { "None".into() };
            if success && has_ev && ev_user == k && cv == 0 && akind == ORDER_KIND && extra == 2 && auth_ok {
                (format!("T {} {} {} {}", z(k), z(now), z(before), z(after)), r)
            } else {
                (format!("Trade {} {} {} {} {} {} {} {}", z(k), z(now), b(success), evs, cv, akind, extra, b(auth_ok)), r)
            }
        };
        let rc = match &res { Ok(()) => 0, Err(e) => { n_err += 1; class(e) } };
        let c = w.comp();
        let ids = |key: &Pubkey| w.id_of(key);
        let trig = match &c.extension_triggerer { Some(t) => format!("(Some {})", z(ids(t))), None => "None".into() };
        let ps = match w.part(k) {
            Some(p) => {
                assert!(p.trader == tk && p.competition == comp_key);
                format!("(P3 {} {} {})", z(p.volume), z(p.last_updated_at), z(p.merged_volume))
            }
            None => "None".into(),
        };
        let cur = format!("{} {trig} {}", z(c.end_time), board_str(&c.leaderboard, &ids));
        if cur == prev_obs {
            out.push(format!("(S ({opstr}) (Same {rc} {ps}))"));
        } else {
            out.push(format!("(S ({opstr}) (Obs {rc} {cur} {ps}))"));
            prev_obs = cur;
        }
    }
    let tag = format!(
        "hist/{}{}{}{}{}",
        if mono { "mono" } else { "free" },
        if n_ext > 0 { "+ext" } else { "" },
        if n_trunc > 0 { "+evict" } else { "" },
        if n_close > 0 { "+close" } else { "" },
        if n_err > 0 { "+err" } else { "" }
    );
    g6rt::emit(&tag, &format!("Hist {cfg} ({} :: nil)", out.join(" :: ")));
}

fn direct_update(rng: &mut Rng) {
    // arbitrary (possibly unsorted / duplicated / over-long) boards straight into the private function
    let sorted = rng.chance(2, 3);
    let n = rng.below(if sorted { 6 } else { 8 }) as usize;
    let mut vols: Vec<u128> = (0..n).map(|_| if rng.chance(1, 5) { rng.uint(128) } else { rng.below(12) as u128 }).collect();
    let mut addrs: Vec<u64> = (0..n).map(|_| 1 + rng.below(9)).collect();
    if sorted {
        vols.sort_by(|a, b| b.cmp(a));
        let mut seen = vec![];
        for a in addrs.iter_mut() {
            while seen.contains(a) { *a += 1; }
            seen.push(*a);
        }
    }
    let board: Vec<LeaderEntry> = addrs.iter().zip(&vols).map(|(a, v)| LeaderEntry { address: trader_key(*a), volume: *v }).collect();
    let trader = if n > 0 && rng.chance(1, 2) { addrs[rng.below(n as u64) as usize] } else { 1 + rng.below(14) };
    let vol = if n > 0 && rng.chance(1, 2) { vols[rng.below(n as u64) as usize].wrapping_add(rng.below(3) as u128).wrapping_sub(1) } else { rng.below(14) as u128 };
    let mut comp = Competition {
        bump: 0, authority: Pubkey::default(), start_time: 0, end_time: 0, leaderboard: board.clone(),
        volume_threshold: 1, extension_duration: 1, extension_cap: 1, extension_triggerer: None,
        only_count_increase: false, volume_merge_window: 1,
    };
    let part = Participant { bump: 0, competition: Pubkey::default(), trader: trader_key(trader), volume: vol, last_updated_at: 0, merged_volume: 0 };
    let r = no_panic(std::panic::AssertUnwindSafe(|| { verif_hooks::update_leaderboard(&mut comp, &part); comp.leaderboard.clone() }));
    let ids = |key: &Pubkey| -> i64 { for k in 0..64u64 { if trader_key(k) == *key { return k as i64; } } -1 };
    let rs = match &r { Some(bd) => format!("(Some {})", board_str(bd, &ids)), None => "None".into() };
    g6rt::emit(if sorted { "upd/wellformed" } else { "upd/arbitrary" }, &format!("Upd {} {} {} {rs}", board_str(&board, &ids), z(trader), z(vol)));
}

fn direct_extend(rng: &mut Rng) {
    let end = rng.sint(64) as i64;
    let dur = if rng.chance(1, 2) { rng.sint(64) as i64 } else { rng.below(1000) as i64 };
    let cap = if rng.chance(1, 2) { rng.sint(64) as i64 } else { rng.below(1000) as i64 };
    let now = if rng.chance(1, 2) { end.saturating_sub(rng.below(500) as i64) } else { rng.sint(64) as i64 };
    g6rt::set_now(now);
    let mut comp = Competition {
        bump: 0, authority: Pubkey::default(), start_time: 0, end_time: end, leaderboard: vec![],
        volume_threshold: 1, extension_duration: dur, extension_cap: cap, extension_triggerer: None,
        only_count_increase: false, volume_merge_window: 1,
    };
    let part = Participant { bump: 0, competition: Pubkey::default(), trader: trader_key(7), volume: 1, last_updated_at: 0, merged_volume: 0 };
    let r = no_panic(std::panic::AssertUnwindSafe(|| verif_hooks::extend_competition_time(&mut comp, &part, 1).is_ok()));
    let rs = match r { Some(true) => format!("(Some {})", z(comp.end_time)), _ => "None".into() };
    let trig_ok = comp.extension_triggerer == Some(trader_key(7));
    g6rt::emit(if comp.end_time != end { "ext/moved" } else { "ext/unchanged" }, &format!("Ext {} {} {} {} {rs} {}", z(end), z(dur), z(cap), z(now), b(trig_ok)));
}

fn main() {
    let a = args();
    let mut rng = Rng::new(a.seed);

    g6rt::install();
    g6rt::quiet();
    let _ = AccountSerialize::try_serialize(&Participant { bump: 0, competition: Pubkey::default(), trader: Pubkey::default(), volume: 0, last_updated_at: 0, merged_volume: 0 }, &mut Vec::new());
    for i in 0..a.n {
        match i % 10 {
            0..=3 => history(&mut rng),
            4..=7 => direct_update(&mut rng),
            _ => direct_extend(&mut rng),
        }
    }
    g6rt::finish();
}
