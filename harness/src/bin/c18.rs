//! C18 driver: whole op histories on a real `Store` (its `RoleStore`, authority and cached
//! last-restart slot), with the `LastRestartSlot` sysvar served by a syscall stub.
//! One case = `Hist ra authority slot0 [(input, output); ...]` (see coq/C18/Corr.v).
use anchor_lang::prelude::Pubkey;
use anchor_lang::solana_program::program_stubs;
use bytemuck::Zeroable;
use gmsol_store::states::{RoleKey, Store};
use gmsol_store::CoreError;
use gmsol_utils::GeneralError;
use gmsol_verif_harness::*;
use std::collections::HashMap;
use std::panic::AssertUnwindSafe;
use std::sync::atomic::{AtomicU64, Ordering};

static SLOT: AtomicU64 = AtomicU64::new(0);

struct Stubs;
impl program_stubs::SyscallStubs for Stubs {
    fn sol_log(&self, _m: &str) {}
    fn sol_log_data(&self, _f: &[&[u8]]) {}
    fn sol_get_last_restart_slot(&self, var_addr: *mut u8) -> u64 {
        // LastRestartSlot { last_restart_slot: u64 }
        let v = SLOT.load(Ordering::SeqCst).to_le_bytes();
        unsafe { std::ptr::copy_nonoverlapping(v.as_ptr(), var_addr, 8) };
        0
    }
}

fn code(e: &anchor_lang::error::Error) -> u32 {
    match e {
        anchor_lang::error::Error::AnchorError(a) => {
            let n = a.error_code_number;
            let name = a.error_name.as_str();
            if name == "ExceedMaxLengthLimit" && n == u32::from(GeneralError::ExceedMaxLengthLimit) { 7 }
            else if name == "AlreadyExist" && n == u32::from(GeneralError::AlreadyExist) { 8 }
            else if n == u32::from(CoreError::InvalidArgument) { 1 }
            else if n == u32::from(CoreError::PreconditionsAreNotMet) { 2 }
            else if n == u32::from(CoreError::ExceedMaxLengthLimit) { 3 }
            else if n == u32::from(CoreError::NotFound) { 4 }
            else if n == u32::from(CoreError::PermissionDenied) { 5 }
            else if n == u32::from(CoreError::StoreOutdated) { 6 }
            else { 99 }
        }
        _ => 98,
    }
}

struct Names {
    rank: HashMap<[u8; 32], usize>,
}
impl Names {
    fn new(names: &[String]) -> Self {
        let mut ks: Vec<[u8; 32]> = names.iter().map(|n| gmsol_utils::fixed_map::to_key(n)).collect();
        ks.push([0u8; 32]);
        ks.sort();
        ks.dedup();
        Names { rank: ks.into_iter().enumerate().map(|(i, k)| (k, i)).collect() }
    }
    fn key(&self, k: &[u8; 32]) -> String {
        match self.rank.get(k) {
            Some(i) => i.to_string(),
            None => {
                let mut s = String::from("0x");
                for b in k { s.push_str(&format!("{:02x}", b)); }
                s
            }
        }
    }
    fn role(&self, n: &str) -> String {
        format!("(mkrole {} {})", self.key(&gmsol_utils::fixed_map::to_key(n)), zl(n.as_bytes()))
    }
}

fn addr(i: u64) -> Pubkey {
    let mut b = [0u8; 32];
    b[24..].copy_from_slice(&i.to_be_bytes());
    Pubkey::new_from_array(b)
}
fn addr_z(b: &[u8]) -> String {
    if b[..24].iter().all(|x| *x == 0) {
        u64::from_be_bytes(b[24..32].try_into().unwrap()).to_string()
    } else {
        let mut s = String::from("0x");
        for x in b { s.push_str(&format!("{:02x}", x)); }
        s
    }
}

fn rcode(r: Option<anchor_lang::Result<()>>) -> String {
    match r {
        Some(Ok(())) => "RCode 0".into(),
        Some(Err(e)) => format!("RCode {}", code(&e)),
        None => "RPanic".into(),
    }
}
fn rbool(r: Option<anchor_lang::Result<bool>>) -> String {
    match r {
        Some(Ok(v)) => format!("RBool (Ok {})", b(v)),
        Some(Err(e)) => format!("RBool (Err {})", code(&e)),
        None => "RPanic".into(),
    }
}
fn roptz(r: Option<anchor_lang::Result<Option<u8>>>) -> String {
    match r {
        Some(Ok(Some(v))) => format!("ROptZ (Ok (Some {v}))"),
        Some(Ok(None)) => "ROptZ (Ok None)".into(),
        Some(Err(e)) => format!("ROptZ (Err {})", code(&e)),
        None => "RPanic".into(),
    }
}

fn dump(store: &Store, names: &Names) -> String {
    let raw = bytemuck::bytes_of(store.role());
    assert_eq!(raw.len(), 32 * 66 + 4 + 64 * 36 + 4);
    let mut s = String::from("RDump [");
    for i in 0..32 {
        let e = &raw[i * 66..(i + 1) * 66];
        if i > 0 { s.push_str("; "); }
        let k: [u8; 32] = e[..32].try_into().unwrap();
        s.push_str(&format!("({}, ({}, {}, {}))", names.key(&k), zl(&e[32..64]), e[64], e[65]));
    }
    let rc = u32::from_le_bytes(raw[2112..2116].try_into().unwrap());
    s.push_str(&format!("] {rc} ["));
    let m0 = 2116;
    for i in 0..64 {
        let e = &raw[m0 + i * 36..m0 + (i + 1) * 36];
        if i > 0 { s.push_str("; "); }
        s.push_str(&format!("({}, {})", addr_z(&e[..32]), u32::from_le_bytes(e[32..36].try_into().unwrap())));
    }
    let mc = u32::from_le_bytes(raw[m0 + 2304..m0 + 2308].try_into().unwrap());
    s.push_str(&format!("] {mc}"));
    s
}

struct H<'a> {
    store: Box<Store>,
    names: &'a Names,
    ops: Vec<String>,
    panicked: bool,
}
impl<'a> H<'a> {
    fn enable(&mut self, n: &str) -> bool {
        let r = no_panic(AssertUnwindSafe(|| self.store.enable_role(n)));
        let ok = matches!(r, Some(Ok(())));
        if r.is_none() { self.panicked = true; }
        self.ops.push(format!("(IEnable {}, {})", self.names.role(n), rcode(r)));
        ok
    }
    fn disable(&mut self, n: &str) {
        let r = no_panic(AssertUnwindSafe(|| self.store.disable_role(n)));
        if r.is_none() { self.panicked = true; }
        self.ops.push(format!("(IDisable {}, {})", self.names.role(n), rcode(r)));
    }
    fn grant(&mut self, a: u64, n: &str) {
        let r = no_panic(AssertUnwindSafe(|| self.store.grant(&addr(a), n)));
        if r.is_none() { self.panicked = true; }
        self.ops.push(format!("(IGrant {a} {}, {})", self.names.role(n), rcode(r)));
    }
    fn revoke(&mut self, a: u64, n: &str) {
        let r = no_panic(AssertUnwindSafe(|| self.store.revoke(&addr(a), n)));
        if r.is_none() { self.panicked = true; }
        self.ops.push(format!("(IRevoke {a} {}, {})", self.names.role(n), rcode(r)));
    }
    fn has(&mut self, a: u64, n: &str) {
        let r = no_panic(AssertUnwindSafe(|| self.store.role().has_role(&addr(a), n)));
        self.ops.push(format!("(IHas {a} {}, {})", self.names.role(n), rbool(r)));
    }
    fn index(&mut self, n: &str) {
        let r = no_panic(AssertUnwindSafe(|| self.store.role().role_index(n)));
        self.ops.push(format!("(IIndex {}, {})", self.names.role(n), roptz(r)));
    }
    fn eindex(&mut self, n: &str) {
        let r = no_panic(AssertUnwindSafe(|| self.store.role().enabled_role_index(n)));
        self.ops.push(format!("(IEIndex {}, {})", self.names.role(n), roptz(r)));
    }
    fn nums(&mut self) {
        self.ops.push(format!("(INums, RNums {} {})", self.store.role().num_roles(), self.store.role().num_members()));
    }
    fn value(&mut self, a: u64) {
        let v = self.store.role().role_value(&addr(a));
        self.ops.push(format!("(IValue {a}, RVal {})", oz(v)));
    }
    fn set_slot(&mut self, n: u64) {
        SLOT.store(n, Ordering::SeqCst);
        self.ops.push(format!("(ISetSlot {n}, RDone)"));
    }
    fn shas(&mut self, a: u64, n: &str) {
        let r = no_panic(AssertUnwindSafe(|| self.store.has_role(&addr(a), n)));
        self.ops.push(format!("(ISHas {a} {}, {})", self.names.role(n), rbool(r)));
    }
    fn admin(&mut self, a: u64) {
        let r = no_panic(AssertUnwindSafe(|| self.store.has_admin_role(&addr(a))));
        self.ops.push(format!("(IAdmin {a}, {})", rbool(r)));
    }
    fn dump(&mut self) {
        self.ops.push(format!("(IDump, {})", dump(&self.store, self.names)));
    }
}

const STD: &[&str] = &[
    RoleKey::RESTART_ADMIN, RoleKey::GT_CONTROLLER, RoleKey::MARKET_KEEPER, RoleKey::ORDER_KEEPER,
    RoleKey::FEATURE_KEEPER, RoleKey::CONFIG_KEEPER, RoleKey::ORACLE_CONTROLLER, RoleKey::PRICE_KEEPER,
];

fn universe(rng: &mut Rng) -> Vec<String> {
    let mut v: Vec<String> = STD.iter().map(|s| s.to_string()).collect();
    let salt = rng.below(1 << 16);
    for i in 0..40 {
        v.push(format!("ROLE_{salt}_{i}"));
    }
    // names at and around the field width, multi-byte characters, the empty name
    v.push(String::new());
    v.push("x".repeat(31));
    v.push(format!("{}é", "y".repeat(29))); // 31 bytes, ends in a 2-byte char
    v
}
/// names that are accepted at creation but cannot be read back, or are rejected
fn bad_names() -> Vec<String> {
    vec![
        "a".repeat(32),                       // exactly fills the field
        format!("{}é", "b".repeat(30)),       // 32 bytes with a multi-byte char
        "ab\0cd".to_string(),                 // interior NUL
        "\0".to_string(),                     // only NUL
        "c".repeat(33),                       // too long: rejected
        "d".repeat(64),
    ]
}

fn history(rng: &mut Rng, mode: u64) {
    let mut uni = universe(rng);
    let bad = bad_names();
    uni.extend(bad.iter().cloned());
    let names = Names::new(&uni);
    let slot0 = if rng.chance(1, 2) { 0 } else { rng.range(1, 1_000_000) };
    SLOT.store(slot0, Ordering::SeqCst);
    let authority = 1000u64;
    let mut store: Box<Store> = Box::new(Store::zeroed());
    store.init(addr(authority), "", 255, addr(2000), addr(3000)).expect("init");
    let mut h = H { store, names: &names, ops: Vec::new(), panicked: false };
    let ra = RoleKey::RESTART_ADMIN;
    let mut tagk = "small";
    match mode {
        0 => {
            // small universe, dense interleavings
            let nr = rng.range(2, 5) as usize;
            let roles: Vec<String> = (0..nr).map(|_| uni[rng.below(uni.len() as u64 - bad.len() as u64) as usize].clone()).collect();
            let na = rng.range(2, 5);
            let n = rng.range(10, 60);
            for _ in 0..n {
                let r = roles[rng.below(nr as u64) as usize].clone();
                let a = if rng.chance(1, 20) { authority } else if rng.chance(1, 30) { 0 } else { 1 + rng.below(na) };
                match rng.below(16) {
                    0 | 1 => { h.enable(&r); }
                    2 => h.disable(&r),
                    3 | 4 | 5 | 6 => { h.grant(a, &r); if rng.chance(1, 2) { h.has(a, &r); } if rng.chance(1, 3) { h.value(a); } }
                    7 | 8 | 9 => { h.revoke(a, &r); if rng.chance(1, 2) { h.value(a); } if rng.chance(1, 3) { h.has(a, &r); } }
                    10 | 11 => h.has(a, &r),
                    12 => h.index(&r),
                    13 => h.eindex(&r),
                    14 => h.nums(),
                    _ => h.value(a),
                }
            }
        }
        1 => {
            tagk = "role_capacity";
            // create roles up to and beyond the capacity of 32, in random order
            let mut order: Vec<usize> = (0..(uni.len() - bad.len())).collect();
            for i in (1..order.len()).rev() { let j = rng.below(i as u64 + 1) as usize; order.swap(i, j); }
            let mut created: Vec<String> = Vec::new();
            for &i in order.iter().take(36) {
                if h.enable(&uni[i]) { created.push(uni[i].clone()); }
                if rng.chance(1, 6) && !created.is_empty() {
                    let r = created[rng.below(created.len() as u64) as usize].clone();
                    match rng.below(3) { 0 => h.disable(&r), 1 => { h.enable(&r); } _ => h.grant(1 + rng.below(3), &r) }
                }
            }
            h.nums();
            // the roles with the highest indices are usable
            for r in created.iter().rev().take(3) {
                h.index(r);
                h.grant(7, r);
                h.has(7, r);
            }
            h.value(7);
            for r in created.iter().rev().take(3) { h.revoke(7, r); }
            h.value(7);
            // all 32 roles on one address
            for r in created.clone() { h.grant(8, &r); }
            h.value(8);
            for r in created.clone() { if rng.chance(1, 2) { h.revoke(8, &r); } }
            h.value(8);
        }
        2 => {
            tagk = "member_capacity";
            let r1 = uni[1].clone();
            let r2 = uni[9].clone();
            h.enable(&r1);
            h.enable(&r2);
            let mut order: Vec<u64> = (1..=70).collect();
            for i in (1..order.len()).rev() { let j = rng.below(i as u64 + 1) as usize; order.swap(i, j); }
            for &a in order.iter().take(67) {
                h.grant(a, if rng.chance(1, 2) { &r1 } else { &r2 });
            }
            h.nums();
            // existing members can still get a second role while full
            h.grant(order[0], &r1);
            h.grant(order[0], &r2);
            // revoke at full capacity (last role => membership dropped), then a new member fits
            for &a in order.iter().take(5) { h.revoke(a, &r1); h.revoke(a, &r2); h.value(a); }
            h.nums();
            for &a in order.iter().skip(64).take(6) { h.grant(a, &r1); }
            h.nums();
            for _ in 0..20 {
                let a = order[rng.below(70) as usize];
                match rng.below(3) { 0 => h.revoke(a, &r1), 1 => h.grant(a, &r2), _ => h.has(a, &r1) }
            }
        }
        3 => {
            tagk = "restart";
            let other = uni[2].clone();
            let third = uni[10].clone();
            if rng.chance(5, 6) { h.enable(ra); }
            h.enable(&other);
            if rng.chance(1, 2) { h.enable(&third); }
            if rng.chance(3, 4) { h.grant(1, ra); }
            h.grant(2, &other);
            if rng.chance(1, 2) { h.grant(1, &other); }
            if rng.chance(1, 3) { h.grant(3, ra); h.grant(3, &other); }
            let n = rng.range(8, 30);
            for _ in 0..n {
                let a = *rng.pick(&[1u64, 2, 3, 4, authority]);
                let r = rng.pick(&[ra.to_string(), other.clone(), third.clone(), uni[20].clone()]).clone();
                match rng.below(12) {
                    0 => h.set_slot(slot0),
                    1 | 2 => h.set_slot(slot0 + 1 + rng.below(5)),
                    3 | 4 | 5 => h.shas(a, &r),
                    6 | 7 => h.admin(a),
                    8 => h.has(a, &r),
                    9 => { if rng.chance(1, 2) { h.disable(ra) } else { h.enable(ra); } }
                    10 => { if rng.chance(1, 2) { h.revoke(a, ra) } else { h.grant(a, ra) } }
                    _ => { if rng.chance(1, 2) { h.revoke(a, &r) } else { h.grant(a, &r) } }
                }
            }
            // every role, for a restart admin and for the others, in both regimes
            for s in [slot0 + 9, slot0] {
                h.set_slot(s);
                for a in [1u64, 2, 3, authority] {
                    h.admin(a);
                    for r in [ra.to_string(), other.clone(), third.clone(), uni[20].clone()] { h.shas(a, &r); }
                }
            }
        }
        _ => {
            tagk = "bad_names";
            let good = uni[3].clone();
            h.enable(&good);
            for bn in bad.iter() {
                if rng.chance(2, 3) {
                    h.enable(bn);
                    h.index(bn);
                    h.eindex(bn);
                    h.grant(1, bn);
                    h.has(1, bn);
                    h.disable(bn);
                    h.enable(bn);
                    h.revoke(1, bn);
                }
            }
            h.grant(1, &good);
            h.has(1, &good);
            h.nums();
        }
    }
    h.dump();
    let out = if h.panicked { "panic" } else { "ok" };
    emit(
        &format!("{tagk}/{out}"),
        &format!("Hist {} {authority} {slot0} [{}]", names.role(ra), h.ops.join("; ")),
    );
}

fn main() {
    let a = args();
    silence_panics();
    program_stubs::set_syscall_stubs(Box::new(Stubs));
    let mut rng = Rng::new(a.seed);
    for i in 0..a.n {
        let mode = match i % 16 { 0 => 1, 1 => 2, 2 | 3 | 4 | 5 => 3, 6 => 4, _ => 0 };
        history(&mut rng, mode);
    }
}
