//! C05 driver: swap-heavy histories (both directions, capped / uncapped positive impact, negative
//! impact, a quarter of the markets with zero fees and zero impact) over vmarket::TestMarket.
use gmsol_verif_harness::{args, mkdrv};

fn main() {
    let a = args();
    let mix = mkdrv::Mix { deposit: 14, withdraw: 4, swap: 68, set: 14, round_trip: 0, min_ops: 5, max_ops: 12, zero_fee_zero_impact: 250 };
    mkdrv::run(&mix, a.seed, a.n);
}
