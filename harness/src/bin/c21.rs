//! C21 driver: histories of revertible operations on a REAL `Market` account through the real
//! `RevertibleMarket` (created by `RevertibleMarket::new`, i.e. `start_revertible_operation`;
//! accesses through its public gmsol-model trait impls; `commit()` or drop), using the existing
//! cfg(gmsol_verif) plumbing hook `verif_hooks_g9::with_revertible_market` and the g9 arena runtime.
//! After every operation the committed storage is read back through `Market::pool / clock / state`,
//! and the `MarketStateUpdated` CPI event of a commit is decoded (rev, updated kinds, clocks?, other?).
use gmsol_model::{
    Balance, Bank, BaseMarket, BaseMarketMut, BorrowingFeeMarket, BorrowingFeeMarketMut, ClockKind, PerpMarket,
    PerpMarketMut, PoolExt, PoolKind, PositionImpactMarket, PositionImpactMarketMut, SwapMarket, SwapMarketMut,
};
use gmsol_store::states::market::revertible::{market::RevertibleMarket, Revision};
use gmsol_store::states::market::pool::Pool;
use gmsol_store::verif_hooks_g9 as hk;
use gmsol_verif_harness::g9mk::{token, Env};
use gmsol_verif_harness::g9rt;
use gmsol_verif_harness::*;

type RM = RevertibleMarket<'static, 'static>;

const KINDS: [PoolKind; 16] = [
    PoolKind::Primary, PoolKind::SwapImpact, PoolKind::ClaimableFee, PoolKind::OpenInterestForLong,
    PoolKind::OpenInterestForShort, PoolKind::OpenInterestInTokensForLong, PoolKind::OpenInterestInTokensForShort,
    PoolKind::PositionImpact, PoolKind::BorrowingFactor, PoolKind::FundingAmountPerSizeForLong,
    PoolKind::FundingAmountPerSizeForShort, PoolKind::ClaimableFundingAmountPerSizeForLong,
    PoolKind::ClaimableFundingAmountPerSizeForShort, PoolKind::CollateralSumForLong, PoolKind::CollateralSumForShort,
    PoolKind::TotalBorrowing,
];

fn pool_ref(m: &RM, k: usize) -> gmsol_model::Result<&Pool> {
    match k {
        0 => m.liquidity_pool(),
        1 => m.swap_impact_pool(),
        2 => m.claimable_fee_pool(),
        3 => m.open_interest_pool(true),
        4 => m.open_interest_pool(false),
        5 => m.open_interest_in_tokens_pool(true),
        6 => m.open_interest_in_tokens_pool(false),
        7 => m.position_impact_pool(),
        8 => m.borrowing_factor_pool(),
        9 => m.funding_amount_per_size_pool(true),
        10 => m.funding_amount_per_size_pool(false),
        11 => m.claimable_funding_amount_per_size_pool(true),
        12 => m.claimable_funding_amount_per_size_pool(false),
        13 => m.collateral_sum_pool(true),
        14 => m.collateral_sum_pool(false),
        _ => m.total_borrowing_pool(),
    }
}
fn pool_mut(m: &mut RM, k: usize) -> gmsol_model::Result<&mut Pool> {
    match k {
        0 => m.liquidity_pool_mut(),
        1 => m.swap_impact_pool_mut(),
        2 => m.claimable_fee_pool_mut(),
        3 => m.open_interest_pool_mut(true),
        4 => m.open_interest_pool_mut(false),
        5 => m.open_interest_in_tokens_pool_mut(true),
        6 => m.open_interest_in_tokens_pool_mut(false),
        7 => m.position_impact_pool_mut(),
        8 => m.borrowing_factor_pool_mut(),
        9 => m.funding_amount_per_size_pool_mut(true),
        10 => m.funding_amount_per_size_pool_mut(false),
        11 => m.claimable_funding_amount_per_size_pool_mut(true),
        12 => m.claimable_funding_amount_per_size_pool_mut(false),
        13 => m.collateral_sum_pool_mut(true),
        14 => m.collateral_sum_pool_mut(false),
        _ => m.total_borrowing_pool_mut(),
    }
}

#[derive(Clone)]
enum Act {
    PoolRead(usize),
    PoolAdd(usize, bool, i128),
    ClockRead(usize),
    ClockTick(usize),
    BalRead(bool),
    BalIn(bool, u64),
    BalOut(bool, u64),
    FfRead,
    FfWrite(i128),
    Rev,
}

fn run_act(m: &mut RM, a: &Act, lt: &anchor_lang::prelude::Pubkey, st: &anchor_lang::prelude::Pubkey) -> String {
    match a {
        Act::PoolRead(k) => {
            let p = pool_ref(m, *k).unwrap();
            format!("(APoolRead {k}, OPair {} {})", p.long_amount().unwrap(), p.short_amount().unwrap())
        }
        Act::PoolAdd(k, is_long, d) => {
            let p = pool_mut(m, *k).unwrap();
            let r = p.apply_delta_amount(*is_long, d);
            format!("(APoolAdd {k} {} {}, OCode {})", b(*is_long), z(d), if r.is_ok() { 0 } else { 1 })
        }
        Act::ClockRead(c) => {
            let v = if *c == 0 { m.passed_in_seconds_for_position_impact_distribution() } else { m.passed_in_seconds_for_borrowing() }.unwrap();
            format!("(AClockRead {c}, OVal {v})")
        }
        Act::ClockTick(c) => {
            let v = match c {
                0 => m.just_passed_in_seconds_for_position_impact_distribution(),
                1 => m.just_passed_in_seconds_for_borrowing(),
                _ => m.just_passed_in_seconds_for_funding(),
            }
            .unwrap();
            format!("(AClockTick {c}, OVal {v})")
        }
        Act::BalRead(is_long) => {
            let v = m.balance(if *is_long { lt } else { st }).unwrap();
            format!("(ABalRead {}, OVal {v})", b(*is_long))
        }
        Act::BalIn(is_long, amt) => {
            let r = m.record_transferred_in_by_token(if *is_long { lt } else { st }, amt);
            format!("(ABalIn {} {amt}, OCode {})", b(*is_long), if r.is_ok() { 0 } else { 1 })
        }
        Act::BalOut(is_long, amt) => {
            let r = m.record_transferred_out_by_token(if *is_long { lt } else { st }, amt);
            format!("(ABalOut {} {amt}, OCode {})", b(*is_long), if r.is_ok() { 0 } else { 1 })
        }
        Act::FfRead => format!("(AFfRead, OVal {})", z(*m.funding_factor_per_second())),
        Act::FfWrite(v) => {
            *m.funding_factor_per_second_mut() = *v;
            format!("(AFfWrite {}, OCode 0)", z(v))
        }
        Act::Rev => format!("(ARev, OVal {})", m.rev()),
    }
}

fn snapshot(env: &mut Env, k: usize) -> String {
    let l = env.loader(k);
    let m = l.load().unwrap();
    let mut parts: Vec<String> = Vec::new();
    for kind in KINDS {
        let p = m.pool(kind).unwrap();
        parts.push(format!("[{}; {}]", p.long_amount().unwrap(), p.short_amount().unwrap()));
    }
    parts.push(format!(
        "[{}; {}; {}]",
        z(m.clock(ClockKind::PriceImpactDistribution).unwrap()),
        z(m.clock(ClockKind::Borrowing).unwrap()),
        z(m.clock(ClockKind::Funding).unwrap())
    ));
    let s = m.state();
    parts.push(format!("[{}; {}; {}]", s.long_token_balance_raw(), s.short_token_balance_raw(), z(s.funding_factor_per_second())));
    format!("[{}]", parts.join("; "))
}

/// Decode the MarketStateUpdated CPI event: (rev, updated pool kinds, clocks?, other?).
fn decode_event(data: &[u8]) -> String {
    let d = &data[16..];
    let rev = u64::from_le_bytes(d[0..8].try_into().unwrap());
    let mut o = 8 + 32;
    let n = u32::from_le_bytes(d[o..o + 4].try_into().unwrap()) as usize;
    o += 4;
    let kinds: Vec<u8> = d[o..o + n].to_vec();
    o += n;
    let np = u32::from_le_bytes(d[o..o + 4].try_into().unwrap()) as usize;
    o += 4 + np * 48;
    assert_eq!(n, np);
    let nc = u32::from_le_bytes(d[o..o + 4].try_into().unwrap()) as usize;
    o += 4 + nc * 80;
    let no = u32::from_le_bytes(d[o..o + 4].try_into().unwrap()) as usize;
    format!("(Some ({rev}, {}, {}, {}))", zl(&kinds), b(nc == 1), b(no == 1))
}

fn gen_act(rng: &mut Rng, touched: &mut Vec<usize>) -> Act {
    let k = if !touched.is_empty() && rng.chance(1, 2) { *rng.pick(touched) } else { rng.below(16) as usize };
    match rng.below(20) {
        0..=3 => Act::PoolRead(k),
        4..=8 => {
            if !touched.contains(&k) { touched.push(k); }
            let d: i128 = match rng.below(16) { 0 => 0, 1 => -1, 2 => i128::MAX, 3 => i128::MIN, 4 | 5 => -(rng.below(1_000) as i128), _ => rng.below(1_000_000_000) as i128 };
            Act::PoolAdd(k, rng.chance(1, 2), d)
        }
        9 => Act::ClockRead(rng.below(2) as usize),
        10 | 11 => Act::ClockTick(rng.below(3) as usize),
        12 | 13 => Act::BalRead(rng.chance(1, 2)),
        14 | 15 => Act::BalIn(rng.chance(1, 2), match rng.below(5) { 0 => 0, 1 => u64::MAX, _ => rng.below(1_000_000) }),
        16 => Act::BalOut(rng.chance(1, 2), match rng.below(5) { 0 => 0, 1 => u64::MAX, _ => rng.below(1_000) }),
        17 => Act::FfRead,
        18 => Act::FfWrite(rng.sint(128)),
        _ => Act::Rev,
    }
}

fn history(rng: &mut Rng) {
    let mut env = Env::new();
    let t0: i64 = 1_700_000_000 + rng.below(1000) as i64;
    g9rt::set_clock(1, t0);
    let k = env.add_market(1, 1, 2, 3, None, true);
    let (lt, st) = (token(2), token(3));
    let _ = g9rt::take_invokes();
    let mut items: Vec<String> = Vec::new();
    let n_ops = rng.range(2, 9);
    let mut now = t0;
    let mut touched: Vec<usize> = Vec::new(); // pool kinds written so far (to revisit them after abandon / commit)
    let (mut commits, mut abandons, mut empty_commits) = (0, 0, 0);
    for _ in 0..n_ops {
        if rng.chance(1, 2) {
            now = match rng.below(4) { 0 => now, 1 => now - rng.below(50) as i64, _ => now + rng.below(500) as i64 };
            g9rt::set_clock(1, now);
            items.push(format!("ISetTime {}", z(now)));
        }
        let n_acts = if rng.chance(1, 6) { 0 } else { rng.range(1, 9) };
        let acts: Vec<Act> = (0..n_acts).map(|_| gen_act(rng, &mut touched)).collect();
        let commit = rng.chance(1, 2);
        let loader = env.loader(k);
        let lref: &'static anchor_lang::prelude::AccountLoader<'static, gmsol_store::states::Market> = unsafe { &*(&loader as *const _) };
        let ev = env.ev_info();
        let obs: Vec<String> = hk::with_revertible_market(lref, ev, 255, commit, |m| acts.iter().map(|a| run_act(m, a, &lt, &st)).collect()).unwrap();
        drop(loader);
        let inv = g9rt::take_invokes();
        let evt = if commit {
            assert_eq!(inv.len(), 1, "exactly one CPI (the state event) on commit");
            decode_event(&inv[0].data)
        } else {
            assert!(inv.is_empty(), "no CPI without commit");
            "None".to_string()
        };
        if commit { commits += 1; if n_acts == 0 { empty_commits += 1; } } else { abandons += 1; }
        items.push(format!("IOp [{}] {} {} {}", obs.join("; "), b(commit), evt, snapshot(&mut env, k)));
    }
    let tag = if commits > 0 && abandons > 0 { if empty_commits > 0 { "mixed+empty_commit" } else { "mixed" } } else if commits > 0 { "commit_only" } else { "abandon_only" };
    emit(&format!("hist/{tag}"), &format!("Hist {} [{}]", z(t0), items.join("; ")));
}

fn main() {
    let a = args();
    silence_panics();
    g9rt::install();
    let mut rng = Rng::new(a.seed);
    for _ in 0..a.n {
        history(&mut rng);
    }
}
