//! C21 driver: histories of revertible operations on a REAL `Market` account through the real
//! `RevertibleMarket` (created by `RevertibleMarket::new`, i.e. `start_revertible_operation`;
//! accesses through its public gmsol-model trait impls; `commit()` or drop), using the existing
//! cfg(gmsol_verif) plumbing hook `verif_hooks_g9::with_revertible_market` and the g9 arena runtime.
//! After every operation the committed storage is read back through `Market::pool / clock / state`,
//! and the `MarketStateUpdated` CPI event of a commit is decoded (rev, updated kinds, clocks?, other?).
use gmsol_model::{
    Balance, Bank, BaseMarket, BaseMarketMut, BorrowingFeeMarket, BorrowingFeeMarketMut, ClockKind, PerpMarket,
    PerpMarketMut, PoolExt, PoolKind, PositionImpactMarket, PositionImpactMarketMut, SwapMarket, SwapMarketMut,
};
use gmsol_store::states::market::revertible::{market::RevertibleMarket, Revision};
use gmsol_store::states::market::pool::Pool;
use gmsol_store::verif_hooks_g9 as hk;
use gmsol_verif_harness::g9mk::{token, Env};
use gmsol_verif_harness::g9rt;
use gmsol_verif_harness::*;

type RM = RevertibleMarket<'static, 'static>;

const KINDS: [PoolKind; 16] = [
    PoolKind::Primary, PoolKind::SwapImpact, PoolKind::ClaimableFee, PoolKind::OpenInterestForLong,
    PoolKind::OpenInterestForShort, PoolKind::OpenInterestInTokensForLong, PoolKind::OpenInterestInTokensForShort,
    PoolKind::PositionImpact, PoolKind::BorrowingFactor, PoolKind::FundingAmountPerSizeForLong,
    PoolKind::FundingAmountPerSizeForShort, PoolKind::ClaimableFundingAmountPerSizeForLong,
    PoolKind::ClaimableFundingAmountPerSizeForShort, PoolKind::CollateralSumForLong, PoolKind::CollateralSumForShort,
    PoolKind::TotalBorrowing,
];

fn pool_ref(m: &RM, k: usize) -> gmsol_model::Result<&Pool> {
    match k {
        0 => m.liquidity_pool(),
        1 => m.swap_impact_pool(),
        2 => m.claimable_fee_pool(),
        3 => m.open_interest_pool(true),
        4 => m.open_interest_pool(false),
        5 => m.open_interest_in_tokens_pool(true),
        6 => m.open_interest_in_tokens_pool(false),
        7 => m.position_impact_pool(),
        8 => m.borrowing_factor_pool(),
        9 => m.funding_amount_per_size_pool(true),
        10 => m.funding_amount_per_size_pool(false),
        11 => m.claimable_funding_amount_per_size_pool(true),
        12 => m.claimable_funding_amount_per_size_pool(false),
        13 => m.collateral_sum_pool(true),
        14 => m.collateral_sum_pool(false),
        _ => m.total_borrowing_pool(),
    }
}
fn pool_mut(m: &mut RM, k: usize) -> gmsol_model::Result<&mut Pool> {
    match k {
        0 => m.liquidity_pool_mut(),
        1 => m.swap_impact_pool_mut(),
        2 => m.claimable_fee_pool_mut(),
        3 => m.open_interest_pool_mut(true),
        4 => m.open_interest_pool_mut(false),
        5 => m.open_interest_in_tokens_pool_mut(true),
        6 => m.open_interest_in_tokens_pool_mut(false),
        7 => m.position_impact_pool_mut(),
        8 => m.borrowing_factor_pool_mut(),
        9 => m.funding_amount_per_size_pool_mut(true),
        10 => m.funding_amount_per_size_pool_mut(false),
        11 => m.claimable_funding_amount_per_size_pool_mut(true),
        12 => m.claimable_funding_amount_per_size_pool_mut(false),
        13 => m.collateral_sum_pool_mut(true),
        14 => m.collateral_sum_pool_mut(false),
        _ => m.total_borrowing_pool_mut(),
    }
}

#[derive(Clone)]
enum Act {
    PoolRead(usize),
    PoolAdd(usize, bool, i128),
    ClockRead(usize),
    ClockTick(usize),
    BalRead(bool),
    BalIn(bool, u64),
    BalOut(bool, u64),
    FfRead,
    FfWrite(i128),
    Rev,
}

fn run_act(m: &mut RM, a: &Act, lt: &anchor_lang::prelude::Pubkey, st: &anchor_lang::prelude::Pubkey) -> String {
    match a {
        Act::PoolRead(k) => {
            let p = pool_ref(m, *k).unwrap();
            format!("(APoolRead {k}, OPair {} {})", p.long_amount().unwrap(), p.short_amount().unwrap())
        }
        Act::PoolAdd(k, is_long, d) => {
            let p = pool_mut(m, *k).unwrap();
            let r = p.apply_delta_amount(*is_long, d);
            format!("(APoolAdd {k} {} {}, OCode {})", b(*is_long), z(d), if r.is_ok() { 0 } else { 1 })
        }
        Act::ClockRead(c) => {
            let v = if *c == 0 { m.passed_in_seconds_for_position_impact_distribution() } else { m.passed_in_seconds_for_borrowing() }.unwrap();
            format!("(AClockRead {c}, OVal {v})")
        }
        Act::ClockTick(c) => {
            let v = match c {
                0 => m.just_passed_in_seconds_for_position_impact_distribution(),
                1 => m.just_passed_in_seconds_for_borrowing(),
                _ => m.just_passed_in_seconds_for_funding(),
            }
            .unwrap();
            format!("(AClockTick {c}, OVal {v})")
        }
        Act::BalRead(is_long) => {
            let v = m.balance(if *is_long { lt } else { st }).unwrap();
            format!("(ABalRead {}, OVal {v})", b(*is_long))
        }
        Act::BalIn(is_long, amt) => {
            let r = m.record_transferred_in_by_token(if *is_long { lt } else { st }, amt);
            format!("(ABalIn {} {amt}, OCode {})", b(*is_long), if r.is_ok() { 0 } else { 1 })
        }
        Act::BalOut(is_long, amt) => {
            let r = m.record_transferred_out_by_token(if *is_long { lt } else { st }, amt);
            format!("(ABalOut {} {amt}, OCode {})", b(*is_long), if r.is_ok() { 0 } else { 1 })
        }
        Act::FfRead => format!("(AFfRead, OVal {})", z(*m.funding_factor_per_second())),
        Act::FfWrite(v) => {
            *m.funding_factor_per_second_mut() = *v;
            format!("(AFfWrite {}, OCode 0)", z(v))
        }
        Act::Rev => format!("(ARev, OVal {})", m.rev()),
    }
}

fn snapshot(env: &mut Env, k: usize) -> String {
    let l = env.loader(k);
    let m = l.load().unwrap();
    let mut parts: Vec<String> = Vec::new();
    for kind in KINDS {
        let p = m.pool(kind).unwrap();
        parts.push(format!("[{}; {}]", p.long_amount().unwrap(), p.short_amount().unwrap()));
    }
    parts.push(format!(
        "[{}; {}; {}]",
        z(m.clock(ClockKind::PriceImpactDistribution).unwrap()),
        z(m.clock(ClockKind::Borrowing).unwrap()),
        z(m.clock(ClockKind::Funding).unwrap())
    ));
    let s = m.state();
    parts.push(format!("[{}; {}; {}]", s.long_token_balance_raw(), s.short_token_balance_raw(), z(s.funding_factor_per_second())));
    format!("[{}]", parts.join("; "))
}

/// Decode the MarketStateUpdated CPI event: (rev, updated pool kinds, clocks?, other?).
fn decode_event(data: &[u8]) -> String {
    let d = &data[16..];
    let rev = u64::from_le_bytes(d[0..8].try_into().unwrap());
    let mut o = 8 + 32;
    let n = u32::from_le_bytes(d[o..o + 4].try_into().unwrap()) as usize;
    o += 4;
    let kinds: Vec<u8> = d[o..o + n].to_vec();
    o += n;
    let np = u32::from_le_bytes(d[o..o + 4].try_into().unwrap()) as usize;
    o += 4 + np * 48;
    assert_eq!(n, np);
    let nc = u32::from_le_bytes(d[o..o + 4].try_into().unwrap()) as usize;
    o += 4 + nc * 80;
    let no = u32::from_le_bytes(d[o..o + 4].try_into().unwrap()) as usize;
    format!("(Some ({rev}, {}, {}, {}))", zl(&kinds), b(nc == 1), b(no == 1))
}

fn gen_act(rng: &mut Rng, touched: &mut Vec<usize>) -> Act {
    let k = if !touched.is_empty() && rng.chance(1, 2) { *rng.pick(touched) } else { rng.below(16) as usize };
    match rng.below(20) {
        0..=3 => Act::PoolRead(k),
        4..=8 => {
            if !touched.contains(&k) { touched.push(k); }
            let d: i128 = match rng.below(16) { 0 => 0, 1 => -1, 2 => i128::MAX, 3 => i128::MIN, 4 | 5 => -(rng.below(1_000) as i128), _ => rng.below(1_000_000_000) as i128 };
            Act::PoolAdd(k, rng.chance(1, 2), d)
        }
        9 => Act::ClockRead(rng.below(2) as usize),
        10 | 11 => Act::ClockTick(rng.below(3) as usize),
        12 | 13 => Act::BalRead(rng.chance(1, 2)),
        14 | 15 => Act::BalIn(rng.chance(1, 2), match rng.below(5) { 0 => 0, 1 => u64::MAX, _ => rng.below(1_000_000) }),
        16 => Act::BalOut(rng.chance(1, 2), match rng.below(5) { 0 => 0, 1 => u64::MAX, _ => rng.below(1_000) }),
        17 => Act::FfRead,
        18 => Act::FfWrite(rng.sint(128)),
        _ => Act::Rev,
    }
}

fn history(rng: &mut Rng) {
    let mut env = Env::new();
    let t0: i64 = 1_700_000_000 + rng.below(1000) as i64;
    g9rt::set_clock(1, t0);
    let k = env.add_market(1, 1, 2, 3, None, true);
    let (lt, st) = (token(2), token(3));
    let _ = g9rt::take_invokes();
    let mut items: Vec<String> = Vec::new();
    let n_ops = rng.range(2, 9);
    let mut now = t0;
    let mut touched: Vec<usize> = Vec::new(); // pool kinds written so far (to revisit them after abandon / commit)
    let (mut commits, mut abandons, mut empty_commits) = (0, 0, 0);
    for _ in 0..n_ops {
        if rng.chance(1, 2) {
            now = match rng.below(4) { 0 => now, 1 => now - rng.below(50) as i64, _ => now + rng.below(500) as i64 };
            g9rt::set_clock(1, now);
            items.push(format!("ISetTime {}", z(now)));
        }
        let n_acts = if rng.chance(1, 6) { 0 } else { rng.range(1, 9) };
        let acts: Vec<Act> = (0..n_acts).map(|_| gen_act(rng, &mut touched)).collect();
        let commit = rng.chance(1, 2);
        let loader = env.loader(k);
        let lref: &'static anchor_lang::prelude::AccountLoader<'static, gmsol_store::states::Market> = unsafe { &*(&loader as *const _) };
        let ev = env.ev_info();
        let obs: Vec<String> = hk::with_revertible_market(lref, ev, 255, commit, |m| acts.iter().map(|a| run_act(m, a, &lt, &st)).collect()).unwrap();
        drop(loader);
        let inv = g9rt::take_invokes();
        let evt = if commit {
            assert_eq!(inv.len(), 1, "exactly one CPI (the state event) on commit");
            decode_event(&inv[0].data)
        } else {
            assert!(inv.is_empty(), "no CPI without commit");
            "None".to_string()
        };
        if commit { commits += 1; if n_acts == 0 { empty_commits += 1; } } else { abandons += 1; }
        items.push(format!("IOp [{}] {} {} {}", obs.join("; "), b(commit), evt, snapshot(&mut env, k)));
    }
    let tag = if commits > 0 && abandons > 0 { if empty_commits > 0 { "mixed+empty_commit" } else { "mixed" } } else if commits > 0 { "commit_only" } else { "abandon_only" };
    emit(&format!("hist/{tag}"), &format!("Hist {} [{}]", z(t0), items.join("; ")));
}


// ---------------------------------------------------------------- liquidity market: mint / burn deferral
use anchor_lang::prelude::{Account, AccountLoader, Pubkey};
use anchor_lang::solana_program::program_pack::Pack;
use anchor_spl::token::{spl_token, Mint};
use gmsol_model::{LiquidityMarket, LiquidityMarketMut};
use gmsol_store::states::{Market, Store};

fn install_token_dispatcher() {
    // a minimal stand-in for the token program: MintTo (7) / Burn (8) change the mint's supply
    g9rt::set_dispatcher(Some(Box::new(|ix, infos, _seeds| {
        if ix.program_id == anchor_spl::token::ID && ix.data.len() >= 9 {
            let tag = ix.data[0];
            let amount = u64::from_le_bytes(ix.data[1..9].try_into().unwrap());
            let mint_key = match tag { 7 => ix.accounts[0].pubkey, 8 => ix.accounts[1].pubkey, _ => return Ok(()) };
            for ai in infos {
                if *ai.key == mint_key {
                    let mut d = ai.try_borrow_mut_data()?;
                    let cur = u64::from_le_bytes(d[36..44].try_into().unwrap());
                    let new = if tag == 7 { cur.checked_add(amount) } else { cur.checked_sub(amount) }
                        .ok_or(anchor_lang::solana_program::program_error::ProgramError::ArithmeticOverflow)?;
                    d[36..44].copy_from_slice(&new.to_le_bytes());
                }
            }
        }
        Ok(())
    })));
}

fn lm_history(rng: &mut Rng) {
    let mut env = Env::new();
    g9rt::set_clock(1, 1_700_000_000);
    let k = env.add_market(1, 1, 2, 3, None, true);
    let supply0: u64 = match rng.below(6) { 0 => 0, 1 => u64::MAX, 2 => u64::MAX - rng.below(1000), 3 => rng.below(1000), _ => rng.below(1 << 40) };
    let mint_state = spl_token::state::Mint { mint_authority: Default::default(), supply: supply0, decimals: 9, is_initialized: true, freeze_authority: Default::default() };
    let mut mint_data = vec![0u8; spl_token::state::Mint::LEN];
    spl_token::state::Mint::pack(mint_state, &mut mint_data).unwrap();
    let mint_i = env.arena.add(g9rt::key(7001), anchor_spl::token::ID, 1_000_000, &mint_data, false, true, false);
    let tp_i = env.arena.add(anchor_spl::token::ID, Pubkey::default(), 1, &[], false, false, true);
    let mut store: Box<Store> = gmsol_verif_harness::g9mk::zeroed_box::<Store>();
    store.init(g9rt::key(7002), "", 255, g9rt::key(7003), g9rt::key(7004)).unwrap();
    let store_i = env.arena.add(env.store, gmsol_store::ID, 1_000_000, &g9rt::zero_copy_data::<Store>(&store), false, false, false);
    let recv_i = env.arena.add(g9rt::key(7005), anchor_spl::token::ID, 1_000_000, &[0u8; 165], false, true, false);
    let vault_i = env.arena.add(g9rt::key(7006), anchor_spl::token::ID, 1_000_000, &[0u8; 165], false, true, false);
    let _ = g9rt::take_invokes();
    let n_ops = rng.range(2, 6);
    let mut ops: Vec<String> = Vec::new();
    let (mut commits, mut abandons) = (0, 0);
    for _ in 0..n_ops {
        let cur_supply = {
            let d = env.arena.info(mint_i);
            let b = d.try_borrow_data().unwrap();
            u64::from_le_bytes(b[36..44].try_into().unwrap())
        };
        let n_acts = rng.below(7);
        let mut acts: Vec<(u8, u128)> = vec![(2, 0)];
        for _ in 0..n_acts {
            let amt: u128 = match rng.below(10) {
                0 => 0,
                1 => u64::MAX as u128,
                2 => u64::MAX as u128 + 1 + rng.below(5) as u128,
                3 => (u64::MAX - cur_supply) as u128,
                4 => (u64::MAX - cur_supply) as u128 + 1,
                5 => cur_supply as u128,
                6 => cur_supply as u128 + 1,
                _ => rng.below(1 << 30) as u128,
            };
            acts.push((rng.below(3) as u8, amt));
        }
        let commit = rng.chance(1, 2);
        let loader = env.loader(k);
        let lref: &'static AccountLoader<'static, Market> = unsafe { &*(&loader as *const _) };
        let mint_info = env.arena.info(mint_i);
        let mint_info = env.refs.r(mint_info);
        let mint_acc: Account<'static, Mint> = Account::try_from(mint_info).expect("mint account");
        let mref: &'static Account<'static, Mint> = unsafe { &*(&mint_acc as *const _) };
        let tp = { let i = env.arena.info(tp_i); env.refs.r(i) };
        let store_info = { let i = env.arena.info(store_i); env.refs.r(i) };
        let store_loader: AccountLoader<'static, Store> = AccountLoader::try_from(store_info).expect("store loader");
        let sref: &'static AccountLoader<'static, Store> = unsafe { &*(&store_loader as *const _) };
        let recv = { let i = env.arena.info(recv_i); env.refs.r(i) };
        let vault = { let i = env.arena.info(vault_i); env.refs.r(i) };
        let ev = env.ev_info();
        let obs: Vec<String> = gmsol_store::verif_hooks_g4::with_revertible_liquidity_market_commit(
            lref, mref, tp, sref, Some(recv), Some(vault), ev, 255, commit,
            |m| {
                acts.iter()
                    .map(|(kind, amt)| match kind {
                        0 => format!("(LMint {amt}, OCode {})", if m.mint(amt).is_ok() { 0 } else { 1 }),
                        1 => format!("(LBurn {amt}, OCode {})", if m.burn(amt).is_ok() { 0 } else { 1 }),
                        _ => format!("(LSupply, OVal {})", m.total_supply()),
                    })
                    .collect()
            },
        )
        .unwrap();
        drop(store_loader);
        drop(mint_acc);
        drop(loader);
        let cpis: Vec<String> = g9rt::take_invokes()
            .iter()
            .filter(|ix| ix.program_id == anchor_spl::token::ID)
            .map(|ix| format!("({}, {})", ix.data[0], u64::from_le_bytes(ix.data[1..9].try_into().unwrap())))
            .collect();
        if commit { commits += 1 } else { abandons += 1 }
        ops.push(format!("LMOp [{}] {} [{}]", obs.join("; "), b(commit), cpis.join("; ")));
    }
    let tag = if commits > 0 && abandons > 0 { "mixed" } else if commits > 0 { "commit_only" } else { "abandon_only" };
    emit(&format!("liquidity/{tag}"), &format!("LMHist {supply0} [{}]", ops.join("; ")));
}

fn main() {
    let a = args();
    silence_panics();
    g9rt::install();
    install_token_dispatcher();
    let mut rng = Rng::new(a.seed);
    for i in 0..a.n {
        if i % 4 == 3 { lm_history(&mut rng) } else { history(&mut rng) }
    }
}
