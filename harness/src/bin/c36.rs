//! C36 driver: timelock.
//!
//! Real code driven:
//!  * `InstructionLoader::load_and_init_instruction` / `load_instruction`, `InstructionAccess::to_instruction`
//!    on a real (zeroed, exactly sized) buffer account; raw bytes printed                        (Ix)
//!  * `InstructionHeader::{approve,is_approved,approved_at,apporver,is_executable}` (clock stub),
//!    `TimelockConfig::{init,increase_delay,delay}`, `Executor::{try_init,role_name}`,
//!    `roles::timelocked_role`, `Store::{enable_role,grant,revoke,has_role}`                     (Hist)
//!  The order of the checks inside the timelock instruction handlers and their Anchor constraints
//!  are re-stated in this driver (see notes/C36.md).
use anchor_lang::prelude::*;
use anchor_lang::solana_program::instruction::Instruction;
use anchor_lang::Discriminator;
use gmsol_store::states::Store;
use gmsol_store::CoreError;
use gmsol_timelock::roles;
use gmsol_timelock::states::{
    config::TimelockConfig, find_executor_wallet_pda, Executor, InstructionAccess, InstructionHeader,
    InstructionLoader,
};
use gmsol_timelock::verif_hooks as hk;
use gmsol_verif_harness::g9rt::{self, Arena};
use gmsol_verif_harness::*;

fn code(e: &anchor_lang::error::Error) -> u32 {
    let c = g9rt::err_code(e);
    let m = |x: CoreError| -> u32 { x.into() };
    if c == m(CoreError::InvalidArgument) {
        1
    } else if c == m(CoreError::PreconditionsAreNotMet) {
        2
    } else if c == m(CoreError::PermissionDenied) {
        3
    } else if c == m(CoreError::Internal) {
        4
    } else {
        99
    }
}

fn bl(v: &[u8]) -> String {
    zl(v)
}
fn kl(k: &Pubkey) -> String {
    zl(&k.to_bytes())
}
fn instr_term(ix: &Instruction) -> String {
    let accts: Vec<String> = ix
        .accounts
        .iter()
        .map(|a| format!("mkMeta {} {} {}", kl(&a.pubkey), b(a.is_signer), b(a.is_writable)))
        .collect();
    format!("(mkInstr {} [{}] {})", kl(&ix.program_id), accts.join("; "), bl(&ix.data))
}

struct Refs {
    infos: Vec<Box<AccountInfo<'static>>>,
}
impl Refs {
    fn new() -> Self {
        Refs { infos: vec![] }
    }
    fn r(&mut self, a: AccountInfo<'static>) -> &'static AccountInfo<'static> {
        self.infos.push(Box::new(a));
        let p: *const AccountInfo<'static> = &**self.infos.last().unwrap();
        unsafe { &*p }
    }
}

/// A pool of keys with recognisable byte patterns plus hashed ones.
fn some_key(rng: &mut Rng) -> Pubkey {
    match rng.below(6) {
        0 => Pubkey::new_from_array([rng.below(256) as u8; 32]),
        1 => {
            let mut k = [0u8; 32];
            k[rng.below(32) as usize] = 1 + rng.below(255) as u8;
            Pubkey::new_from_array(k)
        }
        2 => Pubkey::new_from_array([255u8; 32]),
        _ => g9rt::key(1000 + rng.below(40)),
    }
}

struct Built {
    arena: Arena,
    buf: usize,
    accts: Vec<usize>,
    wallet: Pubkey,
    executor: Pubkey,
    bump: u8,
}

fn init_space(n: usize, dl: usize) -> usize {
    std::mem::size_of::<InstructionHeader>() + dl + n * 33
}

// ------------------------------------------------------------------ Ix: byte-level round trip
fn gen_ix(rng: &mut Rng) {
    let executor = g9rt::key(500 + rng.below(4));
    let (wallet, bump) = find_executor_wallet_pda(&executor, &gmsol_timelock::ID);
    let rent_receiver = some_key(rng);
    let program = some_key(rng);
    let dl = match rng.below(5) { 0 => 0, 1 => 1, 2 => 8, 3 => rng.below(40) as usize, _ => rng.below(120) as usize };
    let data: Vec<u8> = (0..dl).map(|_| match rng.below(4) { 0 => 0, 1 => 255, _ => rng.below(256) as u8 }).collect();
    let n = match rng.below(5) { 0 => 0, 1 => 1, _ => rng.below(9) as usize };
    let mut keys: Vec<(Pubkey, bool)> = vec![];
    for _ in 0..n {
        let k = if rng.chance(1, 3) { wallet } else if rng.chance(1, 5) && !keys.is_empty() { keys[rng.below(keys.len() as u64) as usize].0 } else { some_key(rng) };
        keys.push((k, rng.chance(1, 2)));
    }
    // signers: mostly indices of wallet accounts, sometimes wrong / out of range / duplicated
    let mut signers: Vec<u16> = vec![];
    for (i, (k, _)) in keys.iter().enumerate() {
        if *k == wallet && rng.chance(2, 3) {
            signers.push(i as u16);
        }
    }
    match rng.below(8) {
        0 if n > 0 => signers.push(rng.below(n as u64) as u16),
        1 => signers.push(n as u16 + rng.below(3) as u16),
        2 if !signers.is_empty() => signers.push(signers[0]),
        3 => signers.push(65535),
        _ => {}
    }
    if rng.chance(1, 2) {
        signers.reverse();
    }

    let mut ar = Arena::new();
    let mut rf = Refs::new();
    let buf_key = g9rt::key(700);
    let space = 8 + init_space(n, dl);
    let i_buf = ar.add(buf_key, gmsol_timelock::ID, 10_000_000, &vec![0u8; space], false, true, false);
    let mut infos: Vec<AccountInfo<'static>> = vec![];
    for (k, w) in &keys {
        let i = ar.add(*k, anchor_lang::system_program::ID, 0, &[], false, *w, false);
        infos.push(ar.info(i));
    }
    let loader: AccountLoader<'static, InstructionHeader> =
        AccountLoader::try_from_unchecked(&gmsol_timelock::ID, rf.r(ar.info(i_buf))).unwrap();
    let res = loader
        .load_and_init_instruction(executor, bump, rent_receiver, program, &data, &infos, &signers)
        .map(|ix| (ix.to_instruction(false).unwrap(), ix.to_instruction(true).unwrap()))
        .map_err(|e| code(&e));
    let head = format!(
        "Ix {} {} {bump} {} {} {} [{}] {} {}",
        bl(InstructionHeader::DISCRIMINATOR),
        kl(&executor),
        kl(&rent_receiver),
        kl(&program),
        bl(&data),
        keys.iter().map(|(k, w)| format!("({}, {})", kl(k), b(*w))).collect::<Vec<_>>().join("; "),
        zl(&signers),
        kl(&wallet)
    );
    match res {
        Err(e) => emit("ix/rejected", &format!("{head} (Err {e}) None")),
        Ok((ix_plain, ix_marked)) => {
            let bytes0 = ar.mems[i_buf].data().to_vec();
            // approve through the real header, then re-read everything
            let approver = g9rt::key(800 + rng.below(3));
            g9rt::set_clock(5, 1_700_000_000 + rng.below(1000) as i64);
            let ar_res = hk::header_approve(&mut loader.load_mut().unwrap(), approver).map_err(|e| code(&e));
            let bytes1 = ar.mems[i_buf].data().to_vec();
            let after = loader.load_instruction().unwrap();
            let ix_after = after.to_instruction(false).unwrap();
            let h = hk::instruction_ref_header(&after);
            let appr = format!(
                "(Some ({}, {}, {}, {}, {}, {}))",
                kl(&approver),
                g9rt::clock_ts(),
                match ar_res { Ok(()) => "(Ok tt)".to_string(), Err(e) => format!("(Err {e})") },
                bl(&bytes1),
                instr_term(&ix_after),
                format!("({}, {}, {})", b(h.is_approved()), oz(h.approved_at()), match h.apporver() { Some(k) => format!("(Some {})", kl(k)), None => "None".into() })
            );
            drop(after);
            let tag = if n == 0 && dl == 0 { "ix/trivial" } else if signers.is_empty() { "ix/ok_nosigner" } else { "ix/ok_signers" };
            emit(tag, &format!("{head} (Ok ({}, {}, {})) {appr}", bl(&bytes0), instr_term(&ix_plain), instr_term(&ix_marked)));
        }
    }
    drop(loader);
    drop(rf);
}

// ------------------------------------------------------------------ Hist
const EXEC_ROLES: [&str; 3] = ["ADMIN", "MARKET_KEEPER", "CONFIG_KEEPER"];

fn role_name(code: u64) -> String {
    match code {
        1 => roles::TIMELOCK_ADMIN.to_string(),
        2 => roles::TIMELOCK_KEEPER.to_string(),
        c => roles::timelocked_role(EXEC_ROLES[(c - 100) as usize]),
    }
}

struct Buf {
    open: bool,
    role: u64,
    ix: u64,
    idx: usize, // arena index of the buffer account
    wanted: Instruction,
    napprove: u64,
}

fn pid(k: Option<&Pubkey>, people: &[(u64, Pubkey)]) -> u64 {
    match k {
        None => 0,
        Some(k) => people.iter().find(|(_, p)| p == k).map(|(i, _)| *i).unwrap_or(999),
    }
}

fn gen_hist(rng: &mut Rng) {
    let mut ar = Arena::new();
    let mut rf = Refs::new();
    let store_key = g9rt::key(10);
    // real store with all roles enabled
    let mut store: Store = bytemuck::Zeroable::zeroed();
    store.init(g9rt::key(1), "", 255, g9rt::key(2), g9rt::key(3)).unwrap();
    for c in [1u64, 2, 100, 101, 102] {
        store.enable_role(&role_name(c)).unwrap();
    }
    let people: Vec<(u64, Pubkey)> = (1..=5u64).map(|i| (i, g9rt::key(900 + i))).collect();
    let key_of = |p: u64| people[(p - 1) as usize].1;
    let mut roles_init: Vec<(u64, u64)> = vec![(1, 1), (2, 2), (3, 100), (3, 101), (4, 102), (5, 100)];
    if rng.chance(1, 3) { roles_init.push((2, 100)); }
    for (p, r) in &roles_init {
        store.grant(&key_of(*p), &role_name(*r)).unwrap();
    }
    // real config
    let delay0 = *rng.pick(&[0u32, 1, 1, 60, 60, 3600, 3600, 86400, u32::MAX - 5, u32::MAX]);
    let mut config: TimelockConfig = bytemuck::Zeroable::zeroed();
    hk::config_init(&mut config, 255, delay0, store_key);
    // real executors
    let mut executors: Vec<(Pubkey, Executor, Pubkey, u8)> = vec![];
    for (i, name) in EXEC_ROLES.iter().enumerate() {
        let ek = g9rt::key(500 + i as u64);
        let (wallet, wb) = find_executor_wallet_pda(&ek, &gmsol_timelock::ID);
        let mut e: Executor = bytemuck::Zeroable::zeroed();
        hk::executor_try_init(&mut e, 254, wb, store_key, name).unwrap();
        executors.push((ek, e, wallet, wb));
    }
    let mut now: i64 = match rng.below(4) { 0 => 0, 1 => 1_700_000_000, 2 => i64::MAX - 100_000, _ => rng.below(1 << 40) as i64 };
    g9rt::set_clock(1, now);
    let mut bufs: Vec<Buf> = vec![];
    let mut nexec = 0u64;
    let mut next_ix = 1u64;
    let n_ops = rng.range(6, 22);
    let mut items: Vec<String> = vec![];
    let has = |store: &Store, p: u64, r: u64| -> bool { store.has_role(&people[(p - 1) as usize].1, &role_name(r)).unwrap_or(false) };
    let roles_term = format!("[{}]", roles_init.iter().map(|(p, r)| format!("({p}, {r})")).collect::<Vec<_>>().join("; "));
    let mut any_exec = false;
    let mut any_reject_time = false;

    for _ in 0..n_ops {
        let live: Vec<usize> = (0..bufs.len()).filter(|i| bufs[*i].open).collect();
        let pick_id = |rng: &mut Rng| -> u64 {
            if !live.is_empty() && rng.chance(9, 10) { live[rng.below(live.len() as u64) as usize] as u64 } else { rng.below(bufs.len() as u64 + 1) }
        };
        let snap = |bufs: &Vec<Buf>, ar: &Arena, id: Option<u64>, config: &TimelockConfig, now: i64, nexec: u64, rf: &mut Refs| -> String {
            let bt = match id.and_then(|i| bufs.get(i as usize)) {
                None => "None".to_string(),
                Some(bf) => {
                    // read the REAL header
                    let loader: AccountLoader<'static, InstructionHeader> = AccountLoader::try_from(rf.r(ar.info(bf.idx))).unwrap();
                    let h = loader.load().unwrap();
                    format!("(Some (mkBuf {} {} {} {} {} {} {}))", b(bf.open), bf.role, bf.ix, b(h.is_approved()),
                        pid(h.apporver(), &people), z(h.approved_at().unwrap_or(0)), bf.napprove)
                }
            };
            format!("Ok ({bt}, {}, {}, {nexec})", config.delay(), z(now))
        };
        let choice = if bufs.is_empty() { 0 } else { rng.below(22) };
        match choice {
            0..=2 => {
                let caller = if rng.chance(4, 5) { 2 } else { 1 + rng.below(5) };
                let role = rng.below(3);
                let ix = next_ix;
                let r: std::result::Result<u64, u32> = (|| {
                    if !has(&store, caller, 2) { return Err(3); }
                    let (ek, _, wallet, wb) = &executors[role as usize];
                    // a small instruction whose content identifies `ix`
                    let data = ix.to_le_bytes().to_vec();
                    let keys = [(g9rt::key(1100 + ix), true), (*wallet, false)];
                    let space = 8 + init_space(keys.len(), data.len());
                    let i_buf = ar.add(g9rt::key(2000 + bufs.len() as u64), gmsol_timelock::ID, 10_000_000, &vec![0u8; space], false, true, false);
                    let infos: Vec<AccountInfo<'static>> = keys.iter().map(|(k, w)| { let i = ar.add(*k, anchor_lang::system_program::ID, 0, &[], false, *w, false); ar.info(i) }).collect();
                    let loader: AccountLoader<'static, InstructionHeader> = AccountLoader::try_from_unchecked(&gmsol_timelock::ID, rf.r(ar.info(i_buf))).unwrap();
                    let wanted = loader.load_and_init_instruction(*ek, *wb, key_of(caller), g9rt::key(1200), &data, &infos, &[1u16])
                        .map_err(|e| code(&e))?.to_instruction(false).unwrap();
                    bufs.push(Buf { open: true, role, ix, idx: i_buf, wanted, napprove: 0 });
                    next_ix += 1;
                    Ok(bufs.len() as u64 - 1)
                })();
                let rs = match r { Ok(id) => snap(&bufs, &ar, Some(id), &config, now, nexec, &mut rf), Err(e) => format!("Err {e}") };
                items.push(format!("(TCreate {caller} {role} {ix}, {rs})"));
            }
            3..=7 => {
                let id = pick_id(rng);
                let brole = bufs.get(id as usize).map(|x| x.role).unwrap_or(0);
                let role = if rng.chance(9, 10) { brole } else { rng.below(3) };
                let caller = match rng.below(6) { 0 | 1 | 2 => if role == 2 { 4 } else { 3 }, 3 => 5, _ => 1 + rng.below(5) };
                let r: std::result::Result<(), u32> = (|| {
                    let bf = bufs.get_mut(id as usize).filter(|x| x.open).ok_or(5u32)?;
                    // Anchor constraint executor.role_name == role, on the REAL executor
                    if executors[bf.role as usize].1.role_name().unwrap() != EXEC_ROLES[role as usize] { return Err(1); }
                    if !has(&store, caller, 100 + role) { return Err(3); }
                    let loader: AccountLoader<'static, InstructionHeader> = AccountLoader::try_from(rf.r(ar.info(bf.idx))).unwrap();
                    hk::header_approve(&mut loader.load_mut().unwrap(), key_of(caller)).map_err(|e| code(&e))?; // REAL
                    bf.napprove += 1;
                    Ok(())
                })();
                let rs = match r { Ok(()) => snap(&bufs, &ar, Some(id), &config, now, nexec, &mut rf), Err(e) => format!("Err {e}") };
                items.push(format!("(TApprove {caller} {role} {id}, {rs})"));
            }
            8 => {
                let id = pick_id(rng);
                let caller = if rng.chance(3, 4) { 1 } else { 1 + rng.below(5) };
                let r: std::result::Result<(), u32> = (|| {
                    if !has(&store, caller, 1) { return Err(3); }
                    let bf = bufs.get_mut(id as usize).filter(|x| x.open).ok_or(5u32)?;
                    bf.open = false;
                    Ok(())
                })();
                let rs = match r { Ok(()) => snap(&bufs, &ar, Some(id), &config, now, nexec, &mut rf), Err(e) => format!("Err {e}") };
                items.push(format!("(TCancel {caller} {id}, {rs})"));
            }
            9..=13 => {
                let id = pick_id(rng);
                let caller = if rng.chance(5, 6) { 2 } else { 1 + rng.below(5) };
                let r: std::result::Result<(), u32> = (|| {
                    if !has(&store, caller, 2) { return Err(3); }
                    let bf = bufs.get(id as usize).filter(|x| x.open).ok_or(5u32)?;
                    let loader: AccountLoader<'static, InstructionHeader> = AccountLoader::try_from(rf.r(ar.info(bf.idx))).unwrap();
                    let ixr = loader.load_instruction().map_err(|e| code(&e))?; // REAL
                    let h = hk::instruction_ref_header(&ixr);
                    let approver = *h.apporver().ok_or(2u32)?; // REAL
                    let tl = roles::timelocked_role(executors[bf.role as usize].1.role_name().unwrap()); // REAL
                    if !store.has_role(&approver, &tl).unwrap_or(false) { return Err(2); } // REAL role table
                    if !h.is_executable(config.delay()).map_err(|e| code(&e))? { any_reject_time = true; return Err(2); } // REAL (clock stub)
                    let ix = ixr.to_instruction(false).map_err(|_| 1u32)?; // REAL
                    // the instruction handed to invoke_signed is exactly the one requested at creation
                    assert_eq!(ix, bf.wanted);
                    assert!(ix.accounts.iter().all(|a| !a.is_signer || a.pubkey == executors[bf.role as usize].2));
                    Ok(())
                })();
                if r.is_ok() { bufs[id as usize].open = false; nexec += 1; any_exec = true; }
                let rs = match r { Ok(()) => snap(&bufs, &ar, Some(id), &config, now, nexec, &mut rf), Err(e) => format!("Err {e}") };
                items.push(format!("(TExecute {caller} {id}, {rs})"));
            }
            14 => {
                let caller = if rng.chance(3, 4) { 1 } else { 1 + rng.below(5) };
                let delta = match rng.below(5) { 0 => 0u32, 1 => 1, 2 => 3600, 3 => u32::MAX, _ => rng.below(100_000) as u32 };
                let r: std::result::Result<(), u32> = (|| {
                    if !has(&store, caller, 1) { return Err(3); }
                    if delta == 0 { return Err(1); } // require_neq!(delta, 0)
                    hk::config_increase_delay(&mut config, delta).map(|_| ()).map_err(|e| code(&e)) // REAL
                })();
                let rs = match r { Ok(()) => snap(&bufs, &ar, None, &config, now, nexec, &mut rf), Err(e) => format!("Err {e}") };
                items.push(format!("(TIncreaseDelay {caller} {delta}, {rs})"));
            }
            15 => {
                let p = 1 + rng.below(5);
                let rl = *rng.pick(&[1u64, 2, 100, 101, 102]);
                let _ = store.grant(&key_of(p), &role_name(rl)); // REAL (already-granted is an error = no-op)
                items.push(format!("(TGrant {p} {rl}, {})", snap(&bufs, &ar, None, &config, now, nexec, &mut rf)));
            }
            16 => {
                let p = if rng.chance(1, 2) { 3 } else { 1 + rng.below(5) };
                let rl = *rng.pick(&[100u64, 101, 102, 100, 2]);
                let _ = store.revoke(&key_of(p), &role_name(rl)); // REAL
                items.push(format!("(TRevoke {p} {rl}, {})", snap(&bufs, &ar, None, &config, now, nexec, &mut rf)));
            }
            _ => {
                let d = config.delay() as i64;
                let dt: i64 = match rng.below(10) { 0 => 0, 1 => 1, 2 => d - 1, 3 | 4 | 5 => d, 6 | 7 => d + 1, 8 => rng.below(100_000) as i64, _ => d / 2 };
                let dt = dt.max(0);
                if now.checked_add(dt).is_some() {
                    now += dt;
                    g9rt::set_clock(1, now);
                    items.push(format!("(TTick {dt}, {})", snap(&bufs, &ar, None, &config, now, nexec, &mut rf)));
                } else {
                    items.push(format!("(TTick {dt}, Err 1)"));
                }
            }
        }
    }
    let tag = if any_exec { "hist/executed" } else if any_reject_time { "hist/too_early" } else { "hist/no_exec" };
    emit(tag, &format!("Hist {delay0} {roles_term} {} [{}]", z(now_start(&items, now)), items.join("; ")));
    drop(rf);
}

// the start time is needed by the model; recover it by subtracting all successful ticks
fn now_start(items: &[String], now_end: i64) -> i64 {
    let mut t = now_end;
    for it in items {
        if let Some(rest) = it.strip_prefix("(TTick ") {
            if !rest.contains("Err") {
                let dt: i64 = rest.split(',').next().unwrap().trim().parse().unwrap();
                t -= dt;
            }
        }
    }
    t
}

fn main() {
    let a = args();
    silence_panics();
    g9rt::install();
    assert_eq!(std::mem::size_of::<InstructionHeader>(), 224);
    let mut rng = Rng::new(a.seed);
    for i in 0..a.n {
        if i % 3 == 0 { gen_ix(&mut rng) } else { gen_hist(&mut rng) }
    }
}
