//! C36 driver: timelock.
//!
//! Real code driven:
//!  * `InstructionLoader::load_and_init_instruction` / `load_instruction`, `InstructionAccess::to_instruction`
//!    on a real (zeroed, exactly sized) buffer account; raw bytes printed                        (Ix)
//!  * histories of REAL instructions through the program entrypoint `gmsol_timelock::entry` on a mini
//!    in-process runtime (harness/src/g9prog.rs): `initialize_executor`, `create_instruction_buffer`
//!    (Anchor `init` -> system-program CreateAccount implemented by the runtime), `approve_instruction`,
//!    `cancel_instruction`, `execute_instruction`, `increase_delay`.  Role checks are real CPIs into
//!    `gmsol_store::entry` (`check_role`, result through return data); the executed instruction is the
//!    one recorded from the program's own `invoke_signed`, with the runtime's signer rule (a signer of
//!    the inner instruction must be a PDA of the timelock program for the given seeds).  Failed
//!    instructions roll every account back.  Role grants / revocations edit the real role table in the
//!    store account with `Store::{grant,revoke}`; the timelock config account is written by the real
//!    `TimelockConfig::init` (the `initialize_config` handler also moves the store authority).   (Hist)
use anchor_lang::prelude::*;
use anchor_lang::solana_program::instruction::Instruction;
use anchor_lang::Discriminator;
use gmsol_store::states::Store;
use gmsol_store::CoreError;
use gmsol_timelock::roles;
use gmsol_timelock::states::{
    config::TimelockConfig, find_executor_wallet_pda, Executor, InstructionAccess, InstructionHeader,
    InstructionLoader,
};
use gmsol_timelock::verif_hooks as hk;
use anchor_lang::solana_program::instruction::AccountMeta;
use anchor_lang::solana_program::program_error::ProgramError;
use gmsol_verif_harness::g9rt::{self, Arena};
use gmsol_verif_harness::{g9mk, g9prog};
use gmsol_verif_harness::*;

fn code(e: &anchor_lang::error::Error) -> u32 {
    let c = g9rt::err_code(e);
    let m = |x: CoreError| -> u32 { x.into() };
    if c == m(CoreError::InvalidArgument) {
        1
    } else if c == m(CoreError::PreconditionsAreNotMet) {
        2
    } else if c == m(CoreError::PermissionDenied) {
        3
    } else if c == m(CoreError::Internal) {
        4
    } else {
        99
    }
}

fn bl(v: &[u8]) -> String {
    zl(v)
}
fn kl(k: &Pubkey) -> String {
    zl(&k.to_bytes())
}
fn instr_term(ix: &Instruction) -> String {
    let accts: Vec<String> = ix
        .accounts
        .iter()
        .map(|a| format!("mkMeta {} {} {}", kl(&a.pubkey), b(a.is_signer), b(a.is_writable)))
        .collect();
    format!("(mkInstr {} [{}] {})", kl(&ix.program_id), accts.join("; "), bl(&ix.data))
}

struct Refs {
    infos: Vec<Box<AccountInfo<'static>>>,
}
impl Refs {
    fn new() -> Self {
        Refs { infos: vec![] }
    }
    fn r(&mut self, a: AccountInfo<'static>) -> &'static AccountInfo<'static> {
        self.infos.push(Box::new(a));
        let p: *const AccountInfo<'static> = &**self.infos.last().unwrap();
        unsafe { &*p }
    }
}

/// A pool of keys with recognisable byte patterns plus hashed ones.
fn some_key(rng: &mut Rng) -> Pubkey {
    match rng.below(6) {
        0 => Pubkey::new_from_array([rng.below(256) as u8; 32]),
        1 => {
            let mut k = [0u8; 32];
            k[rng.below(32) as usize] = 1 + rng.below(255) as u8;
            Pubkey::new_from_array(k)
        }
        2 => Pubkey::new_from_array([255u8; 32]),
        _ => g9rt::key(1000 + rng.below(40)),
    }
}

struct Built {
    arena: Arena,
    buf: usize,
    accts: Vec<usize>,
    wallet: Pubkey,
    executor: Pubkey,
    bump: u8,
}

fn init_space(n: usize, dl: usize) -> usize {
    std::mem::size_of::<InstructionHeader>() + dl + n * 33
}

// ------------------------------------------------------------------ Ix: byte-level round trip
fn gen_ix(rng: &mut Rng) {
    let executor = g9rt::key(500 + rng.below(4));
    let (wallet, bump) = find_executor_wallet_pda(&executor, &gmsol_timelock::ID);
    let rent_receiver = some_key(rng);
    let program = some_key(rng);
    let dl = match rng.below(5) { 0 => 0, 1 => 1, 2 => 8, 3 => rng.below(40) as usize, _ => rng.below(120) as usize };
    let data: Vec<u8> = (0..dl).map(|_| match rng.below(4) { 0 => 0, 1 => 255, _ => rng.below(256) as u8 }).collect();
    let n = match rng.below(5) { 0 => 0, 1 => 1, _ => rng.below(9) as usize };
    let mut keys: Vec<(Pubkey, bool)> = vec![];
    for _ in 0..n {
        let k = if rng.chance(1, 3) { wallet } else if rng.chance(1, 5) && !keys.is_empty() { keys[rng.below(keys.len() as u64) as usize].0 } else { some_key(rng) };
        keys.push((k, rng.chance(1, 2)));
    }
    // signers: mostly indices of wallet accounts, sometimes wrong / out of range / duplicated
    let mut signers: Vec<u16> = vec![];
    for (i, (k, _)) in keys.iter().enumerate() {
        if *k == wallet && rng.chance(2, 3) {
            signers.push(i as u16);
        }
    }
    match rng.below(8) {
        0 if n > 0 => signers.push(rng.below(n as u64) as u16),
        1 => signers.push(n as u16 + rng.below(3) as u16),
        2 if !signers.is_empty() => signers.push(signers[0]),
        3 => signers.push(65535),
        _ => {}
    }
    if rng.chance(1, 2) {
        signers.reverse();
    }

    let mut ar = Arena::new();
    let mut rf = Refs::new();
    let buf_key = g9rt::key(700);
    let space = 8 + init_space(n, dl);
    let i_buf = ar.add(buf_key, gmsol_timelock::ID, 10_000_000, &vec![0u8; space], false, true, false);
    let mut infos: Vec<AccountInfo<'static>> = vec![];
    // the accounts' own transaction-level signer privilege is independent of the requested `signers` list
    // (e.g. the keeper lists itself in the buffered instruction); it must not leak into the stored flags
    let mut tx_signers = 0;
    for (k, w) in &keys {
        let tx_signer = rng.chance(1, 3);
        if tx_signer { tx_signers += 1; }
        let i = ar.add(*k, anchor_lang::system_program::ID, 0, &[], tx_signer, *w, false);
        infos.push(ar.info(i));
    }
    let _ = tx_signers;
    let loader: AccountLoader<'static, InstructionHeader> =
        AccountLoader::try_from_unchecked(&gmsol_timelock::ID, rf.r(ar.info(i_buf))).unwrap();
    let res = loader
        .load_and_init_instruction(executor, bump, rent_receiver, program, &data, &infos, &signers)
        .map(|ix| (ix.to_instruction(false).unwrap(), ix.to_instruction(true).unwrap()))
        .map_err(|e| code(&e));
    let head = format!(
        "Ix {} {} {bump} {} {} {} [{}] {} {}",
        bl(InstructionHeader::DISCRIMINATOR),
        kl(&executor),
        kl(&rent_receiver),
        kl(&program),
        bl(&data),
        keys.iter().map(|(k, w)| format!("({}, {})", kl(k), b(*w))).collect::<Vec<_>>().join("; "),
        zl(&signers),
        kl(&wallet)
    );
    match res {
        Err(e) => emit("ix/rejected", &format!("{head} (Err {e}) None")),
        Ok((ix_plain, ix_marked)) => {
            let bytes0 = ar.mems[i_buf].data().to_vec();
            // approve through the real header, then re-read everything
            let approver = g9rt::key(800 + rng.below(3));
            g9rt::set_clock(5, 1_700_000_000 + rng.below(1000) as i64);
            let ar_res = hk::header_approve(&mut loader.load_mut().unwrap(), approver).map_err(|e| code(&e));
            let bytes1 = ar.mems[i_buf].data().to_vec();
            let after = loader.load_instruction().unwrap();
            let ix_after = after.to_instruction(false).unwrap();
            let h = hk::instruction_ref_header(&after);
            let appr = format!(
                "(Some ({}, {}, {}, {}, {}, {}))",
                kl(&approver),
                g9rt::clock_ts(),
                match ar_res { Ok(()) => "(Ok tt)".to_string(), Err(e) => format!("(Err {e})") },
                bl(&bytes1),
                instr_term(&ix_after),
                format!("({}, {}, {})", b(h.is_approved()), oz(h.approved_at()), match h.apporver() { Some(k) => format!("(Some {})", kl(k)), None => "None".into() })
            );
            drop(after);
            let tag = if n == 0 && dl == 0 { "ix/trivial" } else if signers.is_empty() { "ix/ok_nosigner" } else { "ix/ok_signers" };
            emit(tag, &format!("{head} (Ok ({}, {}, {})) {appr}", bl(&bytes0), instr_term(&ix_plain), instr_term(&ix_marked)));
        }
    }
    drop(loader);
    drop(rf);
}

// ------------------------------------------------------------------ Hist (real entrypoints)
const EXEC_ROLES: [&str; 3] = ["ADMIN", "MARKET_KEEPER", "CONFIG_KEEPER"];

fn role_name(code: u64) -> String {
    match code {
        1 => roles::TIMELOCK_ADMIN.to_string(),
        2 => roles::TIMELOCK_KEEPER.to_string(),
        c => roles::timelocked_role(EXEC_ROLES[(c - 100) as usize]),
    }
}

/// Canonical code of a failed instruction.
fn pcode(e: &ProgramError) -> u32 {
    let c = g9prog::perr_code(e);
    let m = |x: CoreError| -> u32 { x.into() };
    let a = |x: anchor_lang::error::ErrorCode| -> u32 { x.into() };
    if c == m(CoreError::InvalidArgument) {
        1
    } else if c == m(CoreError::PreconditionsAreNotMet) {
        2
    } else if c == m(CoreError::PermissionDenied) {
        3
    } else if c == m(CoreError::Internal) {
        4
    } else if c == a(anchor_lang::error::ErrorCode::AccountOwnedByWrongProgram)
        || c == a(anchor_lang::error::ErrorCode::AccountNotInitialized)
        || c == a(anchor_lang::error::ErrorCode::AccountDiscriminatorNotFound)
    {
        5 // the buffer account is gone
    } else if (2000..3000).contains(&c) {
        6 // an Anchor account constraint (seeds / has_one / ...)
    } else {
        c
    }
}

struct Buf {
    open: bool,
    role: u64,
    ix: u64,
    idx: usize,  // arena index of the buffer account
    inner: usize, // arena index of the inner instruction's own account
    with_payer: bool, // the creator (a transaction signer) is itself an account of the buffered instruction
    creator: u64,
    wanted: Instruction,
    napprove: u64,
    // last observed header
    approved: bool,
    approver: u64,
    approved_at: i64,
}

fn pid(k: Option<&Pubkey>, people: &[(u64, Pubkey)]) -> u64 {
    match k {
        None => 0,
        Some(k) => people.iter().find(|(_, p)| p == k).map(|(i, _)| *i).unwrap_or(999),
    }
}

const TL: Pubkey = gmsol_timelock::ID;

fn tl_call(ar: &mut Arena, metas: &[g9prog::Meta], data: Vec<u8>) -> std::result::Result<(), ProgramError> {
    g9prog::call(gmsol_timelock::entry, &TL, ar, metas, &data)
}

fn gen_hist(rng: &mut Rng) {
    use anchor_lang::InstructionData;
    use gmsol_timelock::instruction as tix;
    let mut ar = Arena::new();
    let mut rf = Refs::new();
    g9rt::set_dispatcher(Some(g9prog::dispatcher(TL)));
    let _ = g9rt::take_invokes();
    let sys = anchor_lang::system_program::ID;
    let loader_id = g9rt::key(999);
    let store_key = g9rt::key(10);
    let i_store_prog = ar.add(gmsol_store::ID, loader_id, 1, &[], false, false, true);
    let i_sys = ar.add(sys, loader_id, 1, &[], false, false, true);
    let i_ixprog = ar.add(g9rt::key(1200), loader_id, 1, &[], false, false, true);
    // real store with all roles enabled
    let people: Vec<(u64, Pubkey)> = (1..=5u64).map(|i| (i, g9rt::key(900 + i))).collect();
    let key_of = |p: u64| people[(p - 1) as usize].1;
    let mut roles_init: Vec<(u64, u64)> = vec![(1, 1), (2, 2), (3, 100), (3, 101), (4, 102), (5, 100)];
    if rng.chance(1, 3) { roles_init.push((2, 100)); }
    let i_store = {
        let mut store: Box<Store> = g9mk::zeroed_box();
        store.init(g9rt::key(1), "", 255, g9rt::key(2), g9rt::key(3)).unwrap();
        for c in [1u64, 2, 100, 101, 102] {
            store.enable_role(&role_name(c)).unwrap();
        }
        for (p, r) in &roles_init {
            store.grant(&key_of(*p), &role_name(*r)).unwrap();
        }
        ar.add(store_key, gmsol_store::ID, 1_000_000_000, &g9rt::zero_copy_data(&*store), false, false, false)
    };
    let i_people: Vec<usize> = people.iter().map(|(_, k)| ar.add(*k, sys, 1_000_000_000_000, &[], false, false, false)).collect();
    let ip = |p: u64| i_people[(p - 1) as usize];
    // real config (the initialize_config handler also transfers the store authority; the account is
    // written by the real TimelockConfig::init instead)
    let delay0 = *rng.pick(&[0u32, 1, 1, 60, 60, 3600, 3600, 86400, u32::MAX - 5, u32::MAX]);
    let i_config = {
        let mut config: TimelockConfig = bytemuck::Zeroable::zeroed();
        hk::config_init(&mut config, 255, delay0, store_key);
        ar.add(g9rt::key(11), TL, 1_000_000, &g9rt::zero_copy_data(&config), false, false, false)
    };
    // executors: created by the REAL initialize_executor instruction
    let mut executors: Vec<(usize, usize, Pubkey, Pubkey)> = vec![]; // executor idx, wallet idx, executor key, wallet key
    for name in EXEC_ROLES.iter() {
        let seed = gmsol_store::utils::fixed_str::fixed_str_to_bytes::<{ gmsol_store::states::MAX_ROLE_NAME_LEN }>(name).unwrap();
        let (ek, _) = Pubkey::find_program_address(&[<Executor as gmsol_store::states::Seed>::SEED, store_key.as_ref(), &seed], &TL);
        let (wallet, _) = find_executor_wallet_pda(&ek, &TL);
        let i_e = ar.add(ek, sys, 0, &[], false, false, false);
        let i_w = ar.add(wallet, sys, 0, &[], false, false, false);
        tl_call(&mut ar, &[(ip(1), true, true), (i_store, false, false), (i_e, false, true), (i_w, false, false), (i_sys, false, false)],
            tix::InitializeExecutor { role: name.to_string() }.data()).expect("initialize_executor");
        assert_eq!(ar.mems[i_e].owner(), TL);
        executors.push((i_e, i_w, ek, wallet));
    }
    let _ = g9rt::take_invokes();
    let mut now: i64 = match rng.below(4) { 0 => 0, 1 => 1_700_000_000, 2 => i64::MAX - 100_000, _ => rng.below(1 << 40) as i64 };
    g9rt::set_clock(1, now);
    let mut bufs: Vec<Buf> = vec![];
    let mut nexec = 0u64;
    let mut next_ix = 1u64;
    let n_ops = rng.range(6, 22);
    let mut items: Vec<String> = vec![];
    let mut any_exec = false;
    let mut any_reject_time = false;
    let roles_term = format!("[{}]", roles_init.iter().map(|(p, r)| format!("({p}, {r})")).collect::<Vec<_>>().join("; "));
    let delay_of = |ar: &Arena| -> u32 { bytemuck::from_bytes::<TimelockConfig>(&ar.mems[i_config].data()[8..]).delay() };

    for _ in 0..n_ops {
        let live: Vec<usize> = (0..bufs.len()).filter(|i| bufs[*i].open).collect();
        let pick_id = |rng: &mut Rng| -> u64 {
            if !live.is_empty() && rng.chance(9, 10) { live[rng.below(live.len() as u64) as usize] as u64 } else { rng.below(bufs.len() as u64 + 1) }
        };
        let snap = |bufs: &mut Vec<Buf>, ar: &Arena, id: Option<u64>, now: i64, nexec: u64, rf: &mut Refs| -> String {
            let bt = match id.and_then(|i| bufs.get_mut(i as usize)) {
                None => "None".to_string(),
                Some(bf) => {
                    if bf.open {
                        // read the REAL header from the account
                        let loader: AccountLoader<'static, InstructionHeader> = AccountLoader::try_from(rf.r(ar.info(bf.idx))).unwrap();
                        let h = loader.load().unwrap();
                        bf.approved = h.is_approved();
                        bf.approver = pid(h.apporver(), &people);
                        bf.approved_at = h.approved_at().unwrap_or(0);
                    } else {
                        // closed for real: no lamports, no data, back to the system program
                        let m = &ar.mems[bf.idx];
                        assert!(m.lamports() == 0 && m.data_len() == 0 && m.owner() == sys);
                    }
                    format!("(Some (mkBuf {} {} {} {} {} {} {}))", b(bf.open), bf.role, bf.ix, b(bf.approved), bf.approver, z(bf.approved_at), bf.napprove)
                }
            };
            format!("Ok ({bt}, {}, {}, {nexec})", delay_of(ar), z(now))
        };
        let choice = if bufs.is_empty() { 0 } else { rng.below(22) };
        match choice {
            0..=2 => {
                let caller = if rng.chance(4, 5) { 2 } else { 1 + rng.below(5) };
                let role = rng.below(3);
                let ix = next_ix;
                let (i_e, i_w, ek, wallet) = executors[role as usize];
                // a small instruction whose content identifies `ix`
                let data = ix.to_le_bytes().to_vec();
                let i_inner = ar.add(g9rt::key(1100 + ix + 50 * bufs.len() as u64), sys, 0, &[], false, false, false);
                let i_buf = ar.add(g9rt::key(2000 + bufs.len() as u64 + 100 * ix), sys, 0, &[], false, false, false);
                // sometimes the creator lists itself (it signs this transaction) as an account of the buffered
                // instruction, without asking for it to be a signer there
                let with_payer = rng.chance(1, 2);
                let mut metas = vec![(ip(caller), true, true), (i_store, false, false), (i_e, false, false), (i_buf, true, true),
                    (i_ixprog, false, false), (i_store_prog, false, false), (i_sys, false, false),
                    (i_inner, false, true), (i_w, false, false)];
                if with_payer { metas.push((ip(caller), true, true)); }
                let r = tl_call(&mut ar, &metas, tix::CreateInstructionBuffer { num_accounts: metas.len() as u16 - 7, data_len: data.len() as u16, data: data.clone(), signers: vec![1] }.data());
                let _ = g9rt::take_invokes();
                let rs = match r {
                    Ok(()) => {
                        let loader: AccountLoader<'static, InstructionHeader> = AccountLoader::try_from(rf.r(ar.info(i_buf))).unwrap();
                        let wanted = loader.load_instruction().unwrap().to_instruction(false).unwrap();
                        // what was asked for, stated independently
                        let mut expect = Instruction { program_id: g9rt::key(1200), data,
                            accounts: vec![AccountMeta { pubkey: ar.mems[i_inner].key(), is_signer: false, is_writable: true },
                                           AccountMeta { pubkey: wallet, is_signer: true, is_writable: false }] };
                        if with_payer { expect.accounts.push(AccountMeta { pubkey: key_of(caller), is_signer: false, is_writable: true }); }
                        let stored_ok = wanted == expect;
                        if !stored_ok { eprintln!("c36: stored instruction differs from the requested one: {wanted:?} vs {expect:?}"); }
                        {
                            let h = loader.load().unwrap();
                            assert_eq!(*h.executor(), ek);
                            assert_eq!(*h.rent_receiver(), key_of(caller));
                        }
                        bufs.push(Buf { open: true, role, ix, idx: i_buf, inner: i_inner, with_payer, creator: caller, wanted: expect, napprove: 0, approved: false, approver: 0, approved_at: 0 });
                        next_ix += 1;
                        let id = bufs.len() as u64 - 1;
                        // code 98 (never produced by the model): the buffer does not hold the requested instruction
                        if stored_ok { snap(&mut bufs, &ar, Some(id), now, nexec, &mut rf) } else { "Err 98".to_string() }
                    }
                    Err(e) => format!("Err {}", pcode(&e)),
                };
                items.push(format!("(TCreate {caller} {role} {ix}, {rs})"));
            }
            3..=7 => {
                let id = pick_id(rng);
                let brole = bufs.get(id as usize).map(|x| x.role).unwrap_or(0);
                let role = if rng.chance(9, 10) { brole } else { rng.below(3) };
                let caller = match rng.below(6) { 0 | 1 | 2 => if role == 2 { 4 } else { 3 }, 3 => 5, _ => 1 + rng.below(5) };
                let r: std::result::Result<(), u32> = match bufs.get(id as usize) {
                    None => Err(5), // there is no such account
                    Some(bf) => {
                        let (i_e, _, _, _) = executors[bf.role as usize];
                        let metas = [(ip(caller), true, false), (i_store, false, false), (i_e, false, false), (bf.idx, false, true), (i_store_prog, false, false)];
                        if bf.open && role == bf.role {
                            // side checks (failed instructions leave no trace): the approver must sign, and an
                            // executor other than the buffer's own is refused
                            let mut m2 = metas;
                            m2[0].1 = false;
                            assert!(tl_call(&mut ar, &m2, tix::ApproveInstruction { role: EXEC_ROLES[role as usize].to_string() }.data()).is_err());
                            let other = (bf.role + 1) % 3;
                            let mut m3 = metas;
                            m3[2].0 = executors[other as usize].0;
                            assert!(tl_call(&mut ar, &m3, tix::ApproveInstruction { role: EXEC_ROLES[other as usize].to_string() }.data()).is_err());
                        }
                        tl_call(&mut ar, &metas, tix::ApproveInstruction { role: EXEC_ROLES[role as usize].to_string() }.data()).map_err(|e| pcode(&e))
                    }
                };
                let _ = g9rt::take_invokes();
                if r.is_ok() { bufs[id as usize].napprove += 1; }
                let rs = match r { Ok(()) => snap(&mut bufs, &ar, Some(id), now, nexec, &mut rf), Err(e) => format!("Err {e}") };
                items.push(format!("(TApprove {caller} {role} {id}, {rs})"));
            }
            8 => {
                let id = pick_id(rng);
                let caller = if rng.chance(3, 4) { 1 } else { 1 + rng.below(5) };
                let r: std::result::Result<(), u32> = match bufs.get(id as usize) {
                    None => Err(5),
                    Some(bf) => {
                        let (i_e, _, _, _) = executors[bf.role as usize];
                        let metas = [(ip(caller), true, false), (i_store, false, false), (i_e, false, false), (ip(bf.creator), false, true), (bf.idx, false, true), (i_store_prog, false, false)];
                        if bf.open {
                            // the rent goes back to the creator only
                            let mut m2 = metas;
                            m2[3].0 = ip(1 + bf.creator % 5);
                            assert!(tl_call(&mut ar, &m2, tix::CancelInstruction {}.data()).is_err());
                        }
                        let before = ar.mems[ip(bf.creator)].lamports() + ar.mems[bf.idx].lamports();
                        let r = tl_call(&mut ar, &metas, tix::CancelInstruction {}.data()).map_err(|e| pcode(&e));
                        if r.is_ok() { assert_eq!(ar.mems[ip(bf.creator)].lamports(), before); }
                        r
                    }
                };
                let _ = g9rt::take_invokes();
                if r.is_ok() { bufs[id as usize].open = false; }
                let rs = match r { Ok(()) => snap(&mut bufs, &ar, Some(id), now, nexec, &mut rf), Err(e) => format!("Err {e}") };
                items.push(format!("(TCancel {caller} {id}, {rs})"));
            }
            9..=13 => {
                let id = pick_id(rng);
                let caller = if rng.chance(5, 6) { 2 } else { 1 + rng.below(5) };
                let r: std::result::Result<(), u32> = match bufs.get(id as usize) {
                    None => Err(5),
                    Some(bf) => {
                        let (i_e, i_w, _, wallet) = executors[bf.role as usize];
                        // when the creator is an account of the buffered instruction and also sends this transaction,
                        // the runtime hands it over with its signer privilege
                        let payer_signs = bf.with_payer && bf.creator == caller;
                        let mut metas = vec![(ip(caller), true, false), (i_store, false, false), (i_config, false, false), (i_e, false, false), (i_w, false, true),
                            (ip(bf.creator), false, true), (bf.idx, false, true), (i_store_prog, false, false),
                            (bf.inner, false, true), (i_w, false, false), (i_ixprog, false, false)];
                        if bf.with_payer { metas.push((ip(bf.creator), payer_signs, true)); }
                        if bf.open {
                            // the wallet of another executor is refused
                            let mut m2 = metas.clone();
                            m2[4].0 = executors[((bf.role + 1) % 3) as usize].1;
                            assert!(tl_call(&mut ar, &m2, tix::ExecuteInstruction {}.data()).is_err());
                        }
                        let _ = g9rt::take_invokes();
                        let before = ar.mems[ip(bf.creator)].lamports() + ar.mems[bf.idx].lamports();
                        let r = tl_call(&mut ar, &metas, tix::ExecuteInstruction {}.data()).map_err(|e| pcode(&e));
                        let sent: Vec<Instruction> = g9rt::take_invokes().into_iter().filter(|i| i.program_id != gmsol_store::ID).collect();
                        match &r {
                            Ok(()) => {
                                assert_eq!(ar.mems[ip(bf.creator)].lamports(), before);
                                // exactly the requested instruction went out, signed by the executor wallet only;
                                // code 97 (never produced by the model) otherwise
                                if sent != vec![bf.wanted.clone()] || !sent[0].accounts.iter().all(|a| !a.is_signer || a.pubkey == wallet) {
                                    eprintln!("c36: executed {sent:?}, requested {:?}", bf.wanted);
                                    Err(97)
                                } else { r }
                            }
                            Err(_) => { assert!(sent.is_empty()); r }
                        }
                    }
                };
                if r == Err(2) && bufs[id as usize].approved { any_reject_time = true; }
                if r.is_ok() { bufs[id as usize].open = false; nexec += 1; any_exec = true; }
                let rs = match r { Ok(()) => snap(&mut bufs, &ar, Some(id), now, nexec, &mut rf), Err(e) => format!("Err {e}") };
                items.push(format!("(TExecute {caller} {id}, {rs})"));
            }
            14 => {
                let caller = if rng.chance(3, 4) { 1 } else { 1 + rng.below(5) };
                let delta = match rng.below(5) { 0 => 0u32, 1 => 1, 2 => 3600, 3 => u32::MAX, _ => rng.below(100_000) as u32 };
                let metas = [(ip(caller), true, true), (i_store, false, false), (i_config, false, true), (i_store_prog, false, false)];
                let r = tl_call(&mut ar, &metas, tix::IncreaseDelay { delta }.data()).map_err(|e| pcode(&e));
                let _ = g9rt::take_invokes();
                let rs = match r { Ok(()) => snap(&mut bufs, &ar, None, now, nexec, &mut rf), Err(e) => format!("Err {e}") };
                items.push(format!("(TIncreaseDelay {caller} {delta}, {rs})"));
            }
            15 | 16 => {
                // role changes are store instructions (C33); here the REAL role table inside the store account is edited
                let grant = choice == 15;
                let (p, rl) = if grant { (1 + rng.below(5), *rng.pick(&[1u64, 2, 100, 101, 102])) }
                              else { (if rng.chance(1, 2) { 3 } else { 1 + rng.below(5) }, *rng.pick(&[100u64, 101, 102, 100, 2])) };
                {
                    let store: &mut Store = bytemuck::from_bytes_mut(&mut ar.mems[i_store].data_mut()[8..]);
                    let _ = if grant { store.grant(&key_of(p), &role_name(rl)) } else { store.revoke(&key_of(p), &role_name(rl)) };
                }
                items.push(format!("({} {p} {rl}, {})", if grant { "TGrant" } else { "TRevoke" }, snap(&mut bufs, &ar, None, now, nexec, &mut rf)));
            }
            _ => {
                let d = delay_of(&ar) as i64;
                let dt: i64 = match rng.below(10) { 0 => 0, 1 => 1, 2 => d - 1, 3 | 4 | 5 => d, 6 | 7 => d + 1, 8 => rng.below(100_000) as i64, _ => d / 2 };
                let dt = dt.max(0);
                if now.checked_add(dt).is_some() {
                    now += dt;
                    g9rt::set_clock(1, now);
                    items.push(format!("(TTick {dt}, {})", snap(&mut bufs, &ar, None, now, nexec, &mut rf)));
                } else {
                    items.push(format!("(TTick {dt}, Err 1)"));
                }
            }
        }
    }
    g9rt::set_dispatcher(None);
    let tag = if any_exec { "hist/executed" } else if any_reject_time { "hist/too_early" } else { "hist/no_exec" };
    emit(tag, &format!("Hist {delay0} {roles_term} {} [{}]", z(now_start(&items, now)), items.join("; ")));
    drop(rf);
}

// the start time is needed by the model; recover it by subtracting all successful ticks
fn now_start(items: &[String], now_end: i64) -> i64 {
    let mut t = now_end;
    for it in items {
        if let Some(rest) = it.strip_prefix("(TTick ") {
            if !rest.contains("Err") {
                let dt: i64 = rest.split(',').next().unwrap().trim().parse().unwrap();
                t -= dt;
            }
        }
    }
    t
}

fn main() {
    let a = args();
    silence_panics();
    g9rt::install();
    assert_eq!(std::mem::size_of::<InstructionHeader>(), 224);
    let mut rng = Rng::new(a.seed);
    for i in 0..a.n {
        if i % 3 == 0 { gen_ix(&mut rng) } else { gen_hist(&mut rng) }
    }
}
