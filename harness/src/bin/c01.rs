//! C01 driver: fixed-point helpers of crates/model on u64/9 and u128/20.
use gmsol_model::num::{MulDiv, Unsigned};
use gmsol_model::fixed::{Fixed, FixedPointOps};
use gmsol_model::utils;
use gmsol_verif_harness::*;
use num_traits::CheckedMul as _;

fn tag(kind: &str, w: u32, ok: bool, trivial: bool) -> String {
    format!("{kind}{w}/{}", if trivial { "trivial" } else if ok { "ok" } else { "fail" })
}

macro_rules! gen_for {
    ($fname:ident, $U:ty, $S:ty, $W:expr, $DEC:expr) => {
        fn $fname(rng: &mut Rng, kind: u64) {
            let w: u32 = $W;
            let dec: u8 = $DEC;
            let unit: $U = <$U as FixedPointOps<$DEC>>::UNIT;
            let u = |r: &mut Rng| r.uint(w) as $U;
            let s = |r: &mut Rng| r.sint(w) as $S;
            // related operands: make products straddle the type limit / near-divisibility
            let rel = |r: &mut Rng, a: $U| -> $U {
                match r.below(6) {
                    0 if a != 0 => (<$U>::MAX / a).wrapping_add(r.below(3) as $U).wrapping_sub(1),
                    1 => a,
                    2 => a.wrapping_add(1),
                    3 => a.wrapping_sub(1),
                    _ => r.uint(w) as $U,
                }
            };
            match kind {
                0 => {
                    let a = u(rng); let b = rel(rng, a); let d = if rng.chance(1, 3) { rel(rng, a) } else { rel(rng, b) };
                    let r = a.checked_mul_div(&b, &d);
                    emit(&tag("mul_div", w, r.is_some(), a == 0 && b == 0), &format!("MulDiv {w} {} {} {} {}", z(a), z(b), z(d), oz(r)));
                }
                1 => {
                    let a = u(rng); let b = rel(rng, a); let d = if rng.chance(1, 3) { rel(rng, a) } else { rel(rng, b) };
                    let r = a.checked_mul_div_ceil(&b, &d);
                    emit(&tag("mul_div_ceil", w, r.is_some(), a == 0 && b == 0), &format!("MulDivCeil {w} {} {} {} {}", z(a), z(b), z(d), oz(r)));
                }
                2 => {
                    let a = u(rng); let n = s(rng); let d = rel(rng, a);
                    let r = a.checked_mul_div_with_signed_numerator(&n, &d);
                    emit(&tag("mul_div_signed", w, r.is_some(), a == 0), &format!("MulDivSigned {w} {} {} {} {}", z(a), z(n), z(d), oz(r)));
                }
                3 => {
                    let a = u(rng); let d = rel(rng, a);
                    let r = a.checked_round_up_div(&d);
                    emit(&tag("round_up_div", w, r.is_some(), false), &format!("RoundUpDiv {w} {} {} {}", z(a), z(d), oz(r)));
                }
                4 => {
                    let d = u(rng); let x = s(rng);
                    let r = d.as_divisor_to_round_up_magnitude_div(&x);
                    emit(&tag("round_up_mag_div", w, r.is_some(), false), &format!("RoundUpMagDiv {w} {} {} {}", z(d), z(x), oz(r)));
                }
                5 => {
                    let v = s(rng); let mn = u(rng); let mx = rel(rng, mn);
                    let r = <$U as Unsigned>::bound_magnitude(&v, &mn, &mx);
                    let rs = match &r {
                        Ok(q) => format!("(Ok {})", z(q)),
                        Err(gmsol_model::Error::InvalidArgument(_)) => "(Err 1)".to_string(),
                        Err(gmsol_model::Error::Convert) | Err(gmsol_model::Error::Computation(_)) => "(Err 2)".to_string(),
                        Err(_) => "(Err 99)".to_string(),
                    };
                    emit(&tag("bound_magnitude", w, r.is_ok(), false), &format!("BoundMag {w} {} {} {} {}", z(v), z(mn), z(mx), rs));
                }
                6 => {
                    let a = u(rng); let b = rel(rng, a);
                    let r = a.checked_signed_sub(b).ok();
                    emit(&tag("signed_sub", w, r.is_some(), false), &format!("SignedSub {w} {} {} {}", z(a), z(b), oz(r)));
                }
                7 => {
                    let a = u(rng); let x = s(rng);
                    let r = a.checked_add_with_signed(&x);
                    emit(&tag("add_signed", w, r.is_some(), false), &format!("AddSigned {w} {} {} {}", z(a), z(x), oz(r)));
                }
                8 => {
                    let a = u(rng); let x = s(rng);
                    let r = a.checked_sub_with_signed(&x);
                    emit(&tag("sub_signed", w, r.is_some(), false), &format!("SubSigned {w} {} {} {}", z(a), z(x), oz(r)));
                }
                9 => {
                    let a = u(rng); let x = if rng.chance(1, 2) { (rel(rng, a) as $S) } else { s(rng) };
                    let r = a.checked_mul_with_signed(&x);
                    emit(&tag("mul_signed", w, r.is_some(), a == 0), &format!("MulSigned {w} {} {} {}", z(a), z(x), oz(r)));
                }
                10 => {
                    let v = u(rng); let f = if rng.chance(1, 2) { rng.below(3) as $U * unit / 2 + rng.below(1000) as $U } else { rel(rng, v) };
                    let r = utils::apply_factor::<$U, $DEC>(&v, &f);
                    emit(&tag("apply_factor", w, r.is_some(), v == 0), &format!("ApplyFactor {w} {dec} {} {} {}", z(v), z(f), oz(r)));
                }
                11 => {
                    let v = u(rng); let d = rel(rng, v); let ru = rng.chance(1, 2);
                    let r = utils::div_to_factor::<$U, $DEC>(&v, &d, ru);
                    emit(&tag("div_to_factor", w, r.is_some(), v == 0), &format!("DivToFactor {w} {dec} {} {} {} {}", z(v), z(d), b(ru), oz(r)));
                }
                12 => {
                    let v = s(rng); let d = u(rng);
                    let r = utils::div_to_factor_signed::<$U, $DEC>(&v, &d);
                    emit(&tag("div_to_factor_signed", w, r.is_some(), v == 0), &format!("DivToFactorSigned {w} {dec} {} {} {}", z(v), z(d), oz(r)));
                }
                13 => {
                    // whole exponents 0..=6, bases around the unit and large
                    let n = rng.below(7) as $U;
                    let base: $U = match rng.below(5) {
                        0 => unit + rng.below(1_000_000) as $U,
                        1 => unit * (rng.below(2000) as $U) / 7,
                        2 => unit / (rng.below(50) as $U + 1),
                        3 => u(rng),
                        _ => (rng.below(1_000_000) as $U) * (unit / 1000),
                    };
                    let r = Fixed::<$U, $DEC>::from_inner(base).checked_pow(&Fixed::from_inner(n * unit)).map(|x| x.into_inner());
                    emit(&tag("pow_fixed", w, r.is_some(), n == 0), &format!("PowFixed {w} {dec} {} {} {}", z(base), z(n * unit), oz(r)));
                }
                14 => {
                    let n = rng.below(5) as $U;
                    let v: $U = match rng.below(4) { 0 => unit, 1 => unit - 1 - rng.below(1000) as $U, 2 => unit + 1 + rng.below(1_000_000_000) as $U, _ => (rng.below(1_000_000) as $U) * (unit / 100) };
                    let r = utils::apply_exponent_factor::<$U, $DEC>(v, n * unit);
                    emit(&tag("apply_exp_factor", w, r.is_some(), false), &format!("ApplyExpFactor {w} {dec} {} {} {}", z(v), z(n * unit), oz(r)));
                }
                15 => {
                    let n = rng.below(4) as $U;
                    let v: $U = match rng.below(4) { 0 => unit, 1 => unit - 1 - rng.below(1000) as $U, 2 => unit + 1 + rng.below(1_000_000_000) as $U, _ => (rng.below(1_000_000) as $U) * (unit / 100) };
                    let f = if rng.chance(1, 4) { u(rng) } else { rng.below(1_000_000) as $U * (unit / 1_000_000) };
                    let r = utils::apply_factors::<$U, $DEC>(v, f, n * unit);
                    let rs = match &r {
                        Ok(q) => format!("(Ok {})", z(q)),
                        Err(gmsol_model::Error::PowComputation) => "(Err 1)".to_string(),
                        Err(gmsol_model::Error::Overflow) => "(Err 2)".to_string(),
                        Err(_) => "(Err 99)".to_string(),
                    };
                    emit(&tag("apply_factors", w, r.is_ok(), false), &format!("ApplyFactors {w} {dec} {} {} {} {}", z(v), z(f), z(n * unit), rs));
                }
                16 => {
                    let usd = u(rng);
                    let (pool, supply) = match rng.below(4) { 0 => (0, 0), 1 => (u(rng), 0), 2 => (0, u(rng)), _ => { let p = u(rng); (p, rel(rng, p)) } };
                    let divisor = if rng.chance(1, 8) { 0 } else if rng.chance(1, 2) { 10u64.pow(rng.below(12) as u32) as $U } else { u(rng) };
                    let r = utils::usd_to_market_token_amount(usd, pool, supply, divisor);
                    emit(&tag("usd_to_mt", w, r.is_some(), false), &format!("UsdToMt {w} {} {} {} {} {}", z(usd), z(pool), z(supply), z(divisor), oz(r)));
                }
                _ => {
                    let amount = u(rng); let pool = rel(rng, amount); let supply = rel(rng, amount);
                    let r = utils::market_token_amount_to_usd(&amount, &pool, &supply);
                    emit(&tag("mt_to_usd", w, r.is_some(), amount == 0), &format!("MtToUsd {w} {} {} {} {}", z(amount), z(pool), z(supply), oz(r)));
                }
            }
        }
    };
}

gen_for!(gen64, u64, i64, 64, 9);
gen_for!(gen128, u128, i128, 128, 20);

fn main() {
    let a = args();
    let mut rng = Rng::new(a.seed);
    let _ = Fixed::<u64, 9>::ONE.checked_mul(&Fixed::ONE);
    for i in 0..a.n {
        let kind = (i as u64) % 18;
        if rng.chance(1, 2) { gen64(&mut rng, kind) } else { gen128(&mut rng, kind) }
    }
}
