//! C04 driver: histories of deposits / withdrawals / swaps (swap-heavy) over vmarket::TestMarket.
use gmsol_verif_harness::{args, mkdrv};

fn main() {
    let a = args();
    let mix = mkdrv::Mix { deposit: 20, withdraw: 10, swap: 55, set: 12, round_trip: 3, min_ops: 4, max_ops: 12, zero_fee_zero_impact: 80 };
    mkdrv::run(&mix, a.seed, a.n);
}
