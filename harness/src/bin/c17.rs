//! C17 driver: runs the REAL `Market::init` natively (zeroed account, stubbed Clock) for pure and
//! impure markets and prints every config value / flag / pool, plus the real values of the
//! `constants::DEFAULT_*` items (behavioural validation of the translator's constant folding).
use anchor_lang::prelude::Pubkey;
use gmsol_model::{Balance, Pool as _, PoolKind};
use gmsol_store::constants as k;
use gmsol_store::states::market::config::{MarketConfigFlag, MarketConfigKey};
use gmsol_store::states::Market;
use gmsol_verif_harness::*;

/// strum `snake_case` of a Debug-printed CamelCase variant name.
fn snake(camel: &str) -> String {
    let cs: Vec<char> = camel.chars().collect();
    let mut out = String::new();
    for (i, c) in cs.iter().enumerate() {
        if c.is_uppercase() {
            let prev = if i > 0 { Some(cs[i - 1]) } else { None };
            let next = cs.get(i + 1).copied();
            if let Some(p) = prev {
                if p.is_lowercase() || p.is_ascii_digit() || (p.is_uppercase() && next.map_or(false, |n| n.is_lowercase())) {
                    out.push('_');
                }
            }
            out.extend(c.to_lowercase());
        } else {
            out.push(*c);
        }
    }
    out
}

/// Coq string literal (explicit scope key: the case files do not open string_scope).
fn qs(x: &str) -> String {
    format!("\"{x}\"%string")
}

macro_rules! consts_int {
    ($($n:ident),* $(,)?) => { $( emit("const/int", &format!("ConstVal {} {}", qs(stringify!($n)), z(k::$n as u128))); )* };
}
macro_rules! consts_bool {
    ($($n:ident),* $(,)?) => { $( emit("const/bool", &format!("ConstBool {} {}", qs(stringify!($n)), b(k::$n))); )* };
}

fn emit_consts() {
    consts_int!(
        MARKET_USD_UNIT, MARKET_DECIMALS,
        DEFAULT_RECEIVER_FACTOR, DEFAULT_SWAP_IMPACT_EXPONENT, DEFAULT_SWAP_IMPACT_POSITIVE_FACTOR,
        DEFAULT_SWAP_IMPACT_NEGATIVE_FACTOR, DEFAULT_SWAP_FEE_FACTOR_FOR_POSITIVE_IMPACT,
        DEFAULT_SWAP_FEE_FACTOR_FOR_NEGATIVE_IMPACT, DEFAULT_MIN_POSITION_SIZE_USD, DEFAULT_MIN_COLLATERAL_VALUE,
        DEFAULT_MIN_COLLATERAL_FACTOR, DEFAULT_MIN_COLLATERAL_FACTOR_FOR_LIQUIDATION,
        DEFAULT_MIN_COLLATERAL_FACTOR_FOR_OPEN_INTEREST_FOR_LONG, DEFAULT_MIN_COLLATERAL_FACTOR_FOR_OPEN_INTEREST_FOR_SHORT,
        DEFAULT_MAX_POSITIVE_POSITION_IMPACT_FACTOR, DEFAULT_MAX_NEGATIVE_POSITION_IMPACT_FACTOR,
        DEFAULT_MAX_POSITION_IMPACT_FACTOR_FOR_LIQUIDATIONS, DEFAULT_POSITION_IMPACT_EXPONENT,
        DEFAULT_POSITION_IMPACT_POSITIVE_FACTOR, DEFAULT_POSITION_IMPACT_NEGATIVE_FACTOR,
        DEFAULT_ORDER_FEE_FACTOR_FOR_POSITIVE_IMPACT, DEFAULT_ORDER_FEE_FACTOR_FOR_NEGATIVE_IMPACT,
        DEFAULT_LIQUIDATION_FEE_FACTOR, DEFAULT_POSITION_IMPACT_DISTRIBUTE_FACTOR, DEFAULT_MIN_POSITION_IMPACT_POOL_AMOUNT,
        DEFAULT_BORROWING_FEE_FACTOR_FOR_LONG, DEFAULT_BORROWING_FEE_FACTOR_FOR_SHORT,
        DEFAULT_BORROWING_FEE_EXPONENT_FOR_LONG, DEFAULT_BORROWING_FEE_EXPONENT_FOR_SHORT,
        DEFAULT_BORROWING_FEE_OPTIMAL_USAGE_FACTOR_FOR_LONG, DEFAULT_BORROWING_FEE_OPTIMAL_USAGE_FACTOR_FOR_SHORT,
        DEFAULT_BORROWING_FEE_BASE_FACTOR_FOR_LONG, DEFAULT_BORROWING_FEE_BASE_FACTOR_FOR_SHORT,
        DEFAULT_BORROWING_FEE_ABOVE_OPTIMAL_USAGE_FACTOR_FOR_LONG, DEFAULT_BORROWING_FEE_ABOVE_OPTIMAL_USAGE_FACTOR_FOR_SHORT,
        DEFAULT_FUNDING_FEE_EXPONENT, DEFAULT_FUNDING_FEE_FACTOR, DEFAULT_FUNDING_FEE_MAX_FACTOR_PER_SECOND,
        DEFAULT_FUNDING_FEE_MIN_FACTOR_PER_SECOND, DEFAULT_FUNDING_FEE_INCREASE_FACTOR_PER_SECOND,
        DEFAULT_FUNDING_FEE_DECREASE_FACTOR_PER_SECOND, DEFAULT_FUNDING_FEE_THRESHOLD_FOR_STABLE_FUNDING,
        DEFAULT_FUNDING_FEE_THRESHOLD_FOR_DECREASE_FUNDING, DEFAULT_RESERVE_FACTOR, DEFAULT_OPEN_INTEREST_RESERVE_FACTOR,
        DEFAULT_MAX_PNL_FACTOR_FOR_LONG_DEPOSIT, DEFAULT_MAX_PNL_FACTOR_FOR_SHORT_DEPOSIT,
        DEFAULT_MAX_PNL_FACTOR_FOR_LONG_WITHDRAWAL, DEFAULT_MAX_PNL_FACTOR_FOR_SHORT_WITHDRAWAL,
        DEFAULT_MAX_PNL_FACTOR_FOR_LONG_TRADER, DEFAULT_MAX_PNL_FACTOR_FOR_SHORT_TRADER,
        DEFAULT_MAX_PNL_FACTOR_FOR_LONG_ADL, DEFAULT_MAX_PNL_FACTOR_FOR_SHORT_ADL,
        DEFAULT_MIN_PNL_FACTOR_AFTER_LONG_ADL, DEFAULT_MIN_PNL_FACTOR_AFTER_SHORT_ADL,
        DEFAULT_MAX_POOL_AMOUNT_FOR_LONG_TOKEN, DEFAULT_MAX_POOL_AMOUNT_FOR_SHORT_TOKEN,
        DEFAULT_MAX_POOL_VALUE_FOR_DEPOSIT_LONG_TOKEN, DEFAULT_MAX_POOL_VALUE_FOR_DEPOSIT_SHORT_TOKEN,
        DEFAULT_MAX_OPEN_INTEREST_FOR_LONG, DEFAULT_MAX_OPEN_INTEREST_FOR_SHORT, DEFAULT_MIN_TOKENS_FOR_FIRST_DEPOSIT,
    );
    consts_bool!(DEFAULT_SKIP_BORROWING_FEE_FOR_SMALLER_SIDE, DEFAULT_IGNORE_OPEN_INTEREST_FOR_USAGE_FACTOR);
}

fn rand_key(rng: &mut Rng) -> Pubkey {
    let mut a = [0u8; 32];
    for c in a.chunks_mut(8) {
        c.copy_from_slice(&rng.next().to_le_bytes());
    }
    Pubkey::new_from_array(a)
}

fn one_init(rng: &mut Rng, idx: usize) {
    // the first two runs are the canonical impure / pure markets; afterwards random
    let same = match idx { 0 => false, 1 => true, _ => rng.chance(1, 2) };
    let enabled = match idx { 0 | 1 => true, _ => rng.chance(3, 4) };
    let long = rand_key(rng);
    let short = if same { long } else { rand_key(rng) };
    let (store, mint, index) = (rand_key(rng), rand_key(rng), rand_key(rng));
    let bump = rng.below(256) as u8;
    let ts = match rng.below(4) { 0 => 0, 1 => i64::MAX, 2 => -(rng.below(1 << 40) as i64), _ => rng.below(1 << 40) as i64 };
    g7rt::set_now(ts);
    let name_len = rng.below(40) as usize;
    let name: String = (0..name_len).map(|i| (b'A' + ((i as u64 + rng.below(26)) % 26) as u8) as char).collect();

    let mut m: Box<Market> = Box::new(bytemuck::Zeroable::zeroed());
    let r = m.init(bump, store, &name, mint, index, long, short, enabled);
    let p = b(same);
    if r.is_err() {
        emit("init/failed", &format!("InitFailed {p}"));
        return;
    }
    emit(
        if same { "mkt/pure" } else { "mkt/impure" },
        &format!("MktFlags {p} {} {} {}", b(enabled), b(m.is_pure()), b(m.is_enabled())),
    );
    // every config key (by numeric discriminant, then by its strum name through the public string API)
    for d in 0..=u16::MAX {
        let Ok(key) = MarketConfigKey::try_from(d) else { continue };
        let name = key.to_string();
        let by_key = m.get_config_by_key(key).copied();
        let by_name = m.get_config(&name).ok().copied();
        if by_key != by_name {
            emit("cfg/by-name-mismatch", &format!("CfgNameMismatch {p} {}", qs(&name)));
        }
        emit(if same { "cfg/pure" } else { "cfg/impure" }, &format!("CfgDefault {p} {} {}", qs(&name), oz(by_key)));
    }
    for d in 0..=u8::MAX {
        let Ok(f) = MarketConfigFlag::try_from(d) else { continue };
        let name = f.to_string();
        let v = m.get_config_flag_by_key(f);
        if m.get_config_flag(&name).ok() != Some(v) {
            emit("flag/by-name-mismatch", &format!("CfgNameMismatch {p} {}", qs(&name)));
        }
        emit(if same { "flag/pure" } else { "flag/impure" }, &format!("FlagDefault {p} {} {}", qs(&name), b(v)));
    }
    for d in 0..=u8::MAX {
        let Ok(kind) = PoolKind::try_from(d) else { continue };
        let name = snake(&format!("{kind:?}"));
        match m.pool(kind) {
            None => emit("pool/missing", &format!("PoolDefault {p} {} false 0 0 0 0 0", qs(&name))),
            Some(pool) => {
                let raw = bytemuck::bytes_of(&pool);
                let byte = raw[0];
                let l = u128::from_le_bytes(raw[16..32].try_into().unwrap());
                let s = u128::from_le_bytes(raw[32..48].try_into().unwrap());
                // behavioural purity: +3 on the short side shows up as (2,1) in a pure pool, (0,3) otherwise
                let mut q = pool;
                q.apply_delta_to_short_amount(&3).expect("delta");
                let (bl, bs) = (q.long_amount().expect("long") - pool.long_amount().expect("long"), q.short_amount().expect("short") - pool.short_amount().expect("short"));
                emit(
                    if same { "pool/pure" } else { "pool/impure" },
                    &format!("PoolDefault {p} {} true {} {} {} {} {}", qs(&name), z(byte), z(l), z(s), z(bl), z(bs)),
                );
            }
        }
    }
}

fn main() {
    let a = args();
    let mut rng = Rng::new(a.seed);
    g7rt::install_stubs();
    emit_consts();
    for i in 0..a.n {
        one_init(&mut rng, i);
    }
}
