//! C22 driver: vault solvency.
//!
//! Real code driven (on real `Market` accounts through the real `RevertibleMarket`):
//!  * `ValidateMarketBalances::{validate_market_balances, validate_market_balance_for_the_given_token,
//!    validate_market_balances_excluding_the_given_token_amounts}`                                  (Val, Hist)
//!  * `Bank::{record_transferred_in_by_token, record_transferred_out_by_token}`, commit               (Hist)
//!  * the real pool mutators of the model traits (liquidity, swap impact, claimable fee, collateral sums)
//!  The SPL token movements (vault balances), the order of steps of the transfer operations and the body of
//!  `claim_fees_from_market` are re-stated in this driver (see notes/C22.md).
use anchor_lang::prelude::*;
use gmsol_model::{Balance, BalanceExt, Bank, BaseMarket, BaseMarketMutExt, PerpMarketMut, PoolExt, SwapMarketMut};
use gmsol_store::states::market::revertible::market::RevertibleMarket;
use gmsol_store::states::market::utils::ValidateMarketBalances;
use gmsol_store::CoreError;
use gmsol_verif_harness::g9mk::{token, Env};
use gmsol_verif_harness::g9rt;
use gmsol_verif_harness::*;

type RM = RevertibleMarket<'static, 'static>;

fn code(e: &anchor_lang::error::Error) -> u32 {
    let c = g9rt::err_code(e);
    let m = |x: CoreError| -> u32 { x.into() };
    if c == m(CoreError::InvalidArgument) { 3 }
    else if c == m(CoreError::Model) { 4 }
    else if c == m(CoreError::TokenAmountOverflow) { 9 }
    else { 1000 + c }
}
fn mcode(e: gmsol_model::Error) -> u32 {
    // what `ModelError::from(err).into()` turns a model error into
    match e {
        gmsol_model::Error::Solana(err) => code(&err),
        _ => 4,
    }
}

#[derive(Clone, Copy, PartialEq, Debug, Default)]
struct P { l: u128, s: u128 }
#[derive(Clone, Debug)]
struct Mk { id: u64, long: u64, short: u64, bl: u64, bs: u64, liq: P, imp: P, fee: P, cl: P, cs: P }
impl Mk {
    fn pure_(&self) -> bool { self.long == self.short }
    fn term(&self) -> String {
        let p = |x: &P| format!("(mkPool {} {})", x.l, x.s);
        format!("mkMarket {} {} {} {} {} {} {} {} {} {}", self.id, self.long, self.short, self.bl, self.bs,
            p(&self.liq), p(&self.imp), p(&self.fee), p(&self.cl), p(&self.cs))
    }
}

/// Move the pools of the real market from `cur` to `want` with the real mutators.
fn set_pools(m: &mut RM, pure_: bool, cur: &Mk, want: &Mk) -> std::result::Result<(), u32> {
    let d = |a: u128, b: u128| -> i128 { b as i128 - a as i128 };
    let sides: &[bool] = if pure_ { &[true] } else { &[true, false] };
    for &is_long in sides {
        let pick = |p: &P| if is_long { p.l } else { p.s };
        let x = d(pick(&cur.liq), pick(&want.liq));
        if x != 0 { m.apply_delta(is_long, &x).map_err(mcode)?; }
        let x = d(pick(&cur.imp), pick(&want.imp));
        if x != 0 { m.swap_impact_pool_mut().map_err(mcode)?.apply_delta_amount(is_long, &x).map_err(mcode)?; }
        let x = d(pick(&cur.fee), pick(&want.fee));
        if x != 0 { m.apply_delta_to_claimable_fee_pool(is_long, &x).map_err(mcode)?; }
        let x = d(pick(&cur.cl), pick(&want.cl));
        if x != 0 { m.collateral_sum_pool_mut(true).map_err(mcode)?.apply_delta_amount(is_long, &x).map_err(mcode)?; }
        let x = d(pick(&cur.cs), pick(&want.cs));
        if x != 0 { m.collateral_sum_pool_mut(false).map_err(mcode)?.apply_delta_amount(is_long, &x).map_err(mcode)?; }
    }
    Ok(())
}

/// Read the state of market `k` back from the committed account.
fn read_back(env: &mut Env, k: usize, tmpl: &Mk) -> Mk {
    use gmsol_model::PoolKind;
    let (bl, bs) = env.balances(k);
    let l = env.loader(k);
    let mk = l.load().unwrap();
    let rd = |kind: PoolKind| -> P {
        let p = mk.pool(kind).unwrap();
        let (a, b) = (p.long_amount().unwrap(), p.short_amount().unwrap());
        if tmpl.pure_() { P { l: a + b, s: 0 } } else { P { l: a, s: b } }
    };
    Mk { id: tmpl.id, long: tmpl.long, short: tmpl.short, bl, bs,
        liq: rd(PoolKind::Primary), imp: rd(PoolKind::SwapImpact), fee: rd(PoolKind::ClaimableFee),
        cl: rd(PoolKind::CollateralSumForLong), cs: rd(PoolKind::CollateralSumForShort) }
}

/// Run `f` on the real revertible market without committing; when it succeeds run it again and commit.
fn try_market<R>(env: &mut Env, k: usize, f: impl Fn(&mut RM) -> std::result::Result<R, u32>) -> std::result::Result<R, u32> {
    let loader = env.loader(k);
    let lref: &'static AccountLoader<'static, gmsol_store::states::Market> = unsafe { &*(&loader as *const _) };
    let ev = env.ev_info();
    let r = gmsol_store::verif_hooks_g9::with_revertible_market(lref, ev, 255, false, |m| f(m)).map_err(|e| code(&e))??;
    let _ = gmsol_store::verif_hooks_g9::with_revertible_market(lref, ev, 255, true, |m| f(m)).map_err(|e| code(&e))??;
    drop(loader);
    Ok(r)
}
/// Run `f` without ever committing.
fn probe_market<R>(env: &mut Env, k: usize, f: impl Fn(&mut RM) -> R) -> R {
    let loader = env.loader(k);
    let lref: &'static AccountLoader<'static, gmsol_store::states::Market> = unsafe { &*(&loader as *const _) };
    let ev = env.ev_info();
    let r = gmsol_store::verif_hooks_g9::with_revertible_market(lref, ev, 255, false, |m| f(m)).unwrap();
    drop(loader);
    r
}

fn rs(r: &std::result::Result<(), u32>) -> String {
    match r { Ok(()) => "(Ok tt)".into(), Err(e) => format!("(Err {e})") }
}

fn rand_pool(rng: &mut Rng, pure_: bool, scale: u128) -> P {
    let v = |rng: &mut Rng| -> u128 { match rng.below(5) { 0 => 0, 1 => rng.below(10) as u128, _ => rng.below(1_000_000) as u128 * scale / 1_000_000 } };
    P { l: v(rng), s: if pure_ { 0 } else { v(rng) } }
}

// ------------------------------------------------------------------ Val
fn gen_val(rng: &mut Rng) {
    let (long, short) = *rng.pick(&[(0u64, 1u64), (0, 1), (1, 2), (0, 0)]);
    let pure_ = long == short;
    let mut env = Env::new();
    let k = env.add_market(0, 3, long, short, None, true);
    let scale = *rng.pick(&[1_000u128, 1_000_000_000, 1_000_000_000_000]);
    let want = Mk { id: 0, long, short, bl: 0, bs: 0, liq: rand_pool(rng, pure_, scale), imp: rand_pool(rng, pure_, scale / 10 + 1),
        fee: rand_pool(rng, pure_, scale / 10 + 1), cl: rand_pool(rng, pure_, scale), cs: rand_pool(rng, pure_, scale) };
    // balances around the two thresholds
    let need = |is_long: bool| -> u128 {
        let g = |p: &P| if pure_ { p.l } else if is_long { p.l } else { p.s };
        (g(&want.liq) + g(&want.imp) + g(&want.fee)).max(g(&want.cl) + g(&want.cs))
    };
    let around = |rng: &mut Rng, n: u128| -> u64 { (match rng.below(6) { 0 => n, 1 => n.saturating_sub(1), 2 => n + 1, 3 => n + rng.below(1000) as u128, 4 => n / 2, _ => n + rng.below(1_000_000_000) as u128 }).min(u64::MAX as u128) as u64 };
    let bl = around(rng, need(true));
    let bs = if pure_ { 0 } else { around(rng, need(false)) };
    let zero = Mk { id: 0, long, short, bl: 0, bs: 0, liq: P::default(), imp: P::default(), fee: P::default(), cl: P::default(), cs: P::default() };
    try_market(&mut env, k, |m| {
        set_pools(m, pure_, &zero, &want)?;
        if bl != 0 { m.record_transferred_in_by_token(&token(long), &bl).map_err(mcode)?; }
        if bs != 0 { m.record_transferred_in_by_token(&token(short), &bs).map_err(mcode)?; }
        Ok(())
    }).unwrap();
    let st = read_back(&mut env, k, &Mk { bl, bs, ..want.clone() });
    assert_eq!((st.liq, st.imp, st.fee, st.cl, st.cs, st.bl, st.bs), (want.liq, want.imp, want.fee, want.cl, want.cs, bl, bs));
    let slack = |rng: &mut Rng, b: u64, n: u128| -> u64 { let d = (b as u128).saturating_sub(n) as u64; match rng.below(6) { 0 => 0, 1 => d, 2 => d.saturating_add(1), 3 => d.saturating_sub(1), 4 => b.saturating_add(1), _ => rng.below(d + 2) } };
    let ex_l = slack(rng, bl, need(true));
    let ex_s = if pure_ { slack(rng, bl, need(true)) / 2 } else { slack(rng, bs, need(false)) };
    let tk = match rng.below(8) { 0 => 2u64.max(3), 1 | 2 | 3 => short, _ => long };
    let tk = if rng.chance(1, 10) { 3 } else { tk };
    let ex = match tk { t if t == long => slack(rng, bl, need(true)), t if t == short => slack(rng, bs, need(false)), _ => 0 };
    let (t1, t2) = match rng.below(5) { 0 => (long, long), 1 => (short, short), 2 => (short, long), 3 => (3, long), _ => (long, short) };
    let (a1, a2) = (if rng.chance(1, 4) { 0 } else { slack(rng, bl, need(true)) / 2 }, if rng.chance(1, 4) { 0 } else { slack(rng, if pure_ { bl } else { bs }, need(pure_)) / 2 });
    let (r1, r2, r3) = probe_market(&mut env, k, |m| {
        let r1 = m.validate_market_balances(ex_l, ex_s).map_err(|e| code(&e));
        let r2 = m.validate_market_balance_for_the_given_token(&token(tk), ex).map_err(mcode);
        let r3 = m.validate_market_balances_excluding_the_given_token_amounts(&token(t1), &token(t2), a1, a2).map_err(|e| code(&e));
        (r1, r2, r3)
    });
    let okc = [r1.is_ok(), r2.is_ok(), r3.is_ok()].iter().filter(|x| **x).count();
    emit(&format!("val/{}ok{}", if pure_ { "pure_" } else { "" }, okc),
        &format!("Val ({}) {ex_l} {ex_s} {} {tk} {ex} {} {t1} {t2} {a1} {a2} {}", st.term(), rs(&r1), rs(&r2), rs(&r3)));
}

// ------------------------------------------------------------------ Hist
const UNI: [(u64, u64); 4] = [(0, 1), (0, 1), (1, 2), (0, 0)];

fn world_term(ms: &[Mk], vaults: &[u128; 4]) -> String {
    format!("([{}], [{}])", ms.iter().map(|m| m.term()).collect::<Vec<_>>().join("; "),
        vaults.iter().enumerate().map(|(t, v)| format!("({t}, {v})")).collect::<Vec<_>>().join("; "))
}

fn gen_hist(rng: &mut Rng) {
    let mut env = Env::new();
    let mut ms: Vec<Mk> = vec![];
    let mut vaults = [0u128; 4];
    for (id, (l, s)) in UNI.iter().enumerate() {
        env.add_market(id as u64, 3, *l, *s, None, true);
        ms.push(Mk { id: id as u64, long: *l, short: *s, bl: 0, bs: 0, liq: P::default(), imp: P::default(), fee: P::default(), cl: P::default(), cs: P::default() });
    }
    let w0 = world_term(&ms, &vaults);
    let n = rng.range(6, 16);
    let mut items: Vec<String> = vec![];
    let mut n_ok = 0;
    for step in 0..n {
        let k = rng.below(4) as usize;
        let pure_ = ms[k].pure_();
        let choice = if step < 3 { 0 } else { rng.below(12) };
        let before = ms.clone();
        let (op, r): (String, std::result::Result<(), u32>) = match choice {
            0 | 1 | 2 => {
                let tok = if rng.chance(1, 15) { 3 } else if rng.chance(1, 2) { ms[k].long } else { ms[k].short };
                let a = match rng.below(6) { 0 => 0, 1 => u64::MAX, _ => 1_000 + rng.below(2_000_000_000) };
                let r = try_market(&mut env, k, |m| m.record_transferred_in_by_token(&token(tok), &a).map_err(mcode));
                if r.is_ok() { vaults[tok as usize] += a as u128; }
                (format!("TransferIn {k} {tok} {a}"), r)
            }
            3 => {
                let tok = if rng.chance(1, 2) { ms[k].long } else { ms[k].short };
                let a = rng.below(1_000_000);
                let r = try_market(&mut env, k, |m| { m.record_transferred_in_by_token(&token(tok), &a).map_err(mcode)?; m.record_transferred_out_by_token(&token(tok), &a).map_err(mcode) });
                (format!("InThenOut {k} {tok} {a}"), r)
            }
            4 | 5 => {
                let to = rng.below(4) as usize;
                let tok = if rng.chance(1, 2) { ms[k].long } else { ms[k].short };
                let bal = if tok == ms[k].long || pure_ { ms[k].bl } else { ms[k].bs };
                let a = match rng.below(5) { 0 => bal, 1 => bal / 2, 2 => bal.saturating_add(1), _ => rng.below(bal / 4 + 2) };
                let full = rng.chance(2, 3);
                let r: std::result::Result<(), u32> = (|| {
                    if k == to { return Err(3); }
                    // evaluate both halves without committing, then commit both
                    let f_from = |m: &mut RM| -> std::result::Result<(), u32> {
                        m.record_transferred_out_by_token(&token(tok), &a).map_err(mcode)?;
                        if full { m.validate_market_balances(0, 0).map_err(|e| code(&e)) } else { m.validate_market_balance_for_the_given_token(&token(tok), 0).map_err(mcode) }
                    };
                    let f_to = |m: &mut RM| -> std::result::Result<(), u32> { m.record_transferred_in_by_token(&token(tok), &a).map_err(mcode) };
                    probe_market(&mut env, k, |m| f_from(m))?;
                    probe_market(&mut env, to, |m| f_to(m))?;
                    try_market(&mut env, k, f_from)?;
                    try_market(&mut env, to, f_to)
                })();
                (format!("Move {k} {to} {tok} {a} {}", b(full)), r)
            }
            6 => {
                let tok = rng.below(4);
                let a = rng.below(1_000_000_000);
                vaults[tok as usize] += a as u128;
                (format!("Donate {tok} {a}"), Ok(()))
            }
            7 | 8 | 9 | 10 => {
                // a revertible operation: new pool amounts sized against the current balances
                let cur = ms[k].clone();
                let budget = |is_long: bool| -> u128 { (if is_long || pure_ { cur.bl } else { cur.bs }) as u128 };
                let mk_side = |rng: &mut Rng, is_long: bool| -> (u128, u128, u128, u128, u128, u64) {
                    let bud = budget(is_long);
                    let out = match rng.below(5) { 0 => 0, 1 => bud / 10, _ => rng.below((bud / 4 + 1) as u64) as u128 };
                    let room = bud - out.min(bud);
                    let tight = rng.below(6);
                    let total = match tight { 0 => room, 1 => room + 1, 2 => room.saturating_sub(1), _ => room * (rng.below(100) as u128) / 100 };
                    let imp = total / 20; let fee = total / 30; let liq = total - imp - fee;
                    let ctot = match rng.below(6) { 0 => room, 1 => room + 1, _ => room * (rng.below(100) as u128) / 100 };
                    let cl = ctot / 3; let cs = ctot - cl;
                    (liq, imp, fee, cl, cs, out as u64)
                };
                let (ll, il, fl, cll, csl, out_l) = mk_side(rng, true);
                let (ls, is_, fs, cls, css, out_s) = if pure_ { (0, 0, 0, 0, 0, rng.below((out_l / 2 + 1) as u64)) } else { mk_side(rng, false) };
                let want = Mk { liq: P { l: ll, s: ls }, imp: P { l: il, s: is_ }, fee: P { l: fl, s: fs }, cl: P { l: cll, s: cls }, cs: P { l: csl, s: css }, ..cur.clone() };
                let (lt, st_) = (cur.long, cur.short);
                let r: std::result::Result<(), u32> = (|| {
                    let f = |m: &mut RM| -> std::result::Result<(), u32> {
                        set_pools(m, pure_, &cur, &want)?;
                        m.validate_market_balances(out_l, out_s).map_err(|e| code(&e))?;
                        m.record_transferred_out_by_token(&token(lt), &out_l).map_err(mcode)?;
                        m.record_transferred_out_by_token(&token(st_), &out_s).map_err(mcode)
                    };
                    probe_market(&mut env, k, |m| f(m))?;
                    // vault checks (SPL transfers) before anything is committed
                    let mut v = vaults;
                    v[lt as usize] = v[lt as usize].checked_sub(out_l as u128).ok_or(20u32)?;
                    v[st_ as usize] = v[st_ as usize].checked_sub(out_s as u128).ok_or(20u32)?;
                    try_market(&mut env, k, f)?;
                    vaults = v;
                    Ok(())
                })();
                let p = |x: &P| format!("(mkPool {} {})", x.l, x.s);
                (format!("Operate {k} {} {} {} {} {} {out_l} {out_s}", p(&want.liq), p(&want.imp), p(&want.fee), p(&want.cl), p(&want.cs)), r)
            }
            _ => {
                // claim_fees_from_market (body re-stated from instructions/market.rs)
                let tok = if rng.chance(1, 12) { 3 } else if rng.chance(1, 2) { ms[k].long } else { ms[k].short };
                let r: std::result::Result<(), u32> = (|| {
                    let side = if tok == ms[k].long { Some(true) } else if tok == ms[k].short { Some(false) } else { None };
                    let is_long = side.ok_or(3u32)?;
                    let f = |m: &mut RM| -> std::result::Result<u64, u32> {
                        let pool = m.claimable_fee_pool().map_err(mcode)?;
                        let a1: u64 = pool.amount(is_long).map_err(mcode)?.min(u64::MAX as u128) as u64;
                        let a2: u64 = if pure_ { pool.amount(!is_long).map_err(mcode)?.min(u64::MAX as u128) as u64 } else { 0 };
                        let amount = a1.checked_add(a2).ok_or(9u32)?;
                        if a1 != 0 { m.apply_delta_to_claimable_fee_pool(is_long, &-(a1 as i128)).map_err(mcode)?; }
                        if a2 != 0 { m.apply_delta_to_claimable_fee_pool(!is_long, &-(a2 as i128)).map_err(mcode)?; }
                        m.validate_market_balance_for_the_given_token(&token(tok), amount).map_err(mcode)?;
                        m.record_transferred_out_by_token(&token(tok), &amount).map_err(mcode)?;
                        Ok(amount)
                    };
                    let amount = probe_market(&mut env, k, |m| f(m))?;
                    let nv = vaults[tok as usize].checked_sub(amount as u128).ok_or(20u32)?;
                    try_market(&mut env, k, f)?;
                    vaults[tok as usize] = nv;
                    Ok(())
                })();
                (format!("ClaimFees {k} {tok}"), r)
            }
        };
        // read every market back from its committed account
        for i in 0..4 { let t = ms[i].clone(); ms[i] = read_back(&mut env, i, &t); }
        if r.is_err() { assert_eq!(format!("{:?}", before), format!("{:?}", ms), "a failed operation changed committed state"); } else { n_ok += 1; }
        let rs_ = match r { Ok(()) => format!("Ok {}", world_term(&ms, &vaults)), Err(e) => format!("Err {e}") };
        items.push(format!("({op}, {rs_})"));
    }
    emit(if n_ok * 2 >= n { "hist/mostly_ok" } else { "hist/mostly_rejected" }, &format!("Hist {w0} [{}]", items.join("; ")));
}

// ------------------------------------------------------------------ SwapVault: the real SwapMarkets::revertible_swap
const TOKS: [(u64, u64, u64); 8] = [(9, 0, 1), (9, 1, 2), (8, 2, 3), (8, 0, 2), (9, 3, 1), (8, 2, 2), (9, 1, 0), (9, 3, 0)];

fn gen_swap_vault(rng: &mut Rng) {
    use gmsol_store::states::common::swap::SwapActionParams;
    use gmsol_store::states::Market;
    use gmsol_store::verif_hooks_g9 as hk;
    use gmsol_verif_harness::g9mk::market_token;
    let mut env = Env::new();
    for t in [0u64, 1, 2, 3, 8, 9] {
        let v = 1_000_000 + (t as u32) * 37_000;
        env.set_price(t, v, v + (t as u32 % 3) * 500, 8);
    }
    for (id, (ix, l, s)) in TOKS.iter().enumerate() { env.add_market(id as u64, *ix, *l, *s, None, true); }
    let mut vaults = [0u128; 4];
    for k in 0..8usize {
        let (_, l, s) = TOKS[k];
        let bal = 2_000_000_000_000 + rng.below(1_000_000_000_000);
        env.fund(k, 1_000_000_000_000, 1_000_000_000_000, bal, bal);
        vaults[l as usize] += bal as u128;
        if l != s { vaults[s as usize] += bal as u128; }
    }
    if rng.chance(1, 3) { vaults[rng.below(4) as usize] += rng.below(1_000_000) as u128; } // a donation
    let cur = *rng.pick(&[0u64, 1, 2, 3, 4, 6, 7]);
    let (_, cl, cs) = TOKS[cur as usize];
    let chain = |rng: &mut Rng, start: u64, len: usize, avoid: &[u64]| -> (Vec<u64>, u64) {
        let mut tok = start;
        let mut path: Vec<u64> = vec![];
        for _ in 0..len {
            let cands: Vec<u64> = (0..8).filter(|m| { let (_, l, s) = TOKS[*m as usize]; l != s && (l == tok || s == tok) && !path.contains(m) && !avoid.contains(m) }).collect();
            if cands.is_empty() { break; }
            let m = cands[rng.below(cands.len() as u64) as usize];
            let (_, l, s) = TOKS[m as usize];
            path.push(m);
            tok = if tok == l { s } else { l };
        }
        (path, tok)
    };
    let is_into = rng.chance(3, 5);
    // Into: the path ends in the current market (tokens are handed over from the last other market) most of the time
    let (p1, tin, tout, first_holder): (Vec<u64>, u64, u64, u64) = if is_into {
        if rng.chance(3, 4) {
            let n = 1 + rng.below(2) as usize;
            let (p, end) = chain(rng, cs, n, &[cur]);
            let mut path: Vec<u64> = p.iter().rev().cloned().collect();
            path.push(cur);
            let first = path[0];
            (path, end, cl, first)
        } else {
            let n = 1 + rng.below(3) as usize;
            let (p, end) = chain(rng, cl, n, &[cur]);
            let path: Vec<u64> = p.iter().rev().cloned().collect();
            let first = *path.first().unwrap_or(&cur);
            (path, end, cl, first)
        }
    } else {
        let n = 1 + rng.below(3) as usize;
        let (p, end) = chain(rng, cl, n, &[]);
        (p, cl, end, cur)
    };
    let a1 = match rng.below(6) { 0 => 1_000, _ => 1_000_000 + rng.below(2_000_000_000) };
    // the real transfer-in of the swapped tokens: into the current market (From) or the first market of the path (Into)
    env.with_market(first_holder as usize, |m| m.record_transferred_in_by_token(&token(tin), &a1).unwrap());
    vaults[tin as usize] += a1 as u128;
    let snap5 = |env: &mut Env| -> Vec<String> { (0..8usize).map(|k| { let (bl, bs) = env.balances(k); let (_, l, s) = TOKS[k]; format!("({k}, {l}, {s}, {bl}, {bs})") }).collect() };
    let ms0 = snap5(&mut env);
    let mut params = SwapActionParams::default();
    params.primary_length = p1.len() as u8;
    for (i, m) in p1.iter().enumerate() { params.paths[i] = market_token(*m); }
    params.current_market_token = market_token(cur);
    let mut lids: Vec<u64> = vec![];
    for m in p1.iter() { if *m != cur && !lids.contains(m) { lids.push(*m); } }
    let loaders: Vec<AccountLoader<'static, Market>> = lids.iter().map(|m| env.loader(*m as usize)).collect();
    let loaders_ref: &'static [AccountLoader<'static, Market>] = unsafe { &*(loaders.as_slice() as *const _) };
    let cur_loader = env.loader(cur as usize);
    let cur_ref: &'static AccountLoader<'static, Market> = unsafe { &*(&cur_loader as *const _) };
    let ev = env.ev_info();
    let store = env.store;
    let oracle_ref: &'static gmsol_store::states::Oracle = unsafe { &*(&*env.oracle as *const _) };
    let res = std::panic::catch_unwind(std::panic::AssertUnwindSafe(move || hk::run_revertible_swap(
        &store, cur_ref, loaders_ref, is_into, oracle_ref, &params,
        (token(tout), token(cs)), (Some(token(tin)), Some(token(cs))), (a1, 0),
        ev, 255, true, |r, _m, _s| match r { Ok(x) => Ok(*x), Err(e) => Err(code(e)) },
    ))).ok();
    let _ = g9rt::take_invokes();
    let ok = matches!(res, Some(Ok(Ok(_))));
    drop(loaders);
    drop(cur_loader);
    let ms1 = snap5(&mut env);
    let ends_in_cur = is_into && p1.last() == Some(&cur) && p1.len() >= 2;
    let tag = if !ok { "swapvault/rejected" } else if ends_in_cur { "swapvault/into_ends_in_current" } else if is_into { "swapvault/into" } else { "swapvault/from" };
    emit(tag, &format!("SwapVault [{}] [{}] [{}] {}", ms0.join("; "),
        vaults.iter().enumerate().map(|(t, v)| format!("({t}, {v})")).collect::<Vec<_>>().join("; "), ms1.join("; "), b(ok)));
}

fn main() {
    let a = args();
    if std::env::var("G9_PANIC").is_err() { silence_panics(); }
    g9rt::install();
    g9rt::set_clock(10, 1_700_000_000);
    let mut rng = Rng::new(a.seed);
    for i in 0..a.n {
        if i % 4 == 0 { gen_val(&mut rng) } else if i % 4 == 1 { gen_swap_vault(&mut rng) } else { gen_hist(&mut rng) }
    }
}
