//! C33 driver: referral instructions through the REAL Anchor entrypoint `gmsol_store::entry`
//! (prepare_user, initialize_referral_code, set_referrer, transfer_referral_code,
//! cancel_referral_code_transfer, accept_referral_code) in the g6 mini runtime, i.e. with the real
//! `#[account(...)]` constraint code.  After every instruction all user and code accounts are
//! decoded and printed.  `Dir` cases call the state functions directly (thin wrappers) on
//! arbitrary zeroed structs.
use anchor_lang::prelude::Pubkey;
use anchor_lang::solana_program::system_program;
use anchor_lang::{Discriminator, InstructionData};
use bytemuck::Zeroable;
use gmsol_store::states::user::{verif_hooks_g6 as uh, ReferralCodeV2};
use gmsol_store::states::{Seed, Store, UserHeader};
use gmsol_verif_harness::g6rt::{self, emit, m, Acct};
use gmsol_verif_harness::*;

fn owner_key(k: u64) -> Pubkey {
    let mut b = [0u8; 32];
    b[..8].copy_from_slice(&k.to_le_bytes());
    b[31] = 0x33;
    Pubkey::new_from_array(b)
}

fn class(c: u64) -> u64 {
    // program errors are matched by name below; Anchor framework errors by number
    match c {
        3012 | 3007 | 3001 | 3002 | 3003 | 3005 => 1,
        2006 | 2001 | 2003 => 11,
        _ => 100_000 + c,
    }
}
fn core_class(name: &str) -> Option<u64> {
    Some(match name {
        "InvalidArgument" => 3,
        "ReferralCodeHasBeenSet" => 4,
        "OwnerMismatched" => 5,
        "ReferralCodeMismatched" => 6,
        "SelfReferral" => 7,
        "MutualReferral" => 8,
        "ReferrerHasBeenSet" => 9,
        "PreconditionsAreNotMet" => 10,
        "InvalidUserAccount" => 12,
        _ => return None,
    })
}

fn core_class_by_code(code: u32) -> Option<u64> {
    use gmsol_store::CoreError as E;
    let table: [(u32, u64); 9] = [
        (E::InvalidArgument.into(), 3),
        (E::ReferralCodeHasBeenSet.into(), 4),
        (E::OwnerMismatched.into(), 5),
        (E::ReferralCodeMismatched.into(), 6),
        (E::SelfReferral.into(), 7),
        (E::MutualReferral.into(), 8),
        (E::ReferrerHasBeenSet.into(), 9),
        (E::PreconditionsAreNotMet.into(), 10),
        (E::InvalidUserAccount.into(), 12),
    ];
    table.iter().find(|(c, _)| *c == code).map(|(_, k)| *k)
}

struct World {
    store: Vec<Acct>,
    owners: Vec<u64>,
    codes: Vec<u64>,
    store_key: Pubkey,
}
const A_STORE: usize = 0;
const A_SYS: usize = 1;
const A_BASE: usize = 2;

impl World {
    fn owner_idx(&self, o: u64) -> usize { A_BASE + 2 * self.owners.iter().position(|x| *x == o).unwrap() }
    fn user_idx(&self, o: u64) -> usize { self.owner_idx(o) + 1 }
    fn code_idx(&self, c: u64) -> usize { A_BASE + 2 * self.owners.len() + self.codes.iter().position(|x| *x == c).unwrap() }
    fn user(&self, o: u64) -> Option<UserHeader> {
        let a = &self.store[self.user_idx(o)];
        if a.len == 0 || a.owner != gmsol_store::ID { return None; }
        Some(*bytemuck::from_bytes::<UserHeader>(&a.data()[8..8 + std::mem::size_of::<UserHeader>()]))
    }
    fn code(&self, c: u64) -> Option<ReferralCodeV2> {
        let a = &self.store[self.code_idx(c)];
        if a.len == 0 || a.owner != gmsol_store::ID { return None; }
        Some(*bytemuck::from_bytes::<ReferralCodeV2>(&a.data()[8..8 + std::mem::size_of::<ReferralCodeV2>()]))
    }
    fn owner_id(&self, k: &Pubkey) -> i64 {
        if *k == Pubkey::default() { return 0; }
        for o in &self.owners { if owner_key(*o) == *k { return *o as i64; } }
        -1
    }
    fn code_id(&self, k: &Pubkey) -> i64 {
        if *k == Pubkey::default() { return 0; }
        for c in &self.codes { if self.store[self.code_idx(*c)].key() == *k { return *c as i64; } }
        -1
    }
    fn snapshot(&self) -> String {
        let mut us = vec![];
        for o in &self.owners {
            if let Some(u) = self.user(*o) {
                assert!(u.is_initialized() && uh::owner(&u) == owner_key(*o) && uh::store(&u) == self.store_key);
                us.push(format!("(U {} {} {} {})", o, z(self.owner_id(&uh::referrer_raw(&u))), z(self.code_id(&uh::code_raw(&u))), z(uh::referee_count(&u))));
            }
        }
        let mut cs = vec![];
        for c in &self.codes {
            if let Some(cd) = self.code(*c) {
                assert_eq!(u64::from_be_bytes(cd.code), *c);
                assert_eq!(cd.store, self.store_key);
                cs.push(format!("(C {} {} {})", c, z(self.owner_id(&cd.owner)), z(self.owner_id(cd.next_owner()))));
            }
        }
        let l = |v: Vec<String>| if v.is_empty() { "nil".to_string() } else { format!("({} :: nil)", v.join(" :: ")) };
        format!("{} {}", l(us), l(cs))
    }
}

fn history(rng: &mut Rng) {
    let pid = gmsol_store::ID;
    let store_key = owner_key(0xABCD_0001);
    let nown = 2 + rng.below(4);
    let ncode = 1 + rng.below(4);
    let owners: Vec<u64> = (1..=nown).collect();
    let mut codes: Vec<u64> = (1..=ncode).collect();
    if rng.chance(1, 3) { codes.push(0); }
    let mut st = Store::DISCRIMINATOR.to_vec();
    st.extend_from_slice(&vec![0u8; std::mem::size_of::<Store>()]);
    let mut store = vec![Acct::with_data(store_key, pid, &st), Acct::program(system_program::ID)];
    for o in &owners {
        let ok = owner_key(*o);
        let (uk, _) = Pubkey::find_program_address(&[UserHeader::SEED, store_key.as_ref(), ok.as_ref()], &pid);
        store.push(Acct::wallet(ok, 10_000_000_000));
        store.push(Acct::wallet(uk, 0));
    }
    for c in &codes {
        let (ck, _) = Pubkey::find_program_address(&[ReferralCodeV2::SEED, store_key.as_ref(), &c.to_be_bytes()], &pid);
        store.push(Acct::wallet(ck, 0));
    }
    let mut w = World { store, owners: owners.clone(), codes: codes.clone(), store_key };
    g6rt::set_now(1_700_000_000);

    let nops = 10 + rng.below(40) as usize;
    let mut out: Vec<String> = vec![];
    let mut prev = "nil nil".to_string();
    let (mut n_ref, mut n_xfer, mut n_acc, mut n_rej) = (0, 0, 0, 0);
    let mut reasons: std::collections::BTreeSet<u64> = Default::default();
    for _ in 0..nops {
        let o = *rng.pick(&owners);
        let r = *rng.pick(&owners);
        let c = *rng.pick(&codes);
        let prepared: Vec<u64> = owners.iter().copied().filter(|x| w.user(*x).is_some()).collect();
        let kind = rng.below(100);
        // bias towards meaningful operations
        let own_code = |w: &World, o: u64| -> Option<u64> { w.user(o).map(|u| w.code_id(&uh::code_raw(&u))).filter(|x| *x > 0).map(|x| x as u64) };
        let (opstr, res) = if (prepared.len() < owners.len() && kind < 60) || kind < 3 {
            let data = gmsol_store::instruction::PrepareUser {}.data();
            let r0 = { let metas = [m(w.owner_idx(o), true, true), m(A_STORE, false, false), m(w.user_idx(o), false, true), m(A_SYS, false, false)]; g6rt::run(gmsol_store::entry, &pid, &mut w.store, &metas, &data) };
            (format!("Prepare {o}"), r0)
        } else if kind < 22 || (kind < 45 && own_code(&w, o).is_none()) {
            let data = gmsol_store::instruction::InitializeReferralCode { code: c.to_be_bytes() }.data();
            let r0 = { let metas = [m(w.owner_idx(o), true, true), m(A_STORE, false, false), m(w.code_idx(c), false, true), m(w.user_idx(o), false, true), m(A_SYS, false, false)]; g6rt::run(gmsol_store::entry, &pid, &mut w.store, &metas, &data) };
            (format!("InitCode {o} {c}"), r0)
        } else if kind < 70 {
            // mostly use the referrer's own code
            let c2 = if rng.chance(3, 4) { own_code(&w, r).unwrap_or(c) } else { c };
            let data = gmsol_store::instruction::SetReferrer { code: c2.to_be_bytes() }.data();
            let r0 = { let metas = [m(w.owner_idx(o), true, false), m(A_STORE, false, false), m(w.user_idx(o), false, true), m(w.code_idx(c2), false, false), m(w.user_idx(r), false, true)]; g6rt::run(gmsol_store::entry, &pid, &mut w.store, &metas, &data) };
            if r0.is_ok() { n_ref += 1; }
            (format!("SetRef {o} {c2} {r}"), r0)
        } else if kind < 82 {
            let c2 = if rng.chance(3, 4) { own_code(&w, o).unwrap_or(c) } else { c };
            let free: Vec<u64> = prepared.iter().copied().filter(|x| *x != o && own_code(&w, *x).is_none()).collect();
            let r = if !free.is_empty() && rng.chance(3, 4) { *rng.pick(&free) } else { r };
            let data = gmsol_store::instruction::TransferReferralCode {}.data();
            let r0 = { let metas = [m(w.owner_idx(o), true, false), m(A_STORE, false, false), m(w.user_idx(o), false, false), m(w.code_idx(c2), false, true), m(w.user_idx(r), false, false)]; g6rt::run(gmsol_store::entry, &pid, &mut w.store, &metas, &data) };
            if r0.is_ok() { n_xfer += 1; }
            (format!("Transfer {o} {c2} {r}"), r0)
        } else if kind < 88 {
            let c2 = if rng.chance(3, 4) { own_code(&w, o).unwrap_or(c) } else { c };
            let data = gmsol_store::instruction::CancelReferralCodeTransfer {}.data();
            let r0 = { let metas = [m(w.owner_idx(o), true, false), m(A_STORE, false, false), m(w.user_idx(o), false, false), m(w.code_idx(c2), false, true)]; g6rt::run(gmsol_store::entry, &pid, &mut w.store, &metas, &data) };
            (format!("Cancel {o} {c2}"), r0)
        } else {
            // accept: signer n = o; usually the pending next owner of some code
            let mut n = o;
            let mut c2 = c;
            let mut u = r;
            if rng.chance(3, 4) {
                for cc in &codes {
                    if let Some(cd) = w.code(*cc) {
                        if cd.owner != *cd.next_owner() {
                            c2 = *cc;
                            n = w.owner_id(cd.next_owner()) as u64;
                            u = w.owner_id(&cd.owner) as u64;
                        }
                    }
                }
            } else if let Some(cd) = w.code(c2) {
                if rng.chance(1, 2) { u = w.owner_id(&cd.owner) as u64; }
            }
            if !owners.contains(&n) || !owners.contains(&u) { n = o; u = r; }
            let data = gmsol_store::instruction::AcceptReferralCode {}.data();
            let r0 = { let metas = [m(w.owner_idx(n), true, false), m(A_STORE, false, false), m(w.user_idx(u), false, true), m(w.code_idx(c2), false, true), m(w.user_idx(n), false, true)]; g6rt::run(gmsol_store::entry, &pid, &mut w.store, &metas, &data) };
            if r0.is_ok() { n_acc += 1; }
            (format!("Accept {n} {c2} {u}"), r0)
        };
        let rc = match &res {
            Ok(()) => 0,
            Err(e) => {
                n_rej += 1;
                let code = g6rt::err_code(e);
                let cls = if (6000..7000).contains(&code) {
                    // CoreError: recover the name through the error table of the program
                    core_class_by_code(code as u32).unwrap_or(100_000 + code)
                } else if code >= 1_000_000 { 2 } else { class(code) };
                reasons.insert(cls);
                cls
            }
        };
        let snap = w.snapshot();
        if snap == prev {
            out.push(format!("(Sp ({opstr}) (Same {rc}))"));
        } else {
            out.push(format!("(Sp ({opstr}) (Obs {rc} {snap}))"));
            prev = snap;
        }
    }
    let tag = format!("hist{}{}{}{}", if n_ref > 0 { "+ref" } else { "" }, if n_xfer > 0 { "+transfer" } else { "" }, if n_acc > 0 { "+accept" } else { "" }, if n_rej > 0 { "+rej" } else { "" });
    let _ = reasons;
    emit(&tag, &format!("Hist ({} :: nil)", out.join(" :: ")));
}

/// State functions called directly on arbitrary zeroed structs.
fn direct(rng: &mut Rng) {
    let store = owner_key(77);
    let mk = |init: bool, owner: u64, referrer: u64, code: u64| -> UserHeader {
        let mut u = UserHeader::zeroed();
        if init { uh::user_init(&mut u, &store, &if owner == 0 { Pubkey::default() } else { owner_key(owner) }, 1).unwrap(); }
        if code != 0 { uh::set_code(&mut u, &owner_key(1000 + code)).unwrap(); }
        if referrer != 0 {
            let mut r = UserHeader::zeroed();
            uh::user_init(&mut r, &store, &owner_key(referrer), 1).unwrap();
            uh::set_referrer(&mut u, &mut r).unwrap();
        }
        u
    };
    let id = |k: &Pubkey| -> i64 { if *k == Pubkey::default() { 0 } else { for i in 1..50u64 { if owner_key(i) == *k { return i as i64; } if owner_key(1000 + i) == *k { return i as i64; } } -1 } };
    match rng.below(3) {
        0 => {
            // Referral::set_referrer(user, referrer_user)
            let (uo, ur, ro) = (1 + rng.below(3), rng.below(3), rng.below(4));
            let mut u = mk(true, uo, ur, 0);
            let mut r = mk(ro != 0 || rng.chance(1, 2), ro, 0, 0);
            let rinit = r.is_initialized();
            let cnt0 = uh::referee_count(&r);
            let res = uh::set_referrer(&mut u, &mut r);
            let rc = match &res { Ok(()) => 0, Err(anchor_lang::error::Error::AnchorError(a)) => core_class(&a.error_name).unwrap_or(99), _ => 98 };
            let _ = rinit;
            emit(if rc == 0 { "dir/set_referrer/ok" } else { "dir/set_referrer/rej" },
                &format!("DSetRef {} {} {} {rc} {} {}", uo, ur, ro, z(id(&uh::referrer_raw(&u))), z(uh::referee_count(&r) - cnt0)));
        }
        1 => {
            // Referral::set_code
            let had = rng.below(3);
            let mut u = mk(true, 1, 0, had);
            let newc = 1 + rng.below(3);
            let res = uh::set_code(&mut u, &owner_key(1000 + newc));
            let rc = match &res { Ok(()) => 0, Err(anchor_lang::error::Error::AnchorError(a)) => core_class(&a.error_name).unwrap_or(99), _ => 98 };
            emit(if rc == 0 { "dir/set_code/ok" } else { "dir/set_code/rej" }, &format!("DSetCode {had} {newc} {rc} {}", z(id(&uh::code_raw(&u)))));
        }
        _ => {
            // unchecked_transfer_code / unchecked_complete_code_transfer on arbitrary structs
            let complete = rng.chance(1, 2);
            let (uo, ro) = (1u64, 2 + rng.below(2));
            let cbytes = if rng.chance(1, 6) { 0u64 } else { 5 };
            let mut cd = ReferralCodeV2::zeroed();
            uh::code_init(&mut cd, 1, cbytes.to_be_bytes(), &store, &owner_key(uo));
            let next = match rng.below(4) { 0 => uo, 1 | 2 => ro, _ => 2 + rng.below(2) };
            if next != uo { uh::set_next_owner(&mut cd, &owner_key(next)).unwrap(); }
            let uinit = !rng.chance(1, 8);
            let rinit = !rng.chance(1, 8);
            let rcode = if rng.chance(1, 6) { 7 } else { 0 };
            let mut u = mk(uinit, uo, 0, if uinit { 5 } else { 0 });
            let mut r = mk(rinit, ro, 0, if rinit { rcode } else { 0 });
            let res = if complete { uh::complete_code_transfer(&mut u, &mut cd, &mut r) } else { uh::transfer_code(&u, &mut cd, &r) };
            let rc = match &res { Ok(()) => 0, Err(anchor_lang::error::Error::AnchorError(a)) => core_class(&a.error_name).unwrap_or(99), _ => 98 };
            emit(&format!("dir/{}/{}", if complete { "complete" } else { "transfer" }, if rc == 0 { "ok" } else { "rej" }),
                &format!("DXfer {} {} {} {} {} {} {} {rc} {} {} {} {}", b(complete), cbytes, z(next), b(uinit), b(rinit), rcode, ro,
                    z(id(&cd.owner)), z(id(cd.next_owner())), z(id(&uh::code_raw(&u))), z(id(&uh::code_raw(&r)))));
        }
    }
}

fn main() {
    let a = args();
    let mut rng = Rng::new(a.seed);
    g6rt::install();
    g6rt::quiet();
    for i in 0..a.n {
        if i % 4 == 3 { direct(&mut rng) } else { history(&mut rng) }
    }
    g6rt::finish();
}
