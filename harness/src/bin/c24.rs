//! C24 driver: the real `Oracle::with_prices_opts` on in-memory Store / TokenMap / PriceFeed accounts
//! (harness/src/g5oracle.rs) with a stubbed clock, and `Oracle::validate_time` on crafted oracle states.
use gmsol_model::num::MulDiv;
use gmsol_store::states::Oracle;
use gmsol_store::states::oracle::ValidateOracleTime;
use gmsol_store::{CoreError, CoreResult};
use gmsol_verif_harness::g5oracle::*;
use gmsol_verif_harness::g6rt::{emit, finish, quiet};
use gmsol_verif_harness::*;

const UNIT: u128 = 100_000_000_000_000_000_000;

fn tok_term(t: &TokenSpec, f: &FeedSpec) -> String {
    format!(
        "(Tok {} {} {} {} {} {} {} {} {} {} {} {} {} {} {} {} {} {} {} {} {} {})",
        b(t.in_map), b(t.enabled), t.td, t.precision, t.heartbeat, b(t.allow_adjust), t.ratio, t.ts_adj, t.policy, t.expected_provider,
        b(f.owner_ok), f.provider, b(f.feed_id_ok), f.decimals, f.pflags, f.status, f.lud, z(f.ts), f.price, f.min, f.max, f.slot
    )
}
fn ostate_term(s: &OracleState) -> String {
    format!("(mkO {} {} {} {} {})", b(s.cleared), s.len, z(s.min_ts), z(s.max_ts), s.min_slot.unwrap_or(u64::MAX))
}
fn runit(r: &std::result::Result<(), u32>) -> String {
    match r { Ok(()) => "(Ok tt)".into(), Err(c) => format!("(Err {c})") }
}

struct Target { after: Option<i64>, before: Option<i64>, after_slot: Option<u64> }
impl ValidateOracleTime for Target {
    fn oracle_updated_after(&self) -> CoreResult<Option<i64>> { Ok(self.after) }
    fn oracle_updated_before(&self) -> CoreResult<Option<i64>> { Ok(self.before) }
    fn oracle_updated_after_slot(&self) -> CoreResult<Option<u64>> { Ok(self.after_slot) }
}

/// An `Oracle` account value with the given range fields / cleared flag (Pod layout:
/// 8 + 32 + 32 bytes, then min_oracle_ts, max_oracle_ts, min_oracle_slot; flags after the price map).
fn oracle_with(st: &OracleState) -> Box<Oracle> {
    let mut o: Box<Oracle> = Box::new(bytemuck::Zeroable::zeroed());
    let n = std::mem::size_of::<Oracle>();
    let bytes: &mut [u8] = bytemuck::bytes_of_mut(&mut *o);
    bytes[72..80].copy_from_slice(&st.min_ts.to_le_bytes());
    bytes[80..88].copy_from_slice(&st.max_ts.to_le_bytes());
    bytes[88..96].copy_from_slice(&st.min_slot.unwrap_or(u64::MAX).to_le_bytes());
    bytes[n - 260] = if st.cleared { 1 } else { 0 };
    assert_eq!(o.min_oracle_ts(), st.min_ts);
    assert_eq!(o.max_oracle_ts(), st.max_ts);
    assert_eq!(o.is_cleared(), st.cleared);
    o
}

fn core_code(e: CoreError) -> u32 { err_num(e.into()) }

fn gen_token(rng: &mut Rng, env: &Env, base_ts: i64, calm: bool) -> (TokenSpec, FeedSpec) {
    let p: u8 = rng.range(2, 8) as u8;
    let td: u8 = rng.range(6, 20 - p as u64) as u8;
    let m = 20 - td - p;
    let s = 10u128.pow(m as u32);
    let heartbeat: u32 = if calm { *rng.pick(&[60u32, 3600, u32::MAX]) } else { *rng.pick(&[30u32, 60, 3600, 10, u32::MAX]) };
    let ts_adj: u32 = match rng.below(4) { 0 => 0, 1 => 1, 2 => rng.below(100) as u32, _ => 5 };
    let ratio: u32 = match rng.below(6) { 0 => 0, 1 => 1, 2 => rng.range(100_000_000, 200_000_000) as u32, _ => rng.range(1000, 5_000_000) as u32 };
    let allow = rng.chance(1, 3);
    let vref: u32 = match rng.below(6) { 0 => u32::MAX - rng.below(100_000) as u32, 1 => rng.range(1, 50) as u32, _ => rng.range(1000, 400_000_000) as u32 };
    let refu = vref as u128 * s;
    let dev = refu.checked_mul_div(&(ratio as u128 * 1_000_000_000_000), &UNIT).unwrap_or(0);
    let hi = (refu + dev) / s;
    let lo = refu.saturating_sub(dev).div_ceil(s);
    let rsteps = dev.div_ceil(s);
    let side = |rng: &mut Rng| -> u128 {
        let j = rng.below(5) as i128 - 2;
        let c = match rng.below(if calm { 24 } else { 10 }) { 0 => hi, 1 => lo, 2 => vref as u128 + rsteps, 3 => (vref as u128).saturating_sub(rsteps), 9 => rng.uint(32), _ => vref as u128 };
        (c as i128 + if rng.chance(1, 2) { j } else { 0 }).max(0) as u128
    };
    let (x, y) = (side(rng), side(rng));
    let (mut mn, mut mx) = if rng.chance(19, 20) { (x.min(y), x.max(y)) } else { (x, y) };
    // feed decimals: usually = precision (value = feed price); sometimes scaled, sometimes invalid
    let mut decimals = p;
    let mut price = vref as u128;
    match rng.below(if calm { 40 } else { 12 }) {
        0 => { let k = rng.range(1, 6) as u32; decimals = p + k as u8; let q = 10u128.pow(k); mn = mn * q + rng.below(q as u64) as u128; mx = mx * q + rng.below(q as u64) as u128; price = price * q + rng.below(q as u64) as u128; }
        1 => { decimals = 21 + rng.below(3) as u8; }
        2 => { mx = (1u128 << 32) + rng.below(3) as u128 - 1; }
        _ => {}
    }
    // timestamps around the freshness boundaries
    let age_edge = env.now as i128 - env.max_age as i128 + ts_adj as i128;
    let fut_edge = env.now as i128 + env.max_future as i128;
    let hb_edge = env.now as i128 - heartbeat as i128;
    let j = rng.below(5) as i128 - 2;
    let ts_wide: i128 = match rng.below(if calm { 48 } else { 16 }) {
        0 | 1 => age_edge + j,
        2 | 3 => fut_edge + j,
        4 | 5 => hb_edge + j,
        6 => env.now as i128 + j,
        7 => rng.sint(64),
        8 => i64::MIN as i128 + rng.below(3) as i128,
        _ => base_ts as i128 - rng.below(4) as i128,
    };
    let ts = ts_wide.clamp(i64::MIN as i128, i64::MAX as i128) as i64;
    let pflags: u8 = match rng.below(if calm { 40 } else { 10 }) { 0 => 0, 1 => 3, 2 => 7, 3 => rng.below(256) as u8, _ => 1 };
    let status: u8 = match rng.below(if calm { 32 } else { 8 }) { 0 => 6, 1 => rng.below(8) as u8, 2 => 3, _ => 0 };
    let policy: u8 = match rng.below(6) { 0 => rng.below(64) as u8, 1 => 32, _ => 0 };
    let lud: u32 = match rng.below(4) { 0 => rng.uint(32) as u32, 1 => heartbeat, _ => 0 };
    let mut t = TokenSpec { td, precision: p, heartbeat, allow_adjust: allow, ratio, ts_adj, policy, enabled: true, synthetic: rng.chance(1, 4), expected_provider: 0, in_map: true };
    let mut f = FeedSpec { provider: 0, decimals, pflags, status, lud, ts, price, min: mn, max: mx, slot: rng.below(1000), published_at: ts, owner_ok: true, feed_id_ok: true };
    match rng.below(if calm { 200 } else { 40 }) {
        0 => t.in_map = false,
        1 => t.enabled = false,
        2 => f.owner_ok = false,
        3 => f.feed_id_ok = false,
        4 => f.provider = rng.range(1, 3) as u8,
        5 => f.provider = rng.range(4, 255) as u8,
        6 => { t.expected_provider = rng.range(4, 255) as u8; }
        7 => { t.expected_provider = 1; }
        _ => {}
    }
    (t, f)
}

fn main() {
    let a = args();
    silence_panics();
    quiet();
    gmsol_verif_harness::g9rt::install();
    if a.extra.iter().any(|x| x == "--witness") {
        let now = 1_700_000_000i64;
        let env = Env { now, slot: 10, max_age: 3600, max_range: 3600, max_future: 10 };
        let mk = |allow: bool, ratio: u32, td: u8, p: u8, vref: u32, mn: u128, mx: u128| {
            (TokenSpec { td, precision: p, heartbeat: 60, allow_adjust: allow, ratio, ..Default::default() },
             FeedSpec { provider: 0, decimals: p, pflags: 1, status: 0, lud: 0, ts: now - 1, price: vref as u128, min: mn, max: mx, slot: 5, published_at: now - 1, owner_ok: true, feed_id_ok: true })
        };
        for toks in [
            vec![mk(false, 1_000_000, 8, 4, 100001, 100001, 101002)],
            vec![mk(true, 1000, 8, 4, 4294967000, 4294924050, 4294924050)],
            vec![mk(false, 1, 2, 18, 50_000_000, 50_000_000, 4_000_000_000)],
            vec![mk(false, 1_000_000, 8, 4, 100001, 100001, 101003)],
        ] {
            run_case(&env, &toks, false, false, toks.len(), true, "witness");
        }
        finish();
        return;
    }
    let mut rng = Rng::new(a.seed);
    for i in 0..a.n {
        if i % 8 == 7 {
            // validate_time
            let lo = rng.sint(64) as i64;
            let st = OracleState {
                cleared: rng.chance(1, 6),
                len: 0,
                min_ts: lo,
                max_ts: match rng.below(5) { 0 => lo, 1 => lo.saturating_sub(1), 2 => rng.sint(64) as i64, _ => lo.saturating_add(rng.below(100) as i64) },
                min_slot: Some(rng.uint(64) as u64),
            };
            let near = |rng: &mut Rng, c: i64| -> Option<i64> { match rng.below(4) { 0 => None, 1 => Some(rng.sint(64) as i64), _ => Some(c.saturating_add(rng.below(3) as i64 - 1)) } };
            let tgt = Target {
                after: near(&mut rng, st.min_ts),
                before: near(&mut rng, st.max_ts),
                after_slot: match rng.below(4) { 0 => None, 1 => Some(rng.uint(64) as u64), _ => Some(st.min_slot.unwrap().saturating_add(rng.below(3)).saturating_sub(1)) },
            };
            let o = oracle_with(&st);
            let r = o.verif_validate_time(&tgt).map_err(core_code);
            let oi = |v: Option<i64>| oz(v);
            emit(if r.is_ok() { "vtime/ok" } else { "vtime/err" },
                 &format!("VTime {} {} {} {} {}", ostate_term(&st), oi(tgt.after), oi(tgt.before), oz(tgt.after_slot), runit(&r)));
            continue;
        }
        let calm = rng.chance(3, 4);
        let now: i64 = match rng.below(if calm { 60 } else { 12 }) { 0 => i64::MAX - rng.below(5) as i64, 1 => i64::MIN + rng.below(5) as i64, 2 => rng.below(100) as i64, _ => 1_700_000_000 + rng.below(1000) as i64 };
        let env = Env {
            now,
            slot: 1000,
            max_age: match rng.below(if calm { 40 } else { 8 }) { 0 => 0, 1 => u64::MAX, 2 => rng.uint(64) as u64, _ => *rng.pick(&[30u64, 60, 3600]) },
            max_range: match rng.below(if calm { 40 } else { 8 }) { 0 => 0, 1 => u64::MAX, _ => *rng.pick(&[1u64, 3, 10, 300]) },
            max_future: match rng.below(8) { 0 => 0, 1 => u64::MAX, _ => *rng.pick(&[1u64, 10, 60]) },
        };
        let n = match rng.below(if calm { 40 } else { 10 }) { 0 => 0, 1 | 2 | 3 => 1, 4 | 5 | 6 => 2, 7 | 8 => 3, 9 => 5, _ => 1 + (rng.below(3) as usize) };
        let base_ts = now.saturating_sub(rng.below(20) as i64);
        let toks: Vec<_> = (0..n).map(|_| gen_token(&mut rng, &env, base_ts, calm)).collect();
        let f_fails = rng.chance(1, 5);
        let allow_closed = rng.chance(1, 5);
        let n_given = if rng.chance(1, 30) && n > 0 { n - 1 } else { n };
        let start_cleared = !rng.chance(1, 40);
        run_case(&env, &toks, f_fails, allow_closed, n_given, start_cleared, "run");
    }
    finish();
}

fn run_case(env: &Env, toks: &[(TokenSpec, FeedSpec)], f_fails: bool, allow_closed: bool, n_given: usize, start_cleared: bool, kind: &str) {
    let (e2, t2) = (env.clone(), toks.to_vec());
    let rr = no_panic(move || run(&e2, &t2, f_fails, allow_closed, n_given, false, start_cleared));
    let env_term = format!("(mkEnv {} {} {} {})", z(env.now), env.max_age, env.max_range, env.max_future);
    let toks_term = format!("[{}]", toks.iter().map(|(t, f)| tok_term(t, f)).collect::<Vec<_>>().join("; "));
    let cleared = "(mkO true 0 9223372036854775807 (-9223372036854775808) 18446744073709551615)";
    let (tag, tail) = match &rr {
        None => (format!("{kind}/panic"), format!("(Err 9) None {cleared}")),
        Some(r) if !start_cleared => {
            assert!(r.inside.is_none());
            (format!("{kind}/uncleared_start"), format!("{} None {}", runit(&r.res), ostate_term(&r.after)))
        }
        Some(r) => {
            let inside = match &r.inside {
                None => "None".to_string(),
                Some((st, prices)) => format!(
                    "(Some ({}, [{}]))",
                    ostate_term(st),
                    prices.iter().map(|p| match p { Ok((x, y)) => format!("Ok ({x}, {y})"), Err(c) => format!("Err {c}") }).collect::<Vec<_>>().join("; ")
                ),
            };
            let tag = match &r.res {
                Ok(()) => format!("{kind}/accepted{}", toks.len()),
                Err(7777) => format!("{kind}/op_failed{}", toks.len()),
                Err(c) => format!("{kind}/rejected{c}"),
            };
            (tag, format!("{} {inside} {}", runit(&r.res), ostate_term(&r.after)))
        }
    };
    emit(&tag, &format!("Run {env_term} {} {} {n_given} {} {toks_term} {tail}", b(allow_closed), b(f_fails), b(start_cleared)));
}
