//! C44 driver: multi-market swap paths on REAL market accounts.
//!
//! Real code driven:
//!  * `SwapActionParams::validated_{primary,secondary}_swap_path`                           (PathValid)
//!  * `SwapActionParamsExt::validate_and_init` (-> `validate_path`) over real `Market` accounts (Create)
//!  * `SwapMarkets::new` + `SwapMarkets::revertible_swap` (-> `revertible_swap_for_one_side`,
//!    `swap_along_the_path`, `swap_with_current`, the real single-market swaps of gmsol-model, the real
//!    `record_transferred_in/out`, the real balance validations) on real `RevertibleMarket`s with a real
//!    `Oracle`; per-hop amounts are taken from the emitted `SwapExecuted` events                   (Swap)
use anchor_lang::prelude::*;
use gmsol_store::states::common::swap::SwapActionParams;
use gmsol_store::states::Market;
use gmsol_store::verif_hooks_g9 as hk;
use gmsol_store::CoreError;
use gmsol_verif_harness::g9mk::{self, market_token, token, Env};
use gmsol_verif_harness::g9rt;
use gmsol_verif_harness::*;

fn code(e: &anchor_lang::error::Error) -> u32 {
    let c = g9rt::err_code(e);
    let m = |x: CoreError| -> u32 { x.into() };
    if c == m(CoreError::InvalidSwapPath) { 1 }
    else if c == m(CoreError::MarketAccountIsNotProvided) { 2 }
    else if c == m(CoreError::InvalidArgument) { 3 }
    else if c == m(CoreError::Model) { 4 }
    else if c == m(CoreError::InvalidSwapPathLength) { 5 }
    else if c == m(CoreError::NotEnoughSwapMarkets) { 6 }
    else if c == m(CoreError::StoreMismatched) { 7 }
    else if c == m(CoreError::DisabledMarket) { 8 }
    else if c == m(CoreError::TokenAmountOverflow) { 9 }
    else { 1000 + c }
}

fn params_with(p1: &[u64], p2: &[u64], cur: u64) -> SwapActionParams {
    let mut p = SwapActionParams::default();
    p.primary_length = p1.len() as u8;
    p.secondary_length = p2.len() as u8;
    for (i, m) in p1.iter().chain(p2.iter()).enumerate() {
        p.paths[i] = market_token(*m);
    }
    p.current_market_token = market_token(cur);
    p
}

// ------------------------------------------------------------------ PathValid
fn gen_path_valid(rng: &mut Rng) {
    let mk = |rng: &mut Rng| -> Vec<u64> {
        let n = rng.below(6) as usize;
        let mut v: Vec<u64> = (0..n).map(|_| rng.below(7)).collect();
        if rng.chance(1, 2) { v.sort(); v.dedup(); if rng.chance(1, 2) { v.reverse(); } }
        v
    };
    let (p1, p2) = (mk(rng), mk(rng));
    if p1.len() + p2.len() > 10 { return gen_path_valid(rng); }
    let p = params_with(&p1, &p2, 0);
    let r1 = p.validated_primary_swap_path().map(|x| x.len() == p1.len()).unwrap_or(false);
    let r2 = p.validated_secondary_swap_path().map(|x| x.len() == p2.len()).unwrap_or(false);
    emit(if r1 && r2 { "path_valid/ok" } else { "path_valid/dup" }, &format!("PathValid {} {} {} {}", zl(&p1), zl(&p2), b(r1), b(r2)));
}

// ------------------------------------------------------------------ market universe
/// (index, long, short) of market id; a mix of markets sharing tokens, one pure market (id 5).
const TOKS: [(u64, u64, u64); 8] = [
    (9, 0, 1), // m0: A/B
    (9, 1, 2), // m1: B/C
    (8, 2, 3), // m2: C/D
    (8, 0, 2), // m3: A/C
    (9, 3, 1), // m4: D/B
    (8, 2, 2), // m5: pure C
    (9, 1, 0), // m6: B/A (reverse of m0)
    (9, 3, 0), // m7: D/A
];

fn build_env(ids: &[u64], wrong_store: Option<u64>, disabled: Option<u64>) -> Env {
    let mut env = Env::new();
    for t in [0u64, 1, 2, 3, 8, 9] {
        let v = 1_000_000 + (t as u32) * 37_000;
        env.set_price(t, v, v + (t as u32 % 3) * 500, 8);
    }
    for id in ids {
        let (ix, l, s) = TOKS[*id as usize];
        let st = if wrong_store == Some(*id) { Some(g9rt::key(11)) } else { None };
        env.add_market(*id, ix, l, s, st, disabled != Some(*id));
    }
    env
}

// ------------------------------------------------------------------ Create
fn gen_create(rng: &mut Rng) {
    let all: Vec<u64> = (0..8).collect();
    let wrong_store = if rng.chance(1, 25) { Some(rng.below(8)) } else { None };
    let disabled = if rng.chance(1, 25) { Some(rng.below(8)) } else { None };
    let mut env = build_env(&all, wrong_store, disabled);
    let cur = rng.below(8);
    let (cix, cl, cs) = TOKS[cur as usize];
    // build two token-chained paths most of the time
    let mk_path = |rng: &mut Rng, start: u64, want_len: usize| -> (Vec<u64>, u64) {
        let mut tok = start;
        let mut path = vec![];
        for _ in 0..want_len {
            let cands: Vec<u64> = (0..8).filter(|m| { let (_, l, s) = TOKS[*m as usize]; (l == tok || s == tok) && l != s && (rng.chance(1, 25) || !path.contains(m)) }).collect();
            if cands.is_empty() { break; }
            let m = if rng.chance(1, 30) { rng.below(8) } else { cands[rng.below(cands.len() as u64) as usize] };
            let (_, l, s) = TOKS[m as usize];
            path.push(m);
            tok = if tok == l { s } else if tok == s { l } else { tok };
        }
        (path, tok)
    };
    let tin1 = rng.below(4);
    let tin2 = rng.below(4);
    let (n1, n2) = (rng.below(5) as usize, rng.below(5) as usize);
    let (p1, e1) = mk_path(rng, tin1, n1);
    let (p2, e2) = mk_path(rng, tin2, n2);
    let tout1 = if rng.chance(19, 20) { e1 } else { rng.below(4) };
    let tout2 = if rng.chance(19, 20) { e2 } else { rng.below(4) };
    let mut plen = p1.len() as u8;
    let mut slen = p2.len() as u8;
    let mut accts: Vec<u64> = p1.iter().chain(p2.iter()).copied().collect();
    match rng.below(24) {
        0 => { slen += 1; }                         // not enough markets
        1 => { plen = 6; slen = 5; }                // too long
        2 => { accts.push(rng.below(8)); }          // extra account is ignored
        _ => {}
    }
    let infos: Vec<AccountInfo<'static>> = accts.iter().map(|m| env.info(*m as usize)).collect();
    let infos_ref: &'static [AccountInfo<'static>] = unsafe { &*(infos.as_slice() as *const _) };
    let cur_loader = env.loader(cur as usize);
    let mut params = SwapActionParams::default();
    let r = {
        let cm = cur_loader.load().unwrap();
        hk::swap_validate_and_init(&mut params, &cm, plen, slen, infos_ref, &env.store,
            (&token(tin1), &token(tin2)), (&token(tout1), &token(tout2))).map_err(|e| code(&e))
    };
    let pa: Vec<String> = accts.iter().map(|m| {
        let (ix, l, s) = TOKS[*m as usize];
        format!("mkP {m} {m} {ix} {l} {s} {} {}", b(wrong_store != Some(*m)), b(disabled != Some(*m)))
    }).collect();
    let id_of_mt = |k: &Pubkey| (0..8u64).find(|i| market_token(*i) == *k).unwrap_or(99);
    let id_of_tok = |k: &Pubkey| (0..10u64).find(|i| token(*i) == *k).unwrap_or(99);
    let (rs, sorted) = match &r {
        Err(e) => (format!("(Err {e})"), true),
        Ok(()) => {
            let pp: Vec<u64> = params.primary_swap_path().iter().map(id_of_mt).collect();
            let sp: Vec<u64> = params.secondary_swap_path().iter().map(id_of_mt).collect();
            let toks = params.tokens();
            let sorted = toks.windows(2).all(|w| w[0] < w[1]);
            let mut tk: Vec<u64> = toks.iter().map(id_of_tok).collect();
            tk.sort();
            assert_eq!(params.current_market_token, market_token(cur));
            (format!("(Ok ({}, {}, {}))", zl(&pp), zl(&sp), zl(&tk)), sorted)
        }
    };
    drop(infos);
    emit(if r.is_ok() { "create/ok" } else { "create/rejected" },
        &format!("Create {} {plen} {slen} [{}] {tin1} {tin2} {tout1} {tout2} {rs} {}", zl(&[cix, cl, cs]), pa.join("; "), b(sorted)));
}

// ------------------------------------------------------------------ Swap
const LIQ: u64 = 1_000_000_000_000;
const BAL: u64 = 3_000_000_000_000;

fn gen_swap(rng: &mut Rng) {
    let all: Vec<u64> = (0..8).collect();
    let wrong_store = if rng.chance(1, 25) { Some(rng.below(8)) } else { None };
    let disabled = if rng.chance(1, 25) { Some(rng.below(8)) } else { None };
    let mut env = build_env(&all, wrong_store, disabled);
    let cur = if rng.chance(4, 5) { *rng.pick(&[0u64, 1, 2, 3, 4, 6, 7]) } else { rng.below(8) };
    let is_into = rng.chance(1, 2);
    // sometimes the current market has no liquidity and only a small recorded balance (record_transferred_out underflow)
    let low_balance = !is_into && rng.chance(1, 10);
    for k in 0..8usize {
        if low_balance && k as u64 == cur { let x = rng.below(1_000_000_000); env.fund(k, 0, 0, x, x); } else { env.fund(k, LIQ, LIQ, BAL, BAL); }
    }
    let (_, cl, cs) = TOKS[cur as usize];
    // token-chained paths; for Into the chain should end in a token of the current market, for From it starts there
    let chain = |rng: &mut Rng, start: u64, len: usize, avoid_dups: bool| -> (Vec<u64>, u64) {
        let mut tok = start;
        let mut path: Vec<u64> = vec![];
        for _ in 0..len {
            let cands: Vec<u64> = (0..8).filter(|m| { let (_, l, s) = TOKS[*m as usize]; l != s && (l == tok || s == tok) && (!avoid_dups || !path.contains(m)) }).collect();
            if cands.is_empty() { break; }
            let m = cands[rng.below(cands.len() as u64) as usize];
            let (_, l, s) = TOKS[m as usize];
            path.push(m);
            tok = if tok == l { s } else { l };
        }
        (path, tok)
    };
    let side = |rng: &mut Rng, start_pref: u64| -> (Vec<u64>, u64, u64) {
        let len = match rng.below(6) { 0 => 0, 1 => 1, 2 => 2, 3 => 3, _ => rng.below(6) as usize };
        let avoid = rng.chance(19, 20);
        // a chain starting at a token of the current market; for Into it is walked backwards
        let (mut p, mut end) = chain(rng, start_pref, len, avoid);
        let mut start = start_pref;
        if is_into { p.reverse(); std::mem::swap(&mut start, &mut end); }
        match rng.below(70) {
            0 => { if !p.is_empty() { let i = rng.below(p.len() as u64) as usize; p[i] = rng.below(8); } } // break the chain
            1 => { p.push(5); }                                   // pure market step
            2 => { end = rng.below(4); }                          // wrong declared output
            3 => { if !p.is_empty() { let x = p[0]; p.push(x); } } // duplicate
            _ => {}
        }
        (p, start, end)
    };
    let (cl, cs) = if rng.chance(1, 8) { (cs, cl) } else { (cl, cs) };
    let (p1, t1, e1) = side(rng, cl);
    let (p2, t2, e2) = side(rng, cs);
    if p1.len() + p2.len() > 10 { return gen_swap(rng); }
    let (p1, p2): (Vec<u64>, Vec<u64>) = if low_balance { (p1.into_iter().filter(|m| *m != cur).collect(), p2.into_iter().filter(|m| *m != cur).collect()) } else { (p1, p2) };
    let amt = |rng: &mut Rng| -> u64 { match rng.below(24) { 0 | 1 => 0, 2 => 1, 3 => 1_000, 4 => 10_000 + rng.below(100_000), _ => 1_000_000 + rng.below(2_000_000_000) } };
    let (a1, a2) = (amt(rng), amt(rng));
    let tin1 = if rng.chance(9, 10) { Some(t1) } else { None };
    let tin2 = if rng.chance(9, 10) { Some(t2) } else { None };
    // loaders: the distinct path markets except the current one (sometimes one missing / current included / duplicated)
    let mut lids: Vec<u64> = vec![];
    for m in p1.iter().chain(p2.iter()) { if *m != cur && !lids.contains(m) { lids.push(*m); } }
    match rng.below(60) {
        0 => { if !lids.is_empty() { let i = rng.below(lids.len() as u64) as usize; lids.remove(i); } }
        1 => { lids.push(cur); }
        2 => { if !lids.is_empty() { let x = lids[0]; lids.push(x); } }
        3 => { let x = rng.below(8); if x != cur && !lids.contains(&x) { lids.push(x); } }
        _ => {}
    }
    let before: Vec<(u64, u64)> = (0..8).map(|k| env.balances(k)).collect();
    let params = params_with(&p1, &p2, cur);
    let loaders: Vec<AccountLoader<'static, Market>> = lids.iter().map(|m| env.loader(*m as usize)).collect();
    let loaders_ref: &'static [AccountLoader<'static, Market>] = unsafe { &*(loaders.as_slice() as *const _) };
    let cur_loader = env.loader(cur as usize);
    let cur_ref: &'static AccountLoader<'static, Market> = unsafe { &*(&cur_loader as *const _) };
    let ev = env.ev_info();
    let _ = g9rt::take_invokes();
    let store = env.store;
    let oracle_ref: &'static gmsol_store::states::Oracle = unsafe { &*(&*env.oracle as *const _) };
    let res = std::panic::catch_unwind(std::panic::AssertUnwindSafe(move || hk::run_revertible_swap(
        &store, cur_ref, loaders_ref, is_into, oracle_ref, &params,
        (token(e1), token(e2)), (tin1.map(token), tin2.map(token)), (a1, a2),
        ev, 255, true, |r, _m, _s| match r { Ok(x) => Ok(*x), Err(e) => Err(code(e)) },
    ))).ok();
    // a panic inside the program aborts the transaction: reported as Err 77
    let r: std::result::Result<(u64, u64), u32> = match res { Some(Ok(x)) => x, Some(Err(e)) => Err(code(&e)), None => Err(77) };
    let events = g9mk::swap_events(&g9rt::take_invokes());
    drop(loaders);
    drop(cur_loader);
    let after: Vec<(u64, u64)> = (0..8).map(|k| env.balances(k)).collect();
    let id_of_mt = |k: &Pubkey| (0..8u64).find(|i| market_token(*i) == *k).unwrap_or(99);
    let mkt = |m: u64, bal: &Vec<(u64, u64)>| { let (_, l, s) = TOKS[m as usize]; format!("mkMk {m} {l} {s} {} {}", bal[m as usize].0, bal[m as usize].1) };
    let lds: Vec<String> = lids.iter().map(|m| format!("({}, {}, {})", mkt(*m, &before), b(wrong_store != Some(*m)), b(disabled != Some(*m)))).collect();
    // on failure the events emitted before the failing step are kept: they feed the model's abstract swap
    let hops: Vec<String> = events.iter().map(|(mt, il, i, o)| format!("mkHop {} {} {} {}", id_of_mt(mt), b(*il), i, o)).collect();
    // on failure nothing may have been committed
    if r.is_err() { assert_eq!(before, after, "a failed swap changed committed balances"); }
    let mut seen: Vec<u64> = vec![];
    let afters: Vec<String> = lids.iter().filter(|m| **m != cur && { let f = !seen.contains(m); seen.push(**m); f }).map(|m| mkt(*m, &after)).collect();
    let rs = match &r { Ok((x, y)) => format!("(Ok ({x}, {y}))"), Err(e) => format!("(Err {e})") };
    let ot = |t: Option<u64>| match t { Some(x) => format!("(Some {x})"), None => "None".into() };
    let tag = match &r {
        Ok(_) if events.is_empty() => "swap/ok_nohop".to_string(),
        Ok(_) => format!("swap/ok_{}", if is_into { "into" } else { "from" }),
        Err(e) => format!("swap/err{e}"),
    };
    emit(&tag, &format!("Swap {} [{}] ({}) {} {} {e1} {e2} {} {} {a1} {a2} {rs} [{}] [{}] ({})",
        b(is_into), lds.join("; "), mkt(cur, &before), zl(&p1), zl(&p2), ot(tin1), ot(tin2),
        hops.join("; "), afters.join("; "), mkt(cur, &after)));
}

fn main() {
    let a = args();
    if std::env::var("G9_PANIC").is_err() { silence_panics(); }
    g9rt::install();
    g9rt::set_clock(10, 1_700_000_000);
    let mut rng = Rng::new(a.seed);
    for i in 0..a.n {
        match i % 8 {
            0 => gen_path_valid(&mut rng),
            1 | 2 => gen_create(&mut rng),
            _ => gen_swap(&mut rng),
        }
    }
}
