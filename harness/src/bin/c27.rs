//! C27 driver: PriceFeedPrice::is_market_open / MarketStatus::openness / last_update_diff_secs.
//! The (private-field, Pod) PriceFeedPrice is built from its 64-byte layout so that every flag byte
//! and every raw status byte can be reached.
use gmsol_utils::price::{MarketOpenness, MarketStatusFlagContainer, PriceFeedPrice};
use gmsol_verif_harness::*;

fn pfp(status: u8, pflags: u8, lud: u32, ts: i64) -> PriceFeedPrice {
    assert_eq!(std::mem::size_of::<PriceFeedPrice>(), 64);
    let mut bytes = [0u8; 64];
    bytes[0] = 8; // decimals
    bytes[1] = pflags;
    bytes[2] = status;
    bytes[4..8].copy_from_slice(&lud.to_le_bytes());
    bytes[8..16].copy_from_slice(&ts.to_le_bytes());
    bytes[16..32].copy_from_slice(&1u128.to_le_bytes());
    bytes[32..48].copy_from_slice(&1u128.to_le_bytes());
    bytes[48..64].copy_from_slice(&1u128.to_le_bytes());
    let p: PriceFeedPrice = bytemuck::pod_read_unaligned(&bytes);
    assert_eq!(p.ts(), ts);
    p
}

fn gen_status(rng: &mut Rng) -> u8 {
    match rng.below(10) { 0 => rng.below(256) as u8, 1 => 7, _ => rng.below(7) as u8 }
}
fn gen_policy(rng: &mut Rng) -> u8 {
    match rng.below(6) { 0 => 0, 1 => 0xff, 2 => 1u8 << rng.below(8), 3 => !(1u8 << rng.below(8)), _ => rng.below(256) as u8 }
}

fn main() {
    let a = args();
    silence_panics();
    let mut rng = Rng::new(a.seed);
    for i in 0..a.n {
        match (i as u64) % 8 {
            0 => {
                let s = gen_status(&mut rng);
                let pol = gen_policy(&mut rng);
                let p = pfp(s, 1, 0, 0);
                let st: u8 = p.market_status().into();
                let r = match p.market_status().openness(MarketStatusFlagContainer::from_value(pol)) {
                    MarketOpenness::Open => 0,
                    MarketOpenness::Closed => 1,
                    MarketOpenness::Skip => 2,
                };
                emit(&format!("openness/{}", ["open", "closed", "skip"][r]), &format!("Openness {s} {pol} {st} {r}"));
            }
            1 => {
                let pf = rng.below(256) as u8;
                let lud = match rng.below(5) {
                    0 => rng.uint(32) as u32,
                    1 => (rng.below(5) as u32) * 1_000_000_000 + rng.below(3) as u32 - if rng.chance(1, 2) { 0 } else { 0 },
                    2 => ((rng.below(5) as u32) * 1_000_000_000).wrapping_sub(1),
                    _ => rng.below(4_294_967_296) as u32,
                };
                let r = pfp(0, pf, lud, 0).last_update_diff_secs();
                emit(if r.is_some() { "lud_secs/some" } else { "lud_secs/none" }, &format!("LudSecs {pf} {lud} {}", oz(r)));
            }
            _ => {
                // mostly: open flag set, tracking enabled, status not closed — so that freshness decides
                let s = if rng.chance(1, 4) { gen_status(&mut rng) } else { *rng.pick(&[0u8, 3, 3, 0, 9]) };
                let pol = if rng.chance(1, 4) { gen_policy(&mut rng) } else { 0 };
                let pf: u8 = match rng.below(8) { 0 => rng.below(256) as u8, 1 => 1, 2 | 3 => 3, _ => 7 } | if rng.chance(1, 8) { (rng.below(32) as u8) << 3 } else { 0 };
                let secs_mode = pf & 4 != 0;
                let timeout: u32 = match rng.below(6) { 0 => 0, 1 => u32::MAX, 2 => u32::MAX - rng.below(3) as u32, 3 => rng.uint(32) as u32, _ => rng.range(1, 100_000) as u32 };
                // last update diff in seconds (as the code will see it)
                let lud_secs: u32 = match rng.below(6) { 0 => 0, 1 => timeout, 2 => timeout.wrapping_add(1), 3 => timeout / 2, 4 => rng.uint(32) as u32, _ => rng.below(timeout as u64 + 2) as u32 };
                let lud: u32 = if secs_mode { lud_secs } else {
                    match rng.below(3) { 0 => rng.uint(32) as u32, _ => (lud_secs.min(4)) * 1_000_000_000u32.min(u32::MAX / 4) + rng.below(3) as u32 }
                };
                let eff_secs: i128 = if secs_mode { lud as i128 } else { (lud as i128 + 999_999_999) / 1_000_000_000 };
                let ts: i64 = match rng.below(8) { 0 => i64::MIN, 1 => i64::MAX, 2 => i64::MIN + rng.below(5_000_000_000) as i64, 3 => i64::MAX - rng.below(5_000_000_000) as i64, 4 => rng.sint(64) as i64, 5 => 0, _ => 1_700_000_000 + rng.below(1000) as i64 };
                // now: around the decision boundary ts + timeout - lud, around ts + timeout, or extreme
                let clamp = |v: i128| -> i64 { v.clamp(i64::MIN as i128, i64::MAX as i128) as i64 };
                let jit = rng.below(5) as i128 - 2;
                let now: i64 = match rng.below(9) {
                    0 => i64::MIN,
                    1 => i64::MAX,
                    2 | 3 | 4 => clamp(ts as i128 + timeout as i128 - eff_secs + jit),
                    5 => clamp(ts as i128 + timeout as i128 + jit),
                    6 => clamp(ts as i128 + jit),
                    7 => rng.sint(64) as i64,
                    _ => clamp(ts as i128 - rng.below(10_000_000_000) as i128),
                };
                let p = pfp(s, pf, lud, ts);
                let r = p.is_market_open(now, timeout, MarketStatusFlagContainer::from_value(pol));
                let d = now as i128 - ts as i128;
                let sat = if d > i64::MAX as i128 { "ovf" } else if d < i64::MIN as i128 { "unf" } else { "" };
                let kind = if pf & 1 == 0 { "flag_closed" } else if pf & 2 == 0 { "untracked" } else if r { "fresh" } else { "stale_or_closed" };
                emit(&format!("is_open/{kind}{sat}"), &format!("IsOpen {s} {pf} {lud} {} {} {timeout} {pol} {}", z(ts), z(now), b(r)));
            }
        }
    }
}
