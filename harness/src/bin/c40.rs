//! C40 driver: the SDK's view of a market (and store) against the program's, on the same account bytes.
//!  Sizes      size_of of every zero-copy account type on both sides
//!  Decode     all observables of a market (flags, config, pools raw and through the model traits, every parameter
//!             accessor, clocks, balances, meta, name) from random bytes and from structured markets
//!  ByteMap    for every byte of the account: which observables it feeds, on both sides (layout / offsets)
//!  PoolOp     the `gmsol_model::Pool` operations of the two Pool types on the same pool bytes
//!  Discount   Store::order_fee_discount_factor on both sides
//!  Act*       (see below) actions simulated on both sides
use std::sync::Arc;

use anchor_lang::prelude::Pubkey;
use gmsol_model::{Balance, Delta, Pool as _};
use gmsol_programs::gmsol_store::{accounts as sa, types as st};
use gmsol_store::states as ps;
use gmsol_store::states::{Market, Store};
use gmsol_utils::market::MarketFlag;
use gmsol_verif_harness::g7mm::*;
use gmsol_verif_harness::*;

fn qs(x: &str) -> String {
    format!("\"{x}\"%string")
}

fn market_from(bytes: &[u8]) -> Box<Market> {
    Box::new(bytemuck::pod_read_unaligned::<Market>(bytes))
}

// ---------------------------------------------------------------- A. sizes
fn sizes() {
    macro_rules! sz {
        ($($name:expr, $p:ty, $s:ty);* $(;)?) => {
            $( emit("size", &format!("Size {} {} {}", qs($name), std::mem::size_of::<$p>(), std::mem::size_of::<$s>())); )*
        };
    }
    sz!(
        "Market", ps::Market, sa::Market;
        "Store", ps::Store, sa::Store;
        "Position", ps::Position, sa::Position;
        "Order", ps::Order, sa::Order;
        "Deposit", ps::Deposit, sa::Deposit;
        "Withdrawal", ps::Withdrawal, sa::Withdrawal;
        "Shift", ps::Shift, sa::Shift;
        "Glv", ps::Glv, sa::Glv;
        "GlvDeposit", ps::GlvDeposit, sa::GlvDeposit;
        "GlvWithdrawal", ps::GlvWithdrawal, sa::GlvWithdrawal;
        "GlvShift", ps::GlvShift, sa::GlvShift;
        "UserHeader", ps::UserHeader, sa::UserHeader;
        "Oracle", ps::Oracle, sa::Oracle;
        "PriceFeed", ps::PriceFeed, sa::PriceFeed;
        "TokenMapHeader", ps::TokenMapHeader, sa::TokenMapHeader;
        "GtExchange", ps::gt::GtExchange, sa::GtExchange;
        "GtExchangeVault", ps::gt::GtExchangeVault, sa::GtExchangeVault;
        "ReferralCodeV2", ps::user::ReferralCodeV2, sa::ReferralCodeV2;
        "VirtualInventory", ps::market::virtual_inventory::VirtualInventory, sa::VirtualInventory;
        "TradeData", gmsol_store::events::TradeData, sa::TradeData;
        "Pool", ps::market::pool::Pool, st::Pool;
        "MarketConfig", ps::market::config::MarketConfig, st::MarketConfig;
    );
}

// ---------------------------------------------------------------- B. decode
fn random_bytes(rng: &mut Rng, n: usize) -> Vec<u8> {
    let mut v = Vec::with_capacity(n + 8);
    while v.len() < n {
        v.extend_from_slice(&rng.next().to_le_bytes());
    }
    v.truncate(n);
    v
}

fn rand_key(rng: &mut Rng) -> Pubkey {
    let mut a = [0u8; 32];
    for c in a.chunks_mut(8) {
        c.copy_from_slice(&rng.next().to_le_bytes());
    }
    Pubkey::new_from_array(a)
}

/// A market built by the real `Market::init`, then mutated through the SDK struct's public fields (the byte map
/// below shows that both sides agree on where each field lives) — pools, balances, clocks, flags, config.
fn structured_market(rng: &mut Rng, sane_pools: bool) -> Vec<u8> {
    let mut m: Box<Market> = Box::new(bytemuck::Zeroable::zeroed());
    let long = rand_key(rng);
    let short = if rng.chance(1, 3) { long } else { rand_key(rng) };
    g7rt::set_now(rng.below(1 << 40) as i64);
    m.init(rng.below(256) as u8, rand_key(rng), "BTC/USD[WSOL-USDC]", rand_key(rng), rand_key(rng), long, short, rng.chance(3, 4)).expect("init");
    for k in config_keys() {
        if rng.chance(1, 2) {
            *m.get_config_mut(&k.to_string()).unwrap() = rng.uint(128);
        }
    }
    for f in config_flags() {
        m.set_config_flag(&f.to_string(), rng.chance(1, 2)).unwrap();
    }
    m.set_flag(MarketFlag::Closed, rng.chance(1, 2));
    m.set_flag(MarketFlag::GTEnabled, rng.chance(1, 2));
    m.set_adl_enabled(true, rng.chance(1, 2));
    m.set_adl_enabled(false, rng.chance(1, 2));
    let mut s: Box<sa::Market> = Box::new(bytemuck::pod_read_unaligned(bytemuck::bytes_of(&*m)));
    {
        let p = &mut s.state.pools;
        for st in [
            &mut p.primary, &mut p.swap_impact, &mut p.claimable_fee, &mut p.open_interest_for_long, &mut p.open_interest_for_short,
            &mut p.open_interest_in_tokens_for_long, &mut p.open_interest_in_tokens_for_short, &mut p.position_impact, &mut p.borrowing_factor,
            &mut p.funding_amount_per_size_for_long, &mut p.funding_amount_per_size_for_short, &mut p.claimable_funding_amount_per_size_for_long,
            &mut p.claimable_funding_amount_per_size_for_short, &mut p.collateral_sum_for_long, &mut p.collateral_sum_for_short, &mut p.total_borrowing,
        ] {
            st.pool.long_token_amount = rng.uint(128);
            st.pool.short_token_amount = if st.pool.is_pure != 0 && sane_pools { 0 } else { rng.uint(128) };
            st.rev = rng.next();
        }
    }
    s.state.other.long_token_balance = rng.uint(64) as u64;
    s.state.other.short_token_balance = rng.uint(64) as u64;
    s.state.other.funding_factor_per_second = rng.sint(128);
    s.state.other.trade_count = rng.uint(64) as u64;
    s.state.clocks.price_impact_distribution = rng.sint(64) as i64;
    s.state.clocks.borrowing = rng.sint(64) as i64;
    s.state.clocks.funding = rng.sint(64) as i64;
    s.state.clocks.adl_for_long = rng.sint(64) as i64;
    s.state.clocks.adl_for_short = rng.sint(64) as i64;
    s.indexer.deposit_count = rng.uint(64) as u64;
    s.indexer.order_count = rng.uint(64) as u64;
    if rng.chance(1, 2) {
        s.virtual_inventory_for_swaps = rand_key(rng);
    }
    if rng.chance(1, 2) {
        s.virtual_inventory_for_positions = rand_key(rng);
    }
    bytemuck::bytes_of(&*s).to_vec()
}

fn decode(kind: &str, bytes: &[u8]) {
    let m = market_from(bytes);
    let p = program_obs(&m);
    let s = sdk_obs(bytes);
    let diff = p.iter().zip(s.iter()).filter(|(a, b)| a != b).count() + p.len().abs_diff(s.len());
    emit(&format!("decode/{kind}/{}", if diff == 0 { "same" } else { "differs" }), &format!("Decode {} {}", qs(kind), zip_obs(&p, &s)));
}

// ---------------------------------------------------------------- C. byte map
fn byte_map() {
    let n = std::mem::size_of::<Market>();
    let zero = vec![0u8; n];
    let p0 = program_obs(&market_from(&zero));
    let s0 = sdk_obs(&zero);
    let changed = |base: &Obs, now: &Obs| -> Vec<String> {
        base.iter().zip(now.iter()).filter(|(a, b)| a.1 != b.1).map(|(a, _)| a.0.clone()).collect()
    };
    let mut run: Option<(usize, usize, Vec<String>, Vec<String>)> = None;
    let flush = |r: &Option<(usize, usize, Vec<String>, Vec<String>)>| {
        if let Some((lo, hi, p, s)) = r {
            let f = |v: &Vec<String>| format!("[{}]", v.iter().map(|x| qs(x)).collect::<Vec<_>>().join("; "));
            let tag = if p.is_empty() && s.is_empty() { "bytemap/unobserved" } else if p == s { "bytemap/same" } else { "bytemap/differs" };
            emit(tag, &format!("ByteMap {lo} {hi} {} {}", f(p), f(s)));
        }
    };
    for i in 0..n {
        let mut b = zero.clone();
        b[i] = 0xA5;
        let pc = changed(&p0, &program_obs(&market_from(&b)));
        let sc = changed(&s0, &sdk_obs(&b));
        match &mut run {
            Some((_, hi, p, s)) if *p == pc && *s == sc => *hi = i,
            _ => {
                flush(&run);
                run = Some((i, i, pc, sc));
            }
        }
    }
    flush(&run);
}

// ---------------------------------------------------------------- D. pool operations
fn res_pool<P: bytemuck::Pod>(r: std::thread::Result<gmsol_model::Result<P>>) -> String {
    match r {
        Err(_) => "RPanic".into(),
        Ok(Err(_)) => "RErr".into(),
        Ok(Ok(p)) => {
            let raw = bytemuck::bytes_of(&p);
            format!("(RPool {} {} {})", raw[0], u128::from_le_bytes(raw[16..32].try_into().unwrap()), u128::from_le_bytes(raw[32..48].try_into().unwrap()))
        }
    }
}
fn res_num(r: std::thread::Result<gmsol_model::Result<u128>>) -> String {
    match r {
        Err(_) => "RPanic".into(),
        Ok(Err(_)) => "RErr".into(),
        Ok(Ok(v)) => format!("(RNum {v})"),
    }
}

fn pool_ops(rng: &mut Rng) {
    let mut raw = [0u8; 48];
    let pure = rng.chance(1, 2);
    raw[0] = if pure { *rng.pick(&[1u8, 1, 1, 2, 255]) } else { 0 };
    let l = rng.uint(128);
    // a pure pool never has a short amount (type invariant; long_amount() debug-asserts it)
    let s = if pure { 0 } else if rng.chance(1, 4) { l.wrapping_add(rng.below(3) as u128).wrapping_sub(1) } else { rng.uint(128) };
    raw[16..32].copy_from_slice(&l.to_le_bytes());
    raw[32..48].copy_from_slice(&s.to_le_bytes());
    let pp: ps::market::pool::Pool = bytemuck::pod_read_unaligned(&raw);
    let sp: st::Pool = bytemuck::pod_read_unaligned(&raw);
    let (dl, ds) = (rng.sint(128), rng.sint(128));
    macro_rules! cu {
        ($e:expr) => { std::panic::catch_unwind(std::panic::AssertUnwindSafe(|| $e)) };
    }
    let ops: Vec<(&str, String, String)> = vec![
        ("long_amount", res_num(cu!(pp.long_amount())), res_num(cu!(sp.long_amount()))),
        ("short_amount", res_num(cu!(pp.short_amount())), res_num(cu!(sp.short_amount()))),
        ("apply_long", res_pool(cu!({ let mut q = pp; q.apply_delta_to_long_amount(&dl).map(|_| q) })), res_pool(cu!({ let mut q = sp; q.apply_delta_to_long_amount(&dl).map(|_| q) }))),
        ("apply_short", res_pool(cu!({ let mut q = pp; q.apply_delta_to_short_amount(&ds).map(|_| q) })), res_pool(cu!({ let mut q = sp; q.apply_delta_to_short_amount(&ds).map(|_| q) }))),
        ("apply_both", res_pool(cu!(pp.checked_apply_delta(Delta::new_both_sides(true, &dl, &ds)))), res_pool(cu!(sp.checked_apply_delta(Delta::new_both_sides(true, &dl, &ds))))),
        ("cancel", res_pool(cu!(pp.checked_cancel_amounts())), res_pool(cu!(sp.checked_cancel_amounts()))),
    ];
    for (name, a, b) in ops {
        let tag = format!("pool/{name}/{}", if a == b { "same" } else { "differs" });
        emit(&tag, &format!("PoolOp {} {} {} {} {} {} {a} {b}", qs(name), raw[0], z(l), z(s), z(dl), z(ds)));
    }
}

// ---------------------------------------------------------------- E. order fee discount
fn discount(rng: &mut Rng) {
    let mut s: Box<sa::Store> = Box::new(bytemuck::Zeroable::zeroed());
    let unit: u128 = 100_000_000_000_000_000_000;
    s.gt.max_rank = match rng.below(6) { 0 => 0, 1 => 15, 2 => 16, 3 => rng.below(40), _ => rng.below(16) };
    for i in 0..s.gt.order_fee_discount_factors.len() {
        // rank factors are validated <= UNIT when they are set (GtState::set_order_fee_discount_factors)
        s.gt.order_fee_discount_factors[i] = match rng.below(5) { 0 => 0, 1 => unit, 2 => unit - 1, _ => rng.uint(67) % (unit + 1) };
    }
    s.factor.order_fee_discount_for_referred_user = match rng.below(6) { 0 => 0, 1 => unit, 2 => unit + 1, 3 => rng.uint(128), _ => rng.uint(67) % (unit + 1) };
    let p: Box<Store> = Box::new(bytemuck::pod_read_unaligned(bytemuck::bytes_of(&*s)));
    let rank = rng.below(20) as u8;
    let referred = rng.chance(1, 2);
    let show = |r: std::thread::Result<Result<u128, ()>>| match r {
        Err(_) => "RPanic".to_string(),
        Ok(Err(())) => "RErr".to_string(),
        Ok(Ok(v)) => format!("(RNum {v})"),
    };
    let a = show(std::panic::catch_unwind(std::panic::AssertUnwindSafe(|| p.order_fee_discount_factor(rank, referred).map_err(|_| ()))));
    let b = show(std::panic::catch_unwind(std::panic::AssertUnwindSafe(|| s.order_fee_discount_factor(rank, referred).map_err(|_| ()))));
    let tag = format!("discount/{}", if a == b { "same" } else { "differs" });
    emit(&tag, &format!(
        "Discount {} {} {} {} {} {a} {b}",
        z(s.gt.max_rank), z(rank), b_(referred), z(s.gt.order_fee_discount_factors[(rank as usize).min(15)]), z(s.factor.order_fee_discount_for_referred_user)
    ));
}
fn b_(v: bool) -> &'static str {
    if v { "true" } else { "false" }
}


// ---------------------------------------------------------------- F. actions on both sides
mod act {
    use super::*;
    use anchor_lang::prelude::{Account, AccountLoader};
    use anchor_lang::Discriminator;
    use anchor_spl::token::spl_token::state::Mint as SplMint;
    use anchor_spl::token::Mint;
    use gmsol_model::action::decrease_position::DecreasePositionFlags;
    use gmsol_model::price::{Price, Prices};
    use gmsol_model::{
        Bank, BaseMarket, BorrowingFeeMarket, LiquidityMarket, LiquidityMarketMutExt, MarketAction, PerpMarket, PerpMarketMutExt,
        PositionImpactMarket, PositionImpactMarketMutExt, PositionMutExt, PositionState, SwapMarketMutExt,
    };
    use gmsol_programs::model::{MarketModel, PositionModel};
    use gmsol_store::states::Position;
    use gmsol_verif_harness::g7rt::{leak_info, Acct};
    use solana_program_pack_shim::pack_mint;

    pub mod solana_program_pack_shim {
        use anchor_lang::solana_program::program_pack::Pack;
        pub fn pack_mint(m: &super::SplMint) -> Vec<u8> {
            let mut v = vec![0u8; super::SplMint::LEN];
            super::SplMint::pack(*m, &mut v).unwrap();
            v
        }
    }

    fn fnv(s: &str) -> u64 {
        let mut h: u64 = 0xcbf29ce484222325;
        for b in s.bytes() {
            h ^= b as u64;
            h = h.wrapping_mul(0x100000001b3);
        }
        h
    }
    fn real_now() -> i64 {
        std::time::SystemTime::now().duration_since(std::time::UNIX_EPOCH).unwrap().as_secs() as i64
    }
    fn oz2(r: gmsol_model::Result<u128>) -> String {
        r.map(vz).unwrap_or("VErr".into())
    }
    fn pool2<P: gmsol_model::Balance<Num = u128>>(out: &mut Obs, name: &str, p: gmsol_model::Result<&P>) {
        match p {
            Err(_) => {
                out.push((format!("{name}.long"), "VErr".into()));
                out.push((format!("{name}.short"), "VErr".into()));
            }
            Ok(p) => {
                out.push((format!("{name}.long"), oz2(p.long_amount())));
                out.push((format!("{name}.short"), oz2(p.short_amount())));
            }
        }
    }
    fn side(l: bool) -> &'static str {
        if l { "long" } else { "short" }
    }
    fn obs_base<M: BaseMarket<DEC, Num = u128>>(m: &M, out: &mut Obs) {
        pool2(out, "primary", m.liquidity_pool());
        pool2(out, "claimable_fee", m.claimable_fee_pool());
        pool2(out, "swap_impact", m.swap_impact_pool());
        for l in [true, false] {
            pool2(out, &format!("open_interest_for_{}", side(l)), m.open_interest_pool(l));
            pool2(out, &format!("open_interest_in_tokens_for_{}", side(l)), m.open_interest_in_tokens_pool(l));
            pool2(out, &format!("collateral_sum_for_{}", side(l)), m.collateral_sum_pool(l));
        }
    }
    fn obs_fees<M: PositionImpactMarket<DEC, Num = u128> + BorrowingFeeMarket<DEC>>(m: &M, out: &mut Obs) {
        pool2(out, "position_impact", m.position_impact_pool());
        pool2(out, "borrowing_factor", m.borrowing_factor_pool());
        pool2(out, "total_borrowing", m.total_borrowing_pool());
        out.push(("passed.position_impact_distribution".into(), m.passed_in_seconds_for_position_impact_distribution().map(vz).unwrap_or("VErr".into())));
        out.push(("passed.borrowing".into(), m.passed_in_seconds_for_borrowing().map(vz).unwrap_or("VErr".into())));
    }
    fn obs_perp<M: PerpMarket<DEC, Num = u128, Signed = i128>>(m: &M, out: &mut Obs) {
        out.push(("funding_factor_per_second".into(), vz(*m.funding_factor_per_second())));
        for l in [true, false] {
            pool2(out, &format!("funding_amount_per_size_for_{}", side(l)), m.funding_amount_per_size_pool(l));
            pool2(out, &format!("claimable_funding_amount_per_size_for_{}", side(l)), m.claimable_funding_amount_per_size_pool(l));
        }
    }
    fn obs_bank<M: Bank<Pubkey, Num = u64>>(m: &M, long: &Pubkey, short: &Pubkey, out: &mut Obs) {
        out.push(("balance.long".into(), m.balance(long).map(vz).unwrap_or("VErr".into())));
        out.push(("balance.short".into(), m.balance(short).map(vz).unwrap_or("VErr".into())));
    }
    fn obs_pos<P: PositionState<DEC, Num = u128>>(p: &P, out: &mut Obs) {
        out.push(("position.collateral_amount".into(), vz(*p.collateral_amount())));
        out.push(("position.size_in_usd".into(), vz(*p.size_in_usd())));
        out.push(("position.size_in_tokens".into(), vz(*p.size_in_tokens())));
        out.push(("position.borrowing_factor".into(), vz(*p.borrowing_factor())));
        out.push(("position.funding_fee_amount_per_size".into(), vz(*p.funding_fee_amount_per_size())));
        out.push(("position.claimable_funding_fee_amount_per_size.long".into(), vz(*p.claimable_funding_fee_amount_per_size(true))));
        out.push(("position.claimable_funding_fee_amount_per_size.short".into(), vz(*p.claimable_funding_fee_amount_per_size(false))));
    }
    fn report<T: std::fmt::Debug>(out: &mut Obs, r: gmsol_model::Result<T>) {
        match r {
            Ok(v) => {
                out.push(("report.ok".into(), vz(1)));
                out.push(("report.hash".into(), vz(fnv(&format!("{v:?}")))));
            }
            Err(e) => {
                if std::env::var("G7_DEBUG").is_ok() {
                    eprintln!("action error: {e}");
                }
                out.push(("report.ok".into(), vz(0)));
                out.push(("report.hash".into(), vz(fnv(&format!("{e}")))));
            }
        }
    }

    pub struct Setup {
        pub market_bytes: Vec<u8>,
        pub position_bytes: Vec<u8>,
        pub supply: u64,
        pub long: Pubkey,
        pub short: Pubkey,
        pub prices: Prices<u128>,
        pub deltas: (i64, i64, i64),
    }

    /// A market in a plausible trading state; clocks are `now - delta`.
    pub fn setup(rng: &mut Rng, now: i64) -> Setup {
        let mut m: Box<Market> = Box::new(bytemuck::Zeroable::zeroed());
        let long = rand_key(rng);
        let pure = rng.chance(1, 5);
        let short = if pure { long } else { rand_key(rng) };
        g7rt::set_now(now);
        let market_token = rand_key(rng);
        m.init(255, rand_key(rng), "SOL/USD[WSOL-USDC]", market_token, rand_key(rng), long, short, true).expect("init");
        // a few config variations on top of the defaults
        let unit: u128 = 100_000_000_000_000_000_000;
        for (k, v) in [
            ("swap_fee_factor_for_positive_impact", unit / 2000), ("swap_fee_factor_for_negative_impact", unit / 1000),
            ("swap_impact_positive_factor", rng.below(4) as u128 * 1_000_000_000), ("swap_impact_negative_factor", rng.below(4) as u128 * 2_000_000_000),
            ("max_pool_amount_for_long_token", u64::MAX as u128), ("max_pool_amount_for_short_token", u64::MAX as u128),
            ("max_pool_value_for_deposit_for_long_token", u128::MAX / 4), ("max_pool_value_for_deposit_for_short_token", u128::MAX / 4),
            ("max_open_interest_for_long", unit * 1_000_000_000), ("max_open_interest_for_short", unit * 1_000_000_000),
            ("min_position_impact_pool_amount", rng.below(1000) as u128),
        ] {
            *m.get_config_mut(k).unwrap() = v;
        }
        if rng.chance(1, 4) {
            m.set_flag(MarketFlag::Closed, true);
            m.set_config_flag("enable_market_closed_params", rng.chance(1, 2)).unwrap();
        }
        let mut s: Box<sa::Market> = Box::new(bytemuck::pod_read_unaligned(bytemuck::bytes_of(&*m)));
        // prices: long token 9 decimals around 150 USD, short token 6 decimals around 1 USD
        let pl = 150 * unit / 1_000_000_000 * (90 + rng.below(20) as u128) / 100;
        let psh = if pure { pl } else { unit / 1_000_000 };
        let spread = |p: u128, rng: &mut Rng| Price { min: p - p / (1000 + rng.below(1000) as u128), max: p };
        let prices = Prices { index_token_price: spread(pl, rng), long_token_price: spread(pl, rng), short_token_price: spread(psh, rng) };
        let long_amt = 1_000_000_000_000u128 + rng.below(1_000_000_000_000) as u128; // ~1000-2000 SOL
        let short_amt = if pure { 0 } else { 150_000_000_000u128 + rng.below(150_000_000_000) as u128 }; // ~150k-300k USDC
        s.state.pools.primary.pool.long_token_amount = if pure { long_amt * 2 } else { long_amt };
        s.state.pools.primary.pool.short_token_amount = short_amt;
        s.state.pools.swap_impact.pool.long_token_amount = rng.below(1_000_000_000) as u128;
        s.state.pools.swap_impact.pool.short_token_amount = if pure { 0 } else { rng.below(1_000_000) as u128 };
        s.state.pools.position_impact.pool.long_token_amount = rng.below(10_000_000_000) as u128;
        // open interest: some longs and shorts, with matching token amounts and collateral
        let oi_l = unit * (10_000 + rng.below(50_000) as u128);
        let oi_s = unit * (10_000 + rng.below(50_000) as u128);
        let split = |rng: &mut Rng, v: u128| { let a = v * (rng.below(101) as u128) / 100; (a, v - a) };
        let (a, b2) = split(rng, oi_l);
        if pure { s.state.pools.open_interest_for_long.pool.long_token_amount = oi_l; } else { s.state.pools.open_interest_for_long.pool.long_token_amount = a; s.state.pools.open_interest_for_long.pool.short_token_amount = b2; }
        let (a, b2) = split(rng, oi_s);
        if pure { s.state.pools.open_interest_for_short.pool.long_token_amount = oi_s; } else { s.state.pools.open_interest_for_short.pool.long_token_amount = a; s.state.pools.open_interest_for_short.pool.short_token_amount = b2; }
        let tok = |usd: u128| usd / pl;
        let (a, b2) = split(rng, tok(oi_l));
        if pure { s.state.pools.open_interest_in_tokens_for_long.pool.long_token_amount = tok(oi_l); } else { s.state.pools.open_interest_in_tokens_for_long.pool.long_token_amount = a; s.state.pools.open_interest_in_tokens_for_long.pool.short_token_amount = b2; }
        let (a, b2) = split(rng, tok(oi_s));
        if pure { s.state.pools.open_interest_in_tokens_for_short.pool.long_token_amount = tok(oi_s); } else { s.state.pools.open_interest_in_tokens_for_short.pool.long_token_amount = a; s.state.pools.open_interest_in_tokens_for_short.pool.short_token_amount = b2; }
        s.state.pools.collateral_sum_for_long.pool.long_token_amount = rng.below(100_000_000_000) as u128;
        s.state.pools.collateral_sum_for_short.pool.long_token_amount = rng.below(100_000_000_000) as u128;
        if !pure {
            s.state.pools.collateral_sum_for_long.pool.short_token_amount = rng.below(10_000_000_000) as u128;
            s.state.pools.collateral_sum_for_short.pool.short_token_amount = rng.below(10_000_000_000) as u128;
        }
        s.state.pools.borrowing_factor.pool.long_token_amount = rng.below(1 << 50) as u128;
        s.state.pools.borrowing_factor.pool.short_token_amount = rng.below(1 << 50) as u128;
        s.state.pools.total_borrowing.pool.long_token_amount = rng.below(1 << 60) as u128;
        s.state.pools.total_borrowing.pool.short_token_amount = rng.below(1 << 60) as u128;
        for p in [&mut s.state.pools.funding_amount_per_size_for_long, &mut s.state.pools.funding_amount_per_size_for_short,
                  &mut s.state.pools.claimable_funding_amount_per_size_for_long, &mut s.state.pools.claimable_funding_amount_per_size_for_short] {
            p.pool.long_token_amount = rng.below(1 << 40) as u128;
            if !pure { p.pool.short_token_amount = rng.below(1 << 40) as u128; }
        }
        s.state.other.funding_factor_per_second = (rng.below(1 << 30) as i128) - (1 << 29);
        s.state.other.long_token_balance = (if pure { long_amt * 2 } else { long_amt } as u64).saturating_add(200_000_000_000);
        s.state.other.short_token_balance = (short_amt as u64).saturating_add(20_000_000_000);
        let deltas = (rng.below(100_000) as i64, rng.below(100_000) as i64, rng.below(100_000) as i64);
        s.state.clocks.price_impact_distribution = now - deltas.0;
        s.state.clocks.borrowing = now - deltas.1;
        s.state.clocks.funding = now - deltas.2;
        // an existing position of the same market (long or short, either collateral)
        let mut p: Box<sa::Position> = Box::new(bytemuck::Zeroable::zeroed());
        let is_long = rng.chance(1, 2);
        p.kind = if is_long { 1 } else { 2 };
        p.store = s.store;
        p.owner = rand_key(rng);
        p.market_token = market_token;
        p.collateral_token = if rng.chance(1, 2) { long } else { short };
        if rng.chance(3, 4) {
            let size = unit * (100 + rng.below(5000) as u128);
            p.state.size_in_usd = size;
            p.state.size_in_tokens = size / pl;
            p.state.collateral_amount = if p.collateral_token == long { size / pl / (2 + rng.below(8) as u128) } else { size / psh / (2 + rng.below(8) as u128) };
            p.state.borrowing_factor = s.state.pools.borrowing_factor.pool.long_token_amount.min(s.state.pools.borrowing_factor.pool.short_token_amount) / 2;
            p.state.increased_at = now - 1000;
        }
        Setup { market_bytes: bytemuck::bytes_of(&*s).to_vec(), position_bytes: bytemuck::bytes_of(&*p).to_vec(), supply: 1_000_000_000_000 + rng.below(1 << 40), long, short, prices, deltas }
    }

    fn with_disc<T: Discriminator>(bytes: &[u8]) -> Vec<u8> {
        let mut d = T::DISCRIMINATOR.to_vec();
        d.extend_from_slice(bytes);
        d
    }

    /// Run action `kind` on both sides of the same state; returns (program observations, SDK observations).
    pub fn run(st: &Setup, kind: u64, args: &[u128]) -> (Obs, Obs) {
        let pid = gmsol_store::ID;
        let market_info = leak_info(&Acct::new(Pubkey::new_unique(), pid, with_disc::<Market>(&st.market_bytes)), false, true);
        let market_info: &'static _ = Box::leak(Box::new(market_info));
        let loader: &'static AccountLoader<'static, Market> = Box::leak(Box::new(AccountLoader::try_from(market_info).expect("market loader")));
        let ev: &'static _ = Box::leak(Box::new(leak_info(&Acct::wallet(Pubkey::new_unique()), false, false)));
        let prices = st.prices.clone();
        let (mut po, mut so): (Obs, Obs) = (vec![], vec![]);
        let sdk_m = MarketModel::from_parts(sdk_market(&st.market_bytes), st.supply);
        match kind {
            0 | 1 | 2 => {
                let f = |m: &mut gmsol_store::states::market::revertible::RevertibleMarket<'static, 'static>| {
                    let mut o: Obs = vec![];
                    match kind {
                        0 => report(&mut o, m.swap(args[0] == 1, args[1], prices.clone()).and_then(|a| a.execute())),
                        1 => report(&mut o, m.update_funding(&prices).and_then(|a| a.execute())),
                        _ => report(&mut o, m.distribute_position_impact().and_then(|a| a.execute())),
                    }
                    obs_base(m, &mut o);
                    obs_fees(m, &mut o);
                    obs_perp(m, &mut o);
                    obs_bank(m, &st.long, &st.short, &mut o);
                    o
                };
                po = gmsol_store::verif_hooks_g9::with_revertible_market(loader, ev, 255, false, f).expect("revertible market");
                let mut m = sdk_m;
                match kind {
                    0 => report(&mut so, m.swap(args[0] == 1, args[1], prices.clone()).and_then(|a| a.execute())),
                    1 => report(&mut so, m.update_funding(&prices).and_then(|a| a.execute())),
                    _ => report(&mut so, m.distribute_position_impact().and_then(|a| a.execute())),
                }
                obs_base(&m, &mut so);
                obs_fees(&m, &mut so);
                obs_perp(&m, &mut so);
                obs_bank(&m, &st.long, &st.short, &mut so);
            }
            3 | 4 => {
                let mint = SplMint { mint_authority: Default::default(), supply: st.supply, decimals: 9, is_initialized: true, freeze_authority: Default::default() };
                let mint_info: &'static _ = Box::leak(Box::new(leak_info(&Acct::new(Pubkey::new_unique(), anchor_spl::token::ID, pack_mint(&mint)), false, true)));
                let mint_acc: &'static Account<'static, Mint> = Box::leak(Box::new(Account::try_from(mint_info).expect("mint account")));
                let tp: &'static _ = Box::leak(Box::new(leak_info(&Acct::program(anchor_spl::token::ID), false, false)));
                let mut store: Box<Store> = Box::new(bytemuck::Zeroable::zeroed());
                store.init(Pubkey::new_unique(), "", 255, Pubkey::new_unique(), Pubkey::new_unique()).expect("store");
                let store_info: &'static _ = Box::leak(Box::new(leak_info(&Acct::new(Pubkey::new_unique(), pid, with_disc::<Store>(bytemuck::bytes_of(&*store))), false, false)));
                let store_loader: &'static AccountLoader<'static, Store> = Box::leak(Box::new(AccountLoader::try_from(store_info).expect("store loader")));
                let f = |m: &mut gmsol_store::states::market::revertible::RevertibleLiquidityMarket<'static, 'static>| {
                    let mut o: Obs = vec![];
                    if kind == 3 {
                        report(&mut o, m.deposit(args[0], args[1], prices.clone()).and_then(|a| a.execute()));
                    } else {
                        report(&mut o, m.withdraw(args[0], prices.clone()).and_then(|a| a.execute()));
                    }
                    obs_base(m, &mut o);
                    obs_fees(m, &mut o);
                    o.push(("total_supply".into(), vz(m.total_supply())));
                    obs_bank(m, &st.long, &st.short, &mut o);
                    o
                };
                po = gmsol_store::verif_hooks_g7::with_revertible_liquidity_market(loader, mint_acc, tp, store_loader, ev, 255, f).expect("liquidity market");
                let mut m = sdk_m;
                if kind == 3 {
                    report(&mut so, m.deposit(args[0], args[1], prices.clone()).and_then(|a| a.execute()));
                } else {
                    report(&mut so, m.withdraw(args[0], prices.clone()).and_then(|a| a.execute()));
                }
                obs_base(&m, &mut so);
                obs_fees(&m, &mut so);
                so.push(("total_supply".into(), vz(m.total_supply())));
                obs_bank(&m, &st.long, &st.short, &mut so);
            }
            _ => {
                let pos_info: &'static _ = Box::leak(Box::new(leak_info(&Acct::new(Pubkey::new_unique(), pid, with_disc::<Position>(&st.position_bytes)), false, true)));
                let pos_loader: &'static AccountLoader<'static, Position> = Box::leak(Box::new(AccountLoader::try_from(pos_info).expect("position loader")));
                let flags = DecreasePositionFlags { is_insolvent_close_allowed: args[3] == 1, is_liquidation_order: false, is_cap_size_delta_usd_allowed: args[4] == 1 };
                let f = |p: &mut gmsol_store::states::market::revertible::RevertiblePosition<'static, 'static>| {
                    let mut o: Obs = vec![];
                    if kind == 5 {
                        report(&mut o, p.increase(prices.clone(), args[0], args[1], None).and_then(|a| a.execute()));
                    } else {
                        report(&mut o, p.decrease(prices.clone(), args[1], None, args[2], flags.clone()).and_then(|a| a.execute()));
                    }
                    obs_pos(p, &mut o);
                    {
                        use gmsol_model::Position as _;
                        let m = p.market();
                        obs_base(m, &mut o);
                        obs_fees(m, &mut o);
                        obs_perp(m, &mut o);
                        obs_bank(m, &st.long, &st.short, &mut o);
                    }
                    o
                };
                match gmsol_store::verif_hooks_g7::with_revertible_position(loader, pos_loader, true, 0, ev, 255, f) {
                    Ok(o) => po = o,
                    Err(_) => po.push(("construct".into(), "VErr".into())),
                }
                let sp: Arc<sa::Position> = Arc::new(bytemuck::pod_read_unaligned(&st.position_bytes));
                match PositionModel::new(sdk_m, sp) {
                    Err(_) => so.push(("construct".into(), "VErr".into())),
                    Ok(mut p) => {
                        if kind == 5 {
                            report(&mut so, p.increase(prices.clone(), args[0], args[1], None).and_then(|a| a.execute()));
                        } else {
                            report(&mut so, p.decrease(prices.clone(), args[1], None, args[2], flags.clone()).and_then(|a| a.execute()));
                        }
                        obs_pos(&p, &mut so);
                        let m = p.market_model();
                        obs_base(m, &mut so);
                        obs_fees(m, &mut so);
                        obs_perp(m, &mut so);
                        obs_bank(m, &st.long, &st.short, &mut so);
                    }
                }
            }
        }
        (po, so)
    }

    pub fn one(rng: &mut Rng) {
        let kind = *rng.pick(&[0u64, 0, 1, 2, 3, 3, 4, 5, 5, 6, 6]);
        for _attempt in 0..5 {
            let mut r2 = rng.clone();
            let t0 = real_now();
            let st = setup(&mut r2, t0);
            let unit: u128 = 100_000_000_000_000_000_000;
            let args: Vec<u128> = match kind {
                0 => vec![r2.below(2) as u128, match r2.below(5) { 0 => 0, 1 => 1, 2 => u64::MAX as u128, _ => r2.below(50_000_000_000) as u128 }],
                1 | 2 => vec![],
                3 => vec![if r2.chance(1, 5) { 0 } else { r2.below(100_000_000_000) as u128 }, if r2.chance(1, 3) { 0 } else { r2.below(10_000_000_000) as u128 }],
                4 => vec![match r2.below(5) { 0 => 0, 1 => st.supply as u128, 2 => st.supply as u128 + 1, _ => r2.below(st.supply / 50) as u128 }],
                5 => vec![r2.below(10_000_000_000) as u128, unit * r2.below(20_000) as u128, 0, 0, 0],
                _ => vec![0, match r2.below(4) { 0 => u128::MAX, 1 => 0, _ => unit * r2.below(6000) as u128 }, r2.below(1_000_000_000) as u128, r2.below(2) as u128, r2.below(2) as u128],
            };
            let (po, so) = run(&st, kind, &args);
            if real_now() != t0 {
                continue; // the wall clock ticked between the two sides: redo with the same random choices
            }
            *rng = r2;
            let names = ["swap", "update_funding", "distribute_position_impact", "deposit", "withdraw", "increase", "decrease"];
            let same = po == so;
            let okp = po.iter().find(|x| x.0 == "report.ok").map(|x| x.1 == "(VZ 1)").unwrap_or(false);
            let f = |o: &Obs| format!("[{}]", o.iter().map(|(k, v)| format!("({}, {v})", qs(k))).collect::<Vec<_>>().join("; "));
            let mut a: Vec<String> = args.iter().map(|x| z(*x)).collect();
            a.push(z(st.deltas.0));
            a.push(z(st.deltas.1));
            a.push(z(st.deltas.2));
            emit(
                &format!("act/{}/{}/{}", names[kind as usize], if okp { "ok" } else { "err" }, if same { "same" } else { "differs" }),
                &format!("Act {} [{}] {} {}", qs(names[kind as usize]), a.join("; "), f(&po), f(&so)),
            );
            return;
        }
        emit("act/skipped/trivial", &format!("Act {} [] [] []", qs("skipped")));
    }
}

fn main() {
    let a = args();
    let mut rng = Rng::new(a.seed);
    silence_panics();
    g7rt::install_stubs();
    let _ = Arc::new(0);
    sizes();
    let n = std::mem::size_of::<Market>();
    decode("zero", &vec![0u8; n]);
    decode("ones", &vec![0xffu8; n]);
    for i in 0..a.n {
        match i % 10 {
            0 => decode("random", &random_bytes(&mut rng, n)),
            1 | 2 => decode("structured", &structured_market(&mut rng, true)),
            3 => decode("structured-dirty", &structured_market(&mut rng, false)),
            4 | 5 => pool_ops(&mut rng),
            6 => discount(&mut rng),
            _ => act::one(&mut rng),
        }
    }
    if a.extra.iter().any(|x| x == "--no-bytemap") {
        return;
    }
    byte_map();
}
