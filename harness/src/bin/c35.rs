//! C35 driver: names through the real fixed-string helpers and through the program types that
//! store names (Store key, RoleMetadata, Market, TokenConfig, timelock Executor), plus the
//! enable -> grant -> has_role -> disable -> enable chain on a fresh RoleStore.
use anchor_lang::prelude::Pubkey;
use anchor_lang::solana_program::program_stubs;
use bytemuck::Zeroable;
use gmsol_store::states::{Market, RoleMetadata, RoleStore, Store};
use gmsol_store::CoreError;
use gmsol_utils::fixed_str::{bytes_to_fixed_str, fixed_str_to_bytes, FixedStrError};
use gmsol_verif_harness::*;

struct Stubs;
impl program_stubs::SyscallStubs for Stubs {
    fn sol_log(&self, _m: &str) {}
    fn sol_get_clock_sysvar(&self, var_addr: *mut u8) -> u64 {
        // Clock { slot, epoch_start_timestamp, epoch, leader_schedule_epoch, unix_timestamp }: 5 x 8 bytes
        let z = [0u8; 40];
        unsafe { std::ptr::copy_nonoverlapping(z.as_ptr(), var_addr, 40) };
        0
    }
    fn sol_get_last_restart_slot(&self, var_addr: *mut u8) -> u64 {
        let z = [0u8; 8];
        unsafe { std::ptr::copy_nonoverlapping(z.as_ptr(), var_addr, 8) };
        0
    }
}

fn ferr(e: &FixedStrError) -> u32 {
    match e {
        FixedStrError::ExceedMaxLengthLimit => 1,
        FixedStrError::InvalidFormat => 2,
        FixedStrError::Utf8(_) => 3,
    }
}
fn aerr(e: &anchor_lang::error::Error) -> u32 {
    match e {
        anchor_lang::error::Error::AnchorError(a) => {
            let n = a.error_code_number;
            if n == u32::from(CoreError::ExceedMaxLengthLimit) { 1 }
            else if n == u32::from(CoreError::InvalidArgument) { 23 }
            else if n == u32::from(CoreError::PermissionDenied) { 5 }
            else if n == u32::from(CoreError::PreconditionsAreNotMet) { 2 }
            else if n == u32::from(CoreError::NotFound) { 4 }
            else { 99 }
        }
        _ => 98,
    }
}
/// RoleStore-level numbering of coq/C18/Model.v (InvalidArgument = 1, ExceedMaxLengthLimit = 3, ...)
fn rerr(e: &anchor_lang::error::Error) -> u32 {
    match e {
        anchor_lang::error::Error::AnchorError(a) => {
            let n = a.error_code_number;
            if n == u32::from(CoreError::InvalidArgument) { 1 }
            else if n == u32::from(CoreError::PreconditionsAreNotMet) { 2 }
            else if n == u32::from(CoreError::ExceedMaxLengthLimit) { 3 }
            else if n == u32::from(CoreError::NotFound) { 4 }
            else if n == u32::from(CoreError::PermissionDenied) { 5 }
            else { 99 }
        }
        _ => 98,
    }
}

fn rl_f(r: Result<&str, FixedStrError>) -> String {
    match r {
        Ok(s) => format!("(Ok {})", zl(s.as_bytes())),
        Err(e) => format!("(Err {})", ferr(&e)),
    }
}
fn rl_a(r: anchor_lang::Result<&str>) -> String {
    match r {
        Ok(s) => format!("(Ok {})", zl(s.as_bytes())),
        Err(e) => format!("(Err {})", aerr(&e)),
    }
}

/// A string whose byte length is aimed at `target` (exactly when possible), built from 1..4-byte characters.
fn gen_str(rng: &mut Rng, target: usize) -> String {
    let style = rng.below(6);
    let mut s = String::new();
    let chars: [&[char]; 4] = [&['a', 'Z', '0', '_', ' ', '~'], &['é', 'ß', '¢', 'Ω'], &['€', '中', 'ह', '\u{FFFD}'], &['𝄞', '😀', '\u{10FFFF}']];
    while s.len() < target {
        let room = target - s.len();
        let w = match style { 0 | 1 => 1, 2 => 1 + rng.below(2) as usize, 3 => 1 + rng.below(4) as usize, 4 => 4, _ => 3 }.min(room).max(1);
        let w = if w > room { 1 } else { w };
        let set = chars[w - 1];
        s.push(set[rng.below(set.len() as u64) as usize]);
    }
    // NUL placement
    match rng.below(12) {
        0 if !s.is_empty() => { // interior / leading / trailing NUL replacing an ASCII char or appended
            let mut b: Vec<char> = s.chars().collect();
            let i = rng.below(b.len() as u64) as usize;
            if b[i].len_utf8() == 1 { b[i] = '\0'; }
            s = b.into_iter().collect();
        }
        1 => s.insert(0, '\0'),
        2 => s.push('\0'),
        _ => {}
    }
    s
}

fn target_len(rng: &mut Rng, n: usize) -> usize {
    match rng.below(10) {
        0 => 0,
        1 => 1.min(n),
        2 => n.saturating_sub(1),
        3 | 4 => n,
        5 => n + 1,
        6 => 2 * n + rng.below(3) as usize,
        7 => n.saturating_sub(2),
        _ => rng.below(n as u64 + 1) as usize,
    }
}

macro_rules! rt {
    ($n:expr, $s:expr) => {{
        let s: &str = $s;
        let acc = fixed_str_to_bytes::<$n>(s);
        let (accs, rbs) = match &acc {
            Ok(b) => (format!("(Ok {})", zl(&b[..])), rl_f(bytes_to_fixed_str::<$n>(b))),
            Err(e) => (format!("(Err {})", ferr(e)), "(Err 0)".to_string()),
        };
        let out = match &acc { Err(_) => "rejected", Ok(b) => match bytes_to_fixed_str::<$n>(b) { Ok(x) if x == s => "roundtrip", Ok(_) => "truncated", Err(_) => "unreadable" } };
        emit(&format!("helper{}/{out}", $n), &format!("RT {} {} {accs} {rbs}", $n, zl(s.as_bytes())));
    }};
}

fn read_case(rng: &mut Rng) {
    // arbitrary stored bytes (what an account could contain), many of them not UTF-8
    let n = 32usize;
    let mut b = [0u8; 32];
    let fill = rng.below(n as u64 + 1) as usize;
    for x in b.iter_mut().take(fill) {
        *x = match rng.below(if fill % 2 == 0 { 8 } else { 40 }) { 0 => 0x80 + rng.below(0x40) as u8, 1 => 0xC0 + rng.below(0x40) as u8, 2 => rng.below(256) as u8, _ => 0x20 + rng.below(0x5F) as u8 };
    }
    // plant well-formed and ill-formed sequences
    let seqs: [&[u8]; 14] = [&[0xC2, 0x80], &[0xDF, 0xBF], &[0xC0, 0x80], &[0xC1, 0xBF], &[0xE0, 0xA0, 0x80], &[0xE0, 0x9F, 0xBF], &[0xED, 0x9F, 0xBF], &[0xED, 0xA0, 0x80],
        &[0xEF, 0xBF, 0xBF], &[0xF0, 0x90, 0x80, 0x80], &[0xF0, 0x8F, 0xBF, 0xBF], &[0xF4, 0x8F, 0xBF, 0xBF], &[0xF4, 0x90, 0x80, 0x80], &[0xF5, 0x80, 0x80, 0x80]];
    for _ in 0..rng.below(3) {
        let q = seqs[rng.below(14) as usize];
        let at = rng.below((n - q.len()) as u64 + 1) as usize;
        b[at..at + q.len()].copy_from_slice(q);
        if rng.chance(1, 3) && at + q.len() < n { b[at + q.len() - 1] = 0; } // truncated sequence right before a NUL
    }
    if rng.chance(1, 6) { for x in b.iter_mut() { if *x == 0 { *x = b'x'; } } } // no NUL at all
    let r = bytes_to_fixed_str::<32>(&b);
    let out = match &r { Ok(_) => "ok", Err(FixedStrError::InvalidFormat) => "no_nul", Err(_) => "bad_utf8" };
    emit(&format!("read/{out}"), &format!("Read {} {}", zl(&b[..]), rl_f(r)));
}

fn site_case(rng: &mut Rng, site: u64) {
    let width: usize = if site == 3 { 64 } else { 32 };
    let tl = target_len(rng, width);
    let s = gen_str(rng, tl);
    let (code, rb): (u32, String) = match site {
        1 => {
            let mut st: Box<Store> = Box::new(Store::zeroed());
            match st.init(Pubkey::new_unique(), &s, 255, Pubkey::new_unique(), Pubkey::new_unique()) {
                Ok(()) => (0, rl_a(st.key())),
                Err(e) => (aerr(&e), "(Err 0)".into()),
            }
        }
        2 => match RoleMetadata::new(&s, 3) {
            Ok(md) => (0, rl_a(md.name())),
            Err(e) => (aerr(&e), "(Err 0)".into()),
        },
        3 => {
            let mut m: Box<Market> = Box::new(Market::zeroed());
            let t = Pubkey::new_unique();
            match m.init(255, Pubkey::new_unique(), &s, Pubkey::new_unique(), t, t, Pubkey::new_unique(), true) {
                Ok(()) => (0, rl_a(m.name())),
                Err(e) => (aerr(&e), "(Err 0)".into()),
            }
        }
        4 => {
            // TokenConfigExt::update is pub(crate): its name line is `self.name = fixed_str_to_bytes(name)?`
            match gmsol_store::utils::fixed_str::fixed_str_to_bytes::<32>(&s) {
                Ok(b) => {
                    let mut tc = gmsol_utils::token_config::TokenConfig::zeroed();
                    tc.name = b;
                    let r = tc.name();
                    (0, match r { Ok(x) => format!("(Ok {})", zl(x.as_bytes())), Err(gmsol_utils::token_config::TokenConfigError::FixedStr(e)) => format!("(Err {})", ferr(&e)), Err(_) => "(Err 99)".into() })
                }
                Err(e) => (aerr(&e), "(Err 0)".into()),
            }
        }
        _ => {
            // Executor::try_init is pub(crate): `self.role_name = fixed_str_to_bytes(role_name)?`
            match gmsol_store::utils::fixed_str::fixed_str_to_bytes::<32>(&s) {
                Ok(b) => {
                    let mut ex = gmsol_timelock::states::executor::Executor::zeroed();
                    bytemuck::bytes_of_mut(&mut ex)[48..80].copy_from_slice(&b);
                    (0, rl_a(ex.role_name()))
                }
                Err(e) => (aerr(&e), "(Err 0)".into()),
            }
        }
    };
    let out = if code != 0 { "rejected" } else if rb == format!("(Ok {})", zl(s.as_bytes())) { "roundtrip" } else if rb.starts_with("(Ok") { "truncated" } else { "unreadable" };
    emit(&format!("site{site}/{out}"), &format!("Site {site} {width} {} {code} {rb}", zl(s.as_bytes())));
}

fn role_chain(rng: &mut Rng) {
    let tl = target_len(rng, 32);
    let s = gen_str(rng, tl);
    let a = Pubkey::new_from_array({ let mut b = [0u8; 32]; b[31] = 7; b });
    let mut rs = RoleStore::zeroed();
    let c = |r: anchor_lang::Result<()>| r.err().map(|e| rerr(&e)).unwrap_or(0);
    let e1 = c(rs.enable_role(&s));
    let g = c(rs.grant(&a, &s));
    let h = match rs.has_role(&a, &s) { Ok(v) => format!("(Ok {})", b(v)), Err(e) => format!("(Err {})", rerr(&e)) };
    let d = c(rs.disable_role(&s));
    let e2 = c(rs.enable_role(&s));
    let out = if e1 != 0 { "rejected" } else if g == 0 { "usable" } else { "created_unusable" };
    emit(&format!("role_chain/{out}"), &format!("RoleChain {} {e1} {g} {h} {d} {e2}", zl(s.as_bytes())));
}

fn main() {
    let a = args();
    silence_panics();
    program_stubs::set_syscall_stubs(Box::new(Stubs));
    let mut rng = Rng::new(a.seed);
    for i in 0..a.n {
        match i % 12 {
            0 => { let tl = target_len(&mut rng, 1); let s = gen_str(&mut rng, tl); rt!(1, &s) }
            1 => { let tl = target_len(&mut rng, 4); let s = gen_str(&mut rng, tl); rt!(4, &s) }
            2 | 3 => { let tl = target_len(&mut rng, 32); let s = gen_str(&mut rng, tl); rt!(32, &s) }
            4 => { let tl = target_len(&mut rng, 64); let s = gen_str(&mut rng, tl); rt!(64, &s) }
            5 => read_case(&mut rng),
            6 => site_case(&mut rng, 1),
            7 => site_case(&mut rng, 2),
            8 => site_case(&mut rng, 3),
            9 => { let k = if rng.chance(1, 2) { 4 } else { 5 }; site_case(&mut rng, k) }
            _ => role_chain(&mut rng),
        }
    }
}
