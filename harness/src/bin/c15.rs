//! C15 driver: op histories on single pool values — the program's `Pool`
//! (programs/store/src/states/market/pool.rs, built from its 48 raw bytes) and the SDK's
//! `Pool` (crates/programs/src/model/pool.rs, generated type with public fields).
//! One case = `Hist sdk dbg is_pure long short [(op, Obs code is_pure long short long_view short_view); ...]`.
use gmsol_model::{Balance, Delta, Pool as _, PoolExt};
use gmsol_verif_harness::*;
use std::panic::AssertUnwindSafe;

type PPool = gmsol_store::states::market::pool::Pool;
type SPool = gmsol_programs::gmsol_store::types::Pool;

fn raw(ip: u8, l: u128, s: u128) -> [u8; 48] {
    let mut b = [0u8; 48];
    b[0] = ip;
    b[16..32].copy_from_slice(&l.to_le_bytes());
    b[32..48].copy_from_slice(&s.to_le_bytes());
    b
}
fn fields(b: &[u8]) -> (u8, u128, u128) {
    (b[0], u128::from_le_bytes(b[16..32].try_into().unwrap()), u128::from_le_bytes(b[32..48].try_into().unwrap()))
}

trait P: Sized + Copy + gmsol_model::Pool<Num = u128, Signed = i128> {
    const SDK: bool;
    fn make(ip: u8, l: u128, s: u128) -> Self;
    fn get(&self) -> (u8, u128, u128);
}
impl P for PPool {
    const SDK: bool = false;
    fn make(ip: u8, l: u128, s: u128) -> Self {
        bytemuck::pod_read_unaligned(&raw(ip, l, s))
    }
    fn get(&self) -> (u8, u128, u128) {
        fields(bytemuck::bytes_of(self))
    }
}
impl P for SPool {
    const SDK: bool = true;
    fn make(ip: u8, l: u128, s: u128) -> Self {
        SPool { is_pure: ip, padding: [0; 15], long_token_amount: l, short_token_amount: s }
    }
    fn get(&self) -> (u8, u128, u128) {
        (self.is_pure, self.long_token_amount, self.short_token_amount)
    }
}

fn ecode(e: &gmsol_model::Error) -> u32 {
    match e {
        gmsol_model::Error::Computation("to opposite signed") => 1,
        gmsol_model::Error::Computation(_) => 1,
        gmsol_model::Error::Convert => 2,
        _ => 99,
    }
}
fn rz(r: Option<gmsol_model::Result<u128>>) -> String {
    match r {
        Some(Ok(v)) => format!("(Ok {v})"),
        Some(Err(e)) => format!("(Err {})", ecode(&e)),
        None => "(Err 100)".into(),
    }
}
fn oi(v: Option<i128>) -> String {
    match v {
        Some(x) => format!("(Some {})", z(x)),
        None => "None".into(),
    }
}

/// deltas aimed at the interesting places: emptying the pool, the type limits, parity flips
fn delta(rng: &mut Rng, cur: u128) -> i128 {
    let to_i = |x: u128| -> i128 { if x > i128::MAX as u128 { i128::MAX } else { x as i128 } };
    match rng.below(14) {
        0 => 0,
        1 => 1,
        2 => -1,
        3 => -to_i(cur),
        4 => (-to_i(cur)).wrapping_sub(1),
        5 => to_i(u128::MAX - cur),
        6 => to_i(u128::MAX - cur).wrapping_add(1),
        7 => to_i(u128::MAX - cur).wrapping_sub(1),
        8 => i128::MAX,
        9 => i128::MIN,
        10 => rng.below(1000) as i128 - 500,
        11 => -to_i(cur / 2),
        _ => rng.sint(128),
    }
}

fn history<T: P>(rng: &mut Rng) {
    let dbg = cfg!(debug_assertions);
    let ip: u8 = match rng.below(10) {
        0..=5 => 1,
        6 => 1 + rng.below(255) as u8,
        _ => 0,
    };
    let l = rng.uint(128);
    // a pure pool with a non-zero short field never arises in the program; produce it rarely
    let malformed = ip != 0 && rng.chance(1, 25);
    let s = if ip != 0 && !malformed { 0 } else { rng.uint(128) };
    let mut p = T::make(ip, l, s);
    let n = rng.range(1, 10) as usize;
    let mut ops = Vec::new();
    let mut any_fail = false;
    let mut any_cancel = false;
    for _ in 0..n {
        let (_, cl, cs) = p.get();
        let (op, code): (String, u32) = match rng.below(10) {
            0 | 1 => {
                let d = delta(rng, cl);
                let r = p.apply_delta_to_long_amount(&d);
                (format!("OLong {}", z(d)), r.err().map(|e| ecode(&e)).unwrap_or(0))
            }
            2 | 3 => {
                let d = delta(rng, if ip != 0 { cl } else { cs });
                let r = p.apply_delta_to_short_amount(&d);
                (format!("OShort {}", z(d)), r.err().map(|e| ecode(&e)).unwrap_or(0))
            }
            4 => {
                let is_long = rng.chance(1, 2);
                let d = delta(rng, if is_long || ip != 0 { cl } else { cs });
                let r = p.apply_delta_amount(is_long, &d);
                (format!("OSide {} {}", b(is_long), z(d)), r.err().map(|e| ecode(&e)).unwrap_or(0))
            }
            5 | 6 | 7 => {
                let dl = if rng.chance(3, 4) { Some(delta(rng, cl)) } else { None };
                let after_l = dl.and_then(|d| cl.checked_add_signed(d)).unwrap_or(cl);
                let ds = if rng.chance(3, 4) { Some(delta(rng, if ip != 0 { after_l } else { cs })) } else { None };
                let r = p.checked_apply_delta(Delta::new(dl.as_ref(), ds.as_ref()));
                let code = match r {
                    Ok(q) => { p = q; 0 }
                    Err(e) => ecode(&e),
                };
                (format!("ODelta {} {}", oi(dl), oi(ds)), code)
            }
            _ => {
                any_cancel = true;
                let r = no_panic(AssertUnwindSafe(|| p.checked_cancel_amounts()));
                let code = match r {
                    Some(Ok(q)) => { p = q; 0 }
                    Some(Err(e)) => ecode(&e),
                    None => 100,
                };
                ("OCancel".to_string(), code)
            }
        };
        if code != 0 { any_fail = true; }
        let (fi, fl, fs) = p.get();
        let lv = no_panic(AssertUnwindSafe(|| p.long_amount()));
        let sv = no_panic(AssertUnwindSafe(|| p.short_amount()));
        ops.push(format!("({op}, Obs {code} {fi} {fl} {fs} {} {})", rz(lv), rz(sv)));
    }
    let kind = if malformed { "malformed" } else if ip != 0 { "pure" } else { "impure" };
    let out = if malformed { "trivial" } else if any_fail && any_cancel { "fail+cancel" } else if any_fail { "fail" } else if any_cancel { "cancel" } else { "ok" };
    emit(
        &format!("{}_{kind}/{out}", if T::SDK { "sdk" } else { "prog" }),
        &format!("Hist {} {} {ip} {l} {s} [{}]", b(T::SDK), b(dbg), ops.join("; ")),
    );
}

fn main() {
    let a = args();
    silence_panics();
    let mut rng = Rng::new(a.seed);
    for _ in 0..a.n {
        if rng.chance(1, 2) { history::<PPool>(&mut rng) } else { history::<SPool>(&mut rng) }
    }
}
