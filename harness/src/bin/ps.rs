//! Position-system history driver (C07, C08, C09, C10): one case = one history of
//! update_fees_state / increase / decrease / liquidation / ADL operations over 2..6 positions
//! of the harness market, executed by the REAL gmsol-model actions.
//!
//! A failed operation leaves the world unchanged at program level (the store executes the
//! actions on a revertible buffer inside one transaction).  The model-crate actions mutate
//! the market/position in place, so this driver clones market+position before each
//! operation and restores them on Err; it records (aux `dirty`, and the tag suffix) whether
//! the real code had partially written before failing.
//!
//! `--mode c07|c08|c09|c10|mix` only changes the mixture of operations.
use gmsol_model::{
    action::decrease_position::{DecreasePositionFlags, DecreasePositionReport},
    action::increase_position::IncreasePositionReport,
    num::Unsigned,
    params::fee::PositionFees,
    price::{Price, Prices},
    BaseMarket, BaseMarketExt, BorrowingFeeMarketMutExt, MarketAction, PerpMarketMutExt, PnlFactorKind,
    PositionExt, PositionImpactMarketMutExt, PositionMutExt,
};
use gmsol_verif_harness::ps::{self, PsCfg};
use gmsol_verif_harness::vmarket::{TestMarket, TestPool, TestPosition};
use gmsol_verif_harness::*;

fn fees_s<T: Copy + std::fmt::Display>(f: &PositionFees<T>) -> String {
    let liq = match f.liquidation_fees() {
        Some(l) => format!("(Some ({}, {}, {}))", z(*l.fee_value()), z(*l.fee_amount()), z(*l.fee_amount_for_receiver())),
        None => "None".to_string(),
    };
    format!(
        "(MkFees {} {} {} {} {} {} {} {} {} {})",
        z(*f.paid_order_and_borrowing_fee_value()),
        z(*f.order_fees().fee_amounts().fee_amount_for_pool()),
        z(*f.order_fees().fee_amounts().fee_amount_for_receiver()),
        z(*f.order_fees().fee_value()),
        z(*f.borrowing_fees().fee_amount()),
        z(*f.borrowing_fees().fee_amount_for_receiver()),
        z(*f.funding_fees().amount()),
        z(*f.funding_fees().claimable_long_token_amount()),
        z(*f.funding_fees().claimable_short_token_amount()),
        liq
    )
}

fn inc_report_s<T: Unsigned + Copy + std::fmt::Display>(r: &IncreasePositionReport<T, T::Signed>) -> String
where
    T::Signed: Copy + std::fmt::Display,
{
    let e = r.execution();
    let (cl, cs) = r.claimable_funding_amounts();
    format!(
        "(MkIncReport {} {} {} {} {} {} {} {})",
        z(*e.price_impact_value()), z(*e.price_impact_amount()), z(*e.size_delta_in_tokens()), z(*e.execution_price()),
        z(*r.collateral_delta_amount()), fees_s(r.fees()), z(*cl), z(*cs)
    )
}

fn dec_report_s<T: Unsigned + Copy + std::fmt::Display>(r: &DecreasePositionReport<T, T::Signed>) -> String
where
    T::Signed: Copy + std::fmt::Display,
{
    use gmsol_model::position::InsolventCloseStep as S;
    let step = match r.insolvent_close_step() {
        None => "None".to_string(),
        Some(S::Pnl) => "(Some 0)".into(),
        Some(S::Fees) => "(Some 1)".into(),
        Some(S::Funding) => "(Some 2)".into(),
        Some(S::Impact) => "(Some 3)".into(),
        Some(S::Diff) => "(Some 4)".into(),
        Some(_) => "(Some 9)".into(),
    };
    let (cl, cs) = r.claimable_funding_amounts();
    format!(
        "(MkDecReport {} {} {} {} {} {} {} {} {} {} {} {} {} {} {} {} {} {} {})",
        z(*r.price_impact_value()), z(*r.price_impact_diff()), z(*r.execution_price()), z(*r.size_delta_in_tokens()),
        z(*r.withdrawable_collateral_amount()), z(*r.size_delta_usd()), fees_s(r.fees()),
        z(*r.pnl().pnl()), z(*r.pnl().uncapped_pnl()), step, b(r.should_remove()),
        z(*r.output_amount()), z(*r.secondary_output_amount()), z(*cl), z(*cs),
        z(*r.claimable_collateral_for_holding().output_token_amount()),
        z(*r.claimable_collateral_for_holding().secondary_output_token_amount()),
        z(*r.claimable_collateral_for_user().output_token_amount()),
        z(*r.claimable_collateral_for_user().secondary_output_token_amount())
    )
}

/// A scripted history (replays of findings made during design); numbers in the scale of the width.
#[derive(Clone)]
pub struct Script<T> {
    pub cfg: PsCfg<T>,
    pub primary: (T, T),
    pub impact_pool: T,
    /// (is_long, is_collateral_token_long) per position
    pub positions: Vec<(bool, bool)>,
    pub ops: Vec<SOp<T>>,
}
#[derive(Clone, Copy)]
pub enum SOp<T> {
    /// position, (index, long, short) mid prices, collateral increment, size delta
    Inc(usize, (T, T, T), T, T),
    /// position, prices, size delta, collateral withdrawal
    Dec(usize, (T, T, T), T, T),
    /// clock advance in seconds, then update_fees_state at the prices
    Fees(u64, (T, T, T)),
}

macro_rules! gen_for {
    ($fname:ident, $U:ty, $S:ty, $W:expr, $DEC:expr) => {
        #[allow(clippy::too_many_lines, unused_assignments)]
        fn $fname(rng: &mut Rng, mode: &str, script: Option<&Script<$U>>) {
            type M = TestMarket<$U, $DEC>;
            type P = TestPosition<$U, $DEC>;
            let w: u32 = $W;
            let dec: u8 = $DEC;
            let big = w == 128;
            let unit: $U = (10 as $U).pow($DEC as u32);
            let pct = |bp: u64| -> $U { unit / 10_000 * (bp as $U) }; // basis points as a factor
            // log-uniform integer in [lo, hi]
            let logu = |r: &mut Rng, lo: $U, hi: $U| -> $U {
                let lo = lo.max(1);
                let hi = hi.max(lo);
                let bl = |x: $U| (<$U>::BITS - x.leading_zeros()) as u64;
                let bits = r.range(bl(lo), bl(hi)) as u32;
                let x = (r.next128() as $U) & ((((1 as $U) << (bits - 1)) - 1) | ((1 as $U) << (bits - 1)));
                let x = x | ((1 as $U) << (bits - 1));
                x.clamp(lo, hi)
            };
            // ---------------------------------------------------------------- scenario scales
            let tiny_tokens = rng.chance(1, 5); // very high index price: positions of a handful of tokens
            let (p_lo, p_hi): ($U, $U) = if big {
                if tiny_tokens { (unit, unit * 200) } else { (unit / 10_000_000_000, unit / 1_000_000) }
            } else if tiny_tokens { (unit, unit * 100) } else { (20, 5000) };
            let mut index_mid: $U = logu(rng, p_lo, p_hi);
            let long_is_index = rng.chance(2, 3);
            let mut long_mid: $U = if long_is_index { index_mid } else { logu(rng, p_lo, p_hi) };
            let short_mid: $U = if big { logu(rng, unit / 1_000_000_000_000, unit / 100_000_000) } else { logu(rng, 1, 2000) };
            let (usd_lo, usd_hi): ($U, $U) = if big { (unit * 10, unit * 1_000_000) } else { (unit * 10, unit * 20_000) };
            let spread_bp: u64 = *rng.pick(&[0, 0, 1, 10, 100]);
            let mk_price = |r: &mut Rng, mid: $U| -> Price<$U> {
                let s = mid / 10_000 * (spread_bp as $U) + if spread_bp > 0 { r.below(2) as $U } else { 0 };
                Price { min: mid.saturating_sub(s / 2).max(1), max: mid.saturating_add(s - s / 2).max(1) }
            };

            // ---------------------------------------------------------------- configuration
            let f_impact: $U = if big { unit / 1_000_000_000 * (*rng.pick(&[1u64, 2, 10, 50]) as $U) } else { *rng.pick(&[1u64, 2, 10, 50]) as $U };
            let exp_k: u64 = *rng.pick(&[1, 1, 2, 2, 2, 2, 2, 3]);
            // with exponent 1 the factor is a plain proportion of the imbalance
            let (ip_pos, ip_neg): ($U, $U) = {
                let base: $U = if exp_k == 1 { pct(*rng.pick(&[1u64, 5, 20])) } else if exp_k == 3 && !big { 0 } else if exp_k == 3 { f_impact / 1_000_000_000 / 1000 } else { f_impact };
                match if mode == "c10" { rng.range(1, 7) } else { rng.below(6) } { 0 => (0, base), 1 => (base, base), 2 => (base.saturating_mul(2), base), 3 => (0, 0), _ => (base, base.saturating_mul(2)) }
            };
            let max_neg: $U = pct(*rng.pick(&[10u64, 50, 100, 0]));
            let max_pos: $U = if rng.chance(if mode == "c10" { 2 } else { 1 }, 5) { max_neg.saturating_mul(3) + pct(10) } else { *rng.pick(&[0 as $U, max_neg / 2, max_neg]) };
            let min_cf: $U = pct(*rng.pick(&[0u64, 50, 100, 200]));
            let cfg_random = PsCfg::<$U> {
                min_size: *rng.pick(&[0 as $U, unit, unit * 10]),
                min_cv: *rng.pick(&[0 as $U, unit, unit * 5]),
                min_cf,
                min_cf_liq: match rng.below(3) { 0 => None, 1 => Some(min_cf / 2), _ => Some(min_cf) },
                max_pos_impact: max_pos,
                max_neg_impact: max_neg,
                max_impact_liq: *rng.pick(&[0 as $U, pct(25), pct(100)]),
                ip_exp: unit * (exp_k as $U),
                ip_pos, ip_neg,
                fee_pos: *rng.pick(&[0 as $U, pct(5), pct(5)]),
                fee_neg: *rng.pick(&[0 as $U, pct(7), pct(7)]),
                fee_recv: *rng.pick(&[0 as $U, pct(3700), pct(10_000)]),
                fee_discount: if rng.chance(1, 3) { Some(pct(1000)) } else { None },
                borrow_recv: *rng.pick(&[0 as $U, pct(3700)]),
                liq_factor: *rng.pick(&[0 as $U, pct(20), pct(20)]),
                liq_recv: pct(3700),
                reserve: *rng.pick(&[unit, unit, unit / 2]),
                oi_reserve: *rng.pick(&[unit, unit, unit / 2]),
                max_pnl_trader: *rng.pick(&[0 as $U, pct(10), pct(5000), unit]),
                max_pnl_adl: if mode == "c09" { *rng.pick(&[0 as $U, pct(1), pct(10), pct(100), pct(1000)]) } else { *rng.pick(&[pct(1), pct(100), pct(1000), pct(5000)]) },
                min_pnl_after_adl: *rng.pick(&[0 as $U, 0, pct(1), pct(500)]),
                max_oi: if rng.chance(1, 8) { usd_hi / 2 } else { <$U>::MAX / 4 },
                min_cf_oi_mult: if rng.chance(1, 3) { if big { 1_000_000 } else { 0 } } else { 0 },
                funding_adj: if big { 10_000_000_000 } else { 10_000 },
                divisor: if big { 100_000_000_000 } else { 1 },
                funding: [
                    unit,
                    if big { 2_000_000_000_000 } else { 20 } * (*rng.pick(&[1u64, 10, 1000]) as $U),
                    if big { 1_000_000_000_000 } else { 10 } * (*rng.pick(&[1u64, 100, 10_000]) as $U),
                    if big { 30_000_000_000 } else { 1 },
                    *rng.pick(&[0 as $U, if big { 790_000_000 } else { 10 }]),
                    0,
                    pct(500),
                    0,
                ],
                borrowing: [unit, unit, if big { 2_820_000_000_000 } else { 28 } * (*rng.pick(&[1u64, 100]) as $U), if big { 2_820_000_000_000 } else { 28 }],
                borrowing_skip_smaller: rng.chance(1, 2),
                kink: if rng.chance(1, 2) { [0, 0, 0] } else { [pct(7500), pct(6000) / 31_536_000, pct(15_000) / 31_536_000] },
                distribute: [*rng.pick(&[0 as $U, unit / 1000, unit]), *rng.pick(&[0 as $U, 1000])],
                max_pool_amount: <$U>::MAX / 2,
                ignore_oi_for_usage: rng.chance(1, 4),
            };

            let cfg: PsCfg<$U> = match script { Some(sc) => sc.cfg.clone(), None => cfg_random };
            // ---------------------------------------------------------------- initial market
            let mut m: M = ps::new_market(&cfg);
            let pool_usd: $U = if mode == "c09" && rng.chance(1, 2) { logu(rng, usd_hi / 10, usd_hi.saturating_mul(4)) } else { logu(rng, usd_hi.saturating_mul(4), usd_hi.saturating_mul(200)) };
            m.primary = TestPool { long_amount: pool_usd / long_mid, short_amount: pool_usd / short_mid };
            if rng.chance(1, 10) { m.primary.long_amount /= 1000; } // scarce long liquidity: reserve failures
            m.swap_impact = TestPool { long_amount: rng.below(1000) as $U, short_amount: rng.below(1000) as $U };
            m.position_impact.long_amount = match rng.below(3) { 0 => 0, 1 => logu(rng, 1, (usd_hi / index_mid).max(2)), _ => logu(rng, 1, (usd_lo / index_mid).max(2)) };
            if rng.chance(1, 3) { m.vi_positions = Some(TestPool { long_amount: if rng.chance(1, 2) { 0 } else { logu(rng, usd_lo, usd_hi) }, short_amount: 0 }); }
            if rng.chance(1, 3) { m.vi_swaps = Some(TestPool { long_amount: m.primary.long_amount, short_amount: m.primary.short_amount }); }
            m.now = 1_000_000;

            if let Some(sc) = script {
                m.primary = TestPool { long_amount: sc.primary.0, short_amount: sc.primary.1 };
                m.swap_impact = TestPool { long_amount: 0, short_amount: 0 };
                m.position_impact.long_amount = sc.impact_pool;
                m.vi_positions = None; m.vi_swaps = None;
            }
            let n_pos = match script { Some(sc) => sc.positions.len(), None => rng.range(2, 6) as usize };
            let mut pos: Vec<P> = (0..n_pos).map(|i| {
                let is_long = if i == 0 { true } else if i == 1 { false } else { rng.chance(1, 2) };
                let cl = rng.chance(1, 2);
                match script { Some(sc) => P { is_long: sc.positions[i].0, is_collateral_token_long: sc.positions[i].1, ..Default::default() },
                               None => P { is_long, is_collateral_token_long: cl, ..Default::default() } }
            }).collect();

            let s0 = ps::mstate(&m);
            let ps0: Vec<String> = pos.iter().map(ps::position).collect();
            let mut steps: Vec<String> = Vec::new();
            // statistics for the tag
            let (mut n_ok, mut n_err, mut n_dirty, mut n_removed, mut n_liq_ok, mut n_adl_ok, mut n_insolvent, mut n_roundtrip, mut n_promoted, mut n_zero_tok, mut n_poolcap) = (0, 0, 0, 0, 0, 0, 0, 0, 0, 0, 0);

            let n_ops = match script { Some(sc) => sc.ops.len(), None => rng.range(6, 18) as usize };
            let w_fees: u64 = if mode == "c08" { 5 } else { 3 };
            let w_liq: u64 = if mode == "c09" { 4 } else { 1 };
            let w_adl: u64 = if mode == "c09" { 3 } else { 1 };
            let w_round: u64 = if mode == "c10" { 6 } else { 1 };
            let mut pending_close: Option<(usize, Prices<$U>)> = None; // second half of an open-then-close round trip

            let mut k = 0;
            while k < n_ops {
                k += 1;
                // prices for this step
                let move_price = |r: &mut Rng, mid: $U| -> $U {
                    let bp = *r.pick(&[0u64, 0, 10, 100, 500, 2000, 5000]);
                    let d = mid / 10_000 * (bp as $U);
                    if r.chance(1, 2) { mid.saturating_add(d) } else { mid.saturating_sub(d).max(1) }
                };
                let prices: Prices<$U>;
                let kind: u64;
                let idx: usize;
                let mut forced: Option<($U, $U)> = None;
                let mut forced_dt: Option<u64> = None;
                let mut whale_now = false;
                if let Some(sc) = script {
                    let mkp = |t: ($U, $U, $U)| Prices { index_token_price: Price { min: t.0, max: t.0 }, long_token_price: Price { min: t.1, max: t.1 }, short_token_price: Price { min: t.2, max: t.2 } };
                    match sc.ops[k - 1] {
                        SOp::Inc(i, pr, c, sd) => { idx = i; prices = mkp(pr); kind = 1; forced = Some((c, sd)); }
                        SOp::Dec(i, pr, sd, wd) => { idx = i; prices = mkp(pr); kind = 2; forced = Some((sd, wd)); }
                        SOp::Fees(dt, pr) => { idx = 0; prices = mkp(pr); kind = 0; forced_dt = Some(dt); }
                    }
                } else if let Some((i, pr)) = pending_close.take() {
                    prices = pr; kind = 100; idx = i;
                } else {
                    let mut idx_t = rng.below(n_pos as u64) as usize;
                    let open = pos[idx_t].size_in_usd != 0;
                    let total = w_fees + 4 + 5 + w_liq + w_adl + w_round;
                    // c10: most histories start with a large open on one side, so that later round trips on the other side get positive impact
                    whale_now = mode == "c10" && k == 1 && rng.chance(3, 4);
                    let x = if whale_now { w_fees } else { rng.below(total) };
                    kind = if x < w_fees { 0 }
                        else if x < w_fees + 4 { 1 }
                        else if x < w_fees + 9 { if open { 2 } else { 1 } }
                        else if x < w_fees + 9 + w_liq { if open { 3 } else { 1 } }
                        else if x < w_fees + 9 + w_liq + w_adl { if open { 4 } else { 1 } }
                        else { 5 };
                    if mode == "c10" && kind == 5 && rng.chance(3, 4) {
                        // open the round trip on the lighter side (positive impact), on an empty position if there is one
                        let oi_l = m.open_interest.0.long_amount.saturating_add(m.open_interest.0.short_amount);
                        let oi_s = m.open_interest.1.long_amount.saturating_add(m.open_interest.1.short_amount);
                        if oi_l != oi_s {
                            let want_long = oi_l < oi_s;
                            if let Some(j) = (0..n_pos).find(|&j| pos[j].size_in_usd == 0 && pos[j].is_long == want_long) { idx_t = j; }
                        }
                    }
                    if kind == 3 && rng.chance(4, 5) {
                        // move the index price against the position by about its collateral ratio
                        let pp = &pos[idx_t];
                        let cpx = if pp.is_collateral_token_long { long_mid } else { short_mid };
                        let ratio_bp = (pp.collateral_token_amount.saturating_mul(cpx) / (pp.size_in_usd / 10_000).max(1)).min(20_000) as u64;
                        let bp = (ratio_bp * rng.range(60, 140) / 100).min(9_500);
                        let d = index_mid / 10_000 * (bp as $U);
                        index_mid = if pp.is_long { index_mid.saturating_sub(d).max(1) } else { index_mid.saturating_add(d) };
                    } else if kind == 4 && rng.chance(3, 4) {
                        // move the index price in favour of the position's side
                        let bp = *rng.pick(&[200u64, 1000, 3000, 8000]);
                        let d = index_mid / 10_000 * (bp as $U);
                        index_mid = if pos[idx_t].is_long { index_mid.saturating_add(d) } else { index_mid.saturating_sub(d).max(1) };
                    } else {
                        index_mid = move_price(rng, index_mid);
                    }
                    idx = idx_t;
                    long_mid = if long_is_index { index_mid } else { move_price(rng, long_mid) };
                    let ip = mk_price(rng, index_mid);
                    prices = Prices { index_token_price: ip, long_token_price: if long_is_index { ip } else { mk_price(rng, long_mid) }, short_token_price: mk_price(rng, short_mid) };
                }

                // ---- update_fees_state: clock forward, distribute impact, borrowing, funding
                if forced_dt.is_some() || (script.is_none() && (kind == 0 || (kind != 100 && kind != 0 && rng.chance(2, 3)))) {
                    let snap = m.clone();
                    let dt = if let Some(d) = forced_dt { d } else if kind == 0 && mode == "c08" { *rng.pick(&[1u64, 60, 3600, 86_400, 604_800, 2_592_000, 10_368_000]) } else if kind == 0 { *rng.pick(&[1u64, 60, 3600, 86_400, 604_800]) } else { *rng.pick(&[0u64, 0, 1, 60, 3600]) };
                    m.move_clock_forward(dt);
                    let r = (|| -> gmsol_model::Result<()> {
                        m.distribute_position_impact()?.execute()?;
                        m.update_borrowing(&prices)?.execute()?;
                        m.update_funding(&prices)?.execute()?;
                        Ok(())
                    })();
                    if r.is_ok() {
                        steps.push(format!("(OpFees {}, OutFees, MkAux false (Ok None) (Ok None))", ps::mstate(&m)));
                    } else {
                        let now = m.now;
                        m = snap;
                        m.now = now;
                    }
                    if kind == 0 { continue; }
                }

                let p_before = pos[idx];
                let mut m_before = m.clone();
                let cp = if p_before.is_collateral_token_long { prices.long_token_price } else { prices.short_token_price };
                let liq_of = |mm: &mut M, pp: &mut P| -> String {
                    match pp.ops(mm).check_liquidatable(&prices, true, true) {
                        Ok(None) => "(Ok None)".to_string(),
                        Ok(Some(r)) => {
                            use gmsol_model::position::LiquidatableReason as R;
                            format!("(Ok (Some {}))", match r { R::MinCollateral => 1, R::NotPositive => 2, R::MinCollateralForLeverage => 3 })
                        }
                        Err(e) => format!("(Err {})", ps::err_code(&e)),
                    }
                };
                let liq_pre = { let mut mm = m.clone(); let mut pp = pos[idx]; liq_of(&mut mm, &mut pp) };
                let acc_for = |r: &mut Rng, long_ok_high: bool| -> Option<$U> {
                    match r.below(16) { 0 | 1 => Some(if long_ok_high { <$U>::MAX / 2 } else { 0 }), 2 => Some(prices.index_token_price.min), _ => None }
                };

                let mut op_s = String::new();
                let mut out_s = String::new();
                let mut ok = false;
                let mut removed = false;
                let mut tagk = "";
                match kind {
                    1 | 5 => {
                        // increase (5 = first half of a round trip on an empty position)
                        let open = p_before.size_in_usd != 0;
                        let (coll_inc, sd): ($U, $U) = if let Some(f) = forced { f } else if !open || kind == 5 {
                            let sd = if whale_now { logu(rng, usd_hi / 2, usd_hi) } else { logu(rng, usd_lo, usd_hi) };
                            let lev = if whale_now { 2 } else if rng.chance(1, 12) { *rng.pick(&[100u64, 200, 1000]) } else { *rng.pick(&[1u64, 2, 3, 5, 10, 20, 50]) };
                            ((sd / (lev as $U) + if rng.chance(9, 10) { cfg.min_cv * 2 } else { 0 }) / cp.min.max(1), sd)
                        } else {
                            match rng.below(4) {
                                0 => (logu(rng, 1, (usd_hi / cp.min.max(1)).max(2)), 0), // deposit collateral only
                                1 => (0, logu(rng, usd_lo / 10, usd_hi)),
                                2 => (0, 0),
                                _ => { let sd = logu(rng, usd_lo, usd_hi); (sd / 10 / cp.min.max(1), sd) }
                            }
                        };
                        // c10: before a round trip, let the environment (impact distribution / other traders' impact) leave an
                        // impact pool whose value lies between the max-positive-factor cap and the uncapped positive impact of
                        // this trade, so that both caps of cap_positive_position_price_impact are exercised in sequence
                        if mode == "c10" && kind == 5 && !open && script.is_none() && cfg.max_pos_impact <= cfg.max_neg_impact && rng.chance(5, 6) {
                            let mut c2 = cfg.clone();
                            c2.max_pos_impact = unit; // 100 %: the probe reports the uncapped impact
                            let mut probe = m.clone();
                            probe.config = ps::build_config(&c2);
                            let ipx = prices.index_token_price.min.max(1);
                            probe.position_impact.long_amount = <$U>::MAX / 8 / ipx;
                            let mut pp = pos[idx];
                            if let Ok(rep) = pp.ops(&mut probe).increase(prices, coll_inc, sd, None).and_then(|a| a.execute()) {
                                let raw = *rep.execution().price_impact_value();
                                let cap: $U = gmsol_model::utils::apply_factor::<$U, $DEC>(&sd, &cfg.max_pos_impact).unwrap_or(<$U>::MAX);
                                if std::env::var("PS_DEBUG").is_ok() { eprintln!("probe: raw {raw} cap {cap} sd {sd}"); }
                                if raw > 0 && (raw as $U) > cap.saturating_add(2 * ipx) {
                                    let raw = raw as $U;
                                    let v = cap + (raw - cap) / 4 * (rng.range(1, 3) as $U);
                                    let tokens = v / ipx + 1;
                                    if tokens.saturating_mul(ipx) < raw && tokens.saturating_mul(ipx) > cap {
                                        m.position_impact.long_amount = tokens;
                                        m_before = m.clone();
                                        steps.push(format!("(OpFees {}, OutFees, MkAux false (Ok None) (Ok None))", ps::mstate(&m)));
                                        n_poolcap += 1;
                                    }
                                }
                            }
                        }
                        let acc = if forced.is_some() { None } else { acc_for(rng, p_before.is_long) };
                        op_s = format!("OpInc {idx} {} {} {} {}", ps::prices(&prices), z(coll_inc), z(sd), oz(acc));
                        let r = pos[idx].ops(&mut m).increase(prices, coll_inc, sd, acc).and_then(|a| a.execute());
                        match r {
                            Ok(rep) => { ok = true; out_s = format!("OutInc (Ok ({}, {}, {}))", ps::position(&pos[idx]), ps::mstate(&m), inc_report_s(&rep)); }
                            Err(e) => { if std::env::var("PS_DEBUG").is_ok() { eprintln!("inc: {e}"); } out_s = format!("OutInc (Err {})", ps::err_code(&e)); }
                        }
                        tagk = "inc";
                        if kind == 5 && ok && !open { pending_close = Some((idx, prices)); }
                    }
                    2 | 100 => {
                        let size = p_before.size_in_usd;
                        let coll = p_before.collateral_token_amount;
                        let sd: $U = if let Some(f) = forced { f.0 } else if kind == 100 { size } else { match rng.below(12) {
                            0 => size, 1 => size, 2 => size / 2, 3 => size / 10, 4 => size.saturating_sub(1), 5 => 1, 6 => 0,
                            7 => size.saturating_add(1 + rng.below(1000) as $U),
                            8 => size - size / 100,
                            // aim at the rounding of size_in_tokens: close all but a fraction of one token
                            9 => { let t = p_before.size_in_tokens.max(1); size - size / t / 2 }
                            10 => { let t = p_before.size_in_tokens.max(1); (size / t).saturating_mul(t.saturating_sub(1)).min(size) }
                            _ => if size == 0 { 0 } else { (rng.next128() as $U) % size },
                        } };
                        let wd_target: Option<$U> = if mode == "c09" && forced.is_none() && kind == 2 && sd < size && rng.chance(1, 2) {
                            // leave just about the minimum collateral behind (the estimate in check_partial_close ignores fees)
                            let rest = size - sd;
                            let need = (cfg.min_cv).max(rest / unit * cfg.min_cf) / cp.min.max(1);
                            let keep = need + need / 100 * (rng.below(12) as $U) + rng.below(3) as $U;
                            Some(coll.saturating_sub(keep))
                        } else { None };
                        let wd: $U = if let Some(f) = forced { f.1 } else if let Some(t) = wd_target { t } else if kind == 100 { 0 } else { match rng.below(7) { 0 | 1 | 2 => 0, 3 => coll / 2, 4 => coll, 5 => coll.saturating_add(5), _ => if coll == 0 { 0 } else { (rng.next128() as $U) % coll } } };
                        let fl = DecreasePositionFlags {
                            is_insolvent_close_allowed: forced.is_none() && kind != 100 && rng.chance(1, 6),
                            is_liquidation_order: false,
                            is_cap_size_delta_usd_allowed: forced.is_none() && rng.chance(1, 2),
                        };
                        let acc = if kind == 100 || forced.is_some() { None } else { acc_for(rng, !p_before.is_long) };
                        op_s = format!("OpDec {idx} {} {} {} {} (MkFlags {} {} {})", ps::prices(&prices), z(sd), oz(acc), z(wd), b(fl.is_insolvent_close_allowed), b(fl.is_liquidation_order), b(fl.is_cap_size_delta_usd_allowed));
                        let r = pos[idx].ops(&mut m).decrease(prices, sd, acc, wd, fl).and_then(|a| a.execute());
                        match r {
                            Ok(rep) => {
                                ok = true; removed = rep.should_remove();
                                if rep.insolvent_close_step().is_some() { n_insolvent += 1; }
                                if *rep.size_delta_usd() != sd.min(size) { n_promoted += 1; }
                                if removed && *rep.size_delta_usd() != size { n_zero_tok += 1; }
                                out_s = format!("OutDec (Ok ({}, {}, {}))", ps::position(&pos[idx]), ps::mstate(&m), dec_report_s(&rep));
                            }
                            Err(e) => { if std::env::var("PS_DEBUG").is_ok() { eprintln!("dec: {e}"); } out_s = format!("OutDec (Err {})", ps::err_code(&e)); }
                        }
                        tagk = "dec";
                        if kind == 100 && ok { n_roundtrip += 1; }
                    }
                    3 => {
                        // liquidation order through the gate of ops/order.rs::execute_decrease_position
                        let size = p_before.size_in_usd;
                        let sd: $U = match rng.below(6) { 0 => size.saturating_sub(1), 1 => size.saturating_add(1), 2 => size / 2, _ => size };
                        let wd: $U = if rng.chance(1, 4) { p_before.collateral_token_amount / 2 } else { 0 };
                        let acc = acc_for(rng, !p_before.is_long);
                        op_s = format!("OpLiq {idx} {} {} {} {}", ps::prices(&prices), z(sd), oz(acc), z(wd));
                        if sd < size {
                            out_s = "OutDec (Err 22)".to_string();
                        } else {
                            let fl = DecreasePositionFlags { is_insolvent_close_allowed: true, is_liquidation_order: true, is_cap_size_delta_usd_allowed: false };
                            let r = pos[idx].ops(&mut m).decrease(prices, sd, acc, wd, fl).and_then(|a| a.execute());
                            match r {
                                Ok(rep) => {
                                    ok = true; removed = rep.should_remove(); n_liq_ok += 1;
                                    if rep.insolvent_close_step().is_some() { n_insolvent += 1; }
                                    out_s = format!("OutDec (Ok ({}, {}, {}))", ps::position(&pos[idx]), ps::mstate(&m), dec_report_s(&rep));
                                }
                                Err(e) => { out_s = format!("OutDec (Err {})", ps::err_code(&e)); }
                            }
                        }
                        tagk = "liq";
                    }
                    _ => {
                        // ADL order through the gates of ops/order.rs::execute_decrease_position
                        let size = p_before.size_in_usd;
                        let sd: $U = match rng.below(5) { 0 => size, 1 => size / 2, 2 => size / 10, 3 => size.saturating_add(1), _ => if size == 0 { 0 } else { (rng.next128() as $U) % size } };
                        let wd: $U = 0;
                        let acc: Option<$U> = None;
                        op_s = format!("OpAdl {idx} {} {} {} {}", ps::prices(&prices), z(sd), oz(acc), z(wd));
                        let is_long = p_before.is_long;
                        let r = (|| -> Result<(Box<DecreasePositionReport<$U, $S>>, $S, $S), u32> {
                            let before = m.pnl_factor_exceeded(&prices, PnlFactorKind::ForAdl, is_long).map_err(|e| ps::err_code(&e))?
                                .map(|e| e.pnl_factor).ok_or(20u32)?;
                            let fl = DecreasePositionFlags { is_insolvent_close_allowed: true, is_liquidation_order: false, is_cap_size_delta_usd_allowed: false };
                            let rep = pos[idx].ops(&mut m).decrease(prices, sd, acc, wd, fl).and_then(|a| a.execute()).map_err(|e| ps::err_code(&e))?;
                            let after = m.pnl_factor(&prices, is_long, true).map_err(|e| ps::err_code(&e))?;
                            if !(before > after) { return Err(21); }
                            let mn = m.pnl_factor_config(PnlFactorKind::MinAfterAdl, is_long).and_then(|f| f.to_signed()).map_err(|e| ps::err_code(&e))?;
                            if !(after >= mn) { return Err(21); }
                            Ok((rep, before, after))
                        })();
                        match r {
                            Ok((rep, before, after)) => {
                                ok = true; removed = rep.should_remove(); n_adl_ok += 1;
                                if rep.insolvent_close_step().is_some() { n_insolvent += 1; }
                                out_s = format!("OutAdl (Ok ({}, {}, {}, {}, {}))", ps::position(&pos[idx]), ps::mstate(&m), dec_report_s(&rep), z(before), z(after));
                            }
                            Err(c) => { out_s = format!("OutAdl (Err {c})"); }
                        }
                        tagk = "adl";
                    }
                }
                let _ = tagk;
                let mut dirty = false;
                let mut liq_post = "(Ok None)".to_string();
                if ok {
                    n_ok += 1;
                    if removed {
                        n_removed += 1;
                        // the position account is closed: a later increase starts from a fresh one
                        pos[idx] = P { is_long: p_before.is_long, is_collateral_token_long: p_before.is_collateral_token_long, ..Default::default() };
                    } else {
                        let mut mm = m.clone(); let mut pp = pos[idx];
                        liq_post = liq_of(&mut mm, &mut pp);
                    }
                } else {
                    n_err += 1;
                    dirty = ps::mstate(&m) != ps::mstate(&m_before) || ps::position(&pos[idx]) != ps::position(&p_before);
                    if dirty { n_dirty += 1; }
                    let now = m.now;
                    m = m_before;
                    m.now = now;
                    pos[idx] = p_before;
                }
                steps.push(format!("({op_s}, {out_s}, MkAux {} {liq_pre} {liq_post})", b(dirty)));
            }

            let trivial = n_ok == 0;
            let mut tag = format!("hist{w}/ok{}", n_ok.min(9));
            if n_err > 0 { tag.push_str("+err"); }
            if n_dirty > 0 { tag.push_str("+dirty"); }
            if n_removed > 0 { tag.push_str("+rm"); }
            if n_zero_tok > 0 { tag.push_str("+zerotok"); }
            if n_promoted > 0 { tag.push_str("+promoted"); }
            if n_liq_ok > 0 { tag.push_str("+liq"); }
            if n_adl_ok > 0 { tag.push_str("+adl"); }
            if n_insolvent > 0 { tag.push_str("+insolvent"); }
            if n_roundtrip > 0 { tag.push_str("+roundtrip"); }
            if n_poolcap > 0 { tag.push_str("+poolcap"); }
            if trivial { tag = format!("hist{w}/trivial"); }
            if script.is_some() { tag = format!("replay{w}/ok{}", n_ok); }
            let term = format!("Hist {w} {dec} {} {s0} [{}] [{}]", cfg.coq(), ps0.join("; "), steps.join("; "));
            if mode == "c08" { emit(&tag, &format!("H8 ({term})")); } else { emit(&tag, &term); }
        }
    };
}

macro_rules! pack_for {
    ($fname:ident, $U:ty, $W:expr, $DEC:expr) => {
        /// direct cases for pack_to_funding_amount_per_size / unpack_to_funding_amount_delta
        fn $fname(rng: &mut Rng) {
            use gmsol_model::action::update_funding_state::{pack_to_funding_amount_per_size, unpack_to_funding_amount_delta};
            let w: u32 = $W;
            let dec: u8 = $DEC;
            let big = w == 128;
            let adj: $U = if rng.chance(1, 8) { rng.uint(20) as $U } else if big { 10_000_000_000 } else { 10_000 };
            let ru = rng.chance(1, 2);
            if rng.chance(1, 2) {
                let oi: $U = match rng.below(6) { 0 => 0, 1 => 1, _ => (rng.uint(if big { 90 } else { 50 }) as $U) };
                let fv: $U = match rng.below(6) { 0 => 0, 1 => oi, 2 => rng.uint(w) as $U, _ => if oi == 0 { rng.uint(30) as $U } else { (rng.next128() as $U) % oi.max(1) / (rng.below(1000) as $U + 1) } };
                let price: $U = match rng.below(5) { 0 => 1, 1 => (rng.uint(w) as $U).max(1), _ => (rng.uint(if big { 50 } else { 30 }) as $U).max(1) };
                let r = pack_to_funding_amount_per_size::<$U, $DEC>(&adj, &fv, &oi, &price, ru);
                emit(&format!("pack{w}/{}", if fv == 0 || oi == 0 { "trivial" } else if r.is_some() { "ok" } else { "fail" }),
                     &format!("Pack8 {w} {dec} {} {} {} {} {} {}", z(adj), z(fv), z(oi), z(price), b(ru), oz(r)));
            } else {
                let latest: $U = rng.uint(if big { 100 } else { 55 }) as $U;
                let pv: $U = match rng.below(5) { 0 => latest, 1 => latest.saturating_add(1), 2 => 0, _ => if latest == 0 { 0 } else { (rng.next128() as $U) % latest } };
                let size: $U = match rng.below(6) { 0 => 0, 1 => rng.uint(w) as $U, _ => rng.uint(if big { 90 } else { 50 }) as $U };
                let r = unpack_to_funding_amount_delta::<$U, $DEC>(&adj, &latest, &pv, &size, ru);
                emit(&format!("unpack{w}/{}", if size == 0 || latest == pv { "trivial" } else if r.is_some() { "ok" } else { "fail" }),
                     &format!("Unpack8 {w} {dec} {} {} {} {} {} {}", z(adj), z(latest), z(pv), z(size), b(ru), oz(r)));
            }
        }
    };
}
pack_for!(pack64, u64, 64, 9);
pack_for!(pack128, u128, 128, 20);

gen_for!(gen64, u64, i64, 64, 9);
gen_for!(gen128, u128, i128, 128, 20);

/// The crate's test configuration (u64, 9 decimals).
fn test_cfg() -> PsCfg<u64> {
    let unit = 1_000_000_000u64;
    PsCfg {
        min_size: unit, min_cv: unit, min_cf: 10_000_000, min_cf_liq: None,
        max_pos_impact: 5_000_000, max_neg_impact: 5_000_000, max_impact_liq: 2_500_000,
        ip_exp: 2 * unit, ip_pos: 1, ip_neg: 2,
        fee_pos: 500_000, fee_neg: 700_000, fee_recv: 370_000_000, fee_discount: None,
        borrow_recv: 370_000_000, liq_factor: 2_000_000, liq_recv: 370_000_000,
        reserve: unit, oi_reserve: unit, max_pnl_trader: 500_000_000, max_pnl_adl: 500_000_000, min_pnl_after_adl: 0,
        max_oi: u64::MAX, min_cf_oi_mult: 0, funding_adj: 10_000, divisor: 1,
        funding: [unit, 20, 10, 1, 10, 0, 50_000_000, 0],
        borrowing: [unit, unit, 28, 28], borrowing_skip_smaller: true,
        kink: [750_000_000, 600_000_000 / 31_536_000, 1_500_000_000 / 31_536_000],
        distribute: [unit, unit], max_pool_amount: unit * unit, ignore_oi_for_usage: false,
    }
}

/// C09: a partial decrease with a collateral withdrawal leaves the position open and liquidatable (MinCollateral).
fn script_c09() -> Script<u64> {
    Script {
        cfg: test_cfg(), primary: (1_000_000_000, 1_000_000_000), impact_pool: 0,
        positions: vec![(true, true), (false, false)],
        ops: vec![SOp::Inc(0, (123, 123, 1), 100_000_000, 80_000_000_000), SOp::Dec(0, (123, 123, 1), 40_000_000_000, 91_100_000)],
    }
}

/// C10: positive impact cap above the negative cap + pre-funded impact pool: open-then-close is profitable.
fn script_c10() -> Script<u64> {
    let mut cfg = test_cfg();
    cfg.max_pos_impact = 10_000_000; // 1 %
    cfg.max_neg_impact = 1_000_000; // 0.1 %
    cfg.ip_pos = 5000;
    cfg.ip_neg = 10_000;
    Script {
        cfg, primary: (1_000_000_000_000, 100_000_000_000_000), impact_pool: 2_000_000_000,
        positions: vec![(true, true), (false, false)],
        ops: vec![
            SOp::Inc(1, (123, 123, 1), 2_000_000_000_000, 10_000_000_000_000),
            SOp::Inc(0, (123, 123, 1), 20_000_000_000, 10_000_000_000_000),
            SOp::Dec(0, (123, 123, 1), 10_000_000_000_000, 0),
        ],
    }
}

/// C08: a cost remainder that converts to zero secondary-output tokens is treated as paid, so the fee step
/// credits the pools with fees the trader never paid (index / long token worth 1e9 per unit, collateral worth 1).
fn script_c08() -> Script<u64> {
    Script {
        cfg: test_cfg(), primary: (1_000_000, 100_000_000_000_000), impact_pool: 0,
        positions: vec![(true, false), (false, false)],
        ops: vec![
            SOp::Inc(0, (1_000_000_000, 1_000_000_000, 1), 100_000_000_000, 1_000_000_000_000),
            SOp::Dec(0, (901_500_000, 901_500_000, 1), 1_000_000_000_000, 0),
        ],
    }
}

/// C08: the receiver of a funding round settles before the payer: claimable funding leaves the vault before any
/// funding fee has been collected (cash residual negative; the payer's debt is still accrued).
fn script_c08_claim_first() -> Script<u64> {
    Script {
        cfg: test_cfg(), primary: (1_000_000_000_000, 100_000_000_000_000), impact_pool: 0,
        positions: vec![(true, true), (false, false)],
        ops: vec![
            SOp::Fees(0, (123, 123, 1)),
            SOp::Inc(0, (123, 123, 1), 20_000_000_000, 10_000_000_000_000),
            SOp::Inc(1, (123, 123, 1), 2_000_000_000_000, 5_000_000_000_000),
            SOp::Fees(3600, (123, 123, 1)),
            SOp::Dec(1, (123, 123, 1), 5_000_000_000_000, 0),
        ],
    }
}

/// C08: same funding round, but the payer settles before the receiver: every clause holds.
fn script_c08_pay_first() -> Script<u64> {
    let mut sc = script_c08_claim_first();
    sc.ops = vec![
        SOp::Fees(0, (123, 123, 1)),
        SOp::Inc(0, (123, 123, 1), 20_000_000_000, 10_000_000_000_000),
        SOp::Inc(1, (123, 123, 1), 2_000_000_000_000, 5_000_000_000_000),
        SOp::Fees(3600, (123, 123, 1)),
        SOp::Dec(0, (123, 123, 1), 4_000_000_000_000, 0),
        SOp::Dec(1, (123, 123, 1), 5_000_000_000_000, 0),
        SOp::Fees(7200, (124, 124, 1)),
        SOp::Dec(0, (124, 124, 1), 6_000_000_000_000, 0),
    ];
    sc
}

/// C08: fees larger than the whole collateral, the remainder paid out of the profit, which is in the other
/// (pnl) token: long with short-token collateral (or short with long-token collateral), `days` of borrowing,
/// price moved in favour, close without swap.  `pay_for_fees_excluding_funding` must then route the fees through
/// its "paid in secondary output" branch (collateral part to the pool, pnl-token part to the holding claimable).
fn script_c08_spill(long_side: bool, p0: u64, p1: u64, coll_usd: u64, size: u64, days: u64, close: u64) -> Script<u64> {
    let (positions, pr0, pr1, coll) = if long_side {
        (vec![(true, false)], (p0, p0, 1), (p1, p1, 1), coll_usd)
    } else {
        // short: the long token keeps its price, only the index moves (down)
        (vec![(false, true)], (p0, p0, 1), (p1, p0, 1), coll_usd / p0)
    };
    Script {
        cfg: test_cfg(), primary: (1_000_000_000, 200_000_000_000), impact_pool: 0,
        positions,
        ops: vec![
            SOp::Fees(0, pr0),
            SOp::Inc(0, pr0, coll, size),
            SOp::Fees(days * 86_400, pr1),
            SOp::Dec(0, pr1, close, 0),
        ],
    }
}

/// C10: the seeded-change scenario C10a in the u64/9 scale.  A whale long pays 2 % negative impact into the impact
/// pool, one hour of distribution leaves 46 % of it; then a short of the same size is opened and closed at once:
/// uncapped positive impact 1 % > impact pool value 0.92 % > max positive factor 0.5 % (= max negative factor).
fn script_c10_poolcap(hours: u64, size: u64) -> Script<u64> {
    let unit = 1_000_000_000u64;
    let mut cfg = test_cfg();
    cfg.ip_pos = 1000;
    cfg.ip_neg = 2000;
    cfg.distribute = [150_000 * unit, 1_000_000];
    let pr = (200, 200, 1);
    Script {
        cfg, primary: (500_000_000_000, 100_000_000_000_000), impact_pool: 0,
        positions: vec![(true, true), (false, false)],
        ops: vec![
            SOp::Fees(0, pr),
            SOp::Inc(0, pr, 25_000_000_000, 10_000_000_000_000),
            SOp::Fees(hours * 3600, pr),
            SOp::Inc(1, pr, 1_000_000_000_000, size),
            SOp::Dec(1, pr, size, 0),
        ],
    }
}

fn main() {
    let a = args();
    let mut mode = "mix".to_string();
    let mut i = 0;
    while i < a.extra.len() {
        if a.extra[i] == "--mode" && i + 1 < a.extra.len() { mode = a.extra[i + 1].clone(); i += 1; }
        i += 1;
    }
    let mut rng = Rng::new(a.seed);
    // replays of the deviations found during design (DESIGN.md section 7), executed on the real code
    if mode == "c09" || mode == "mix" {
        gen64(&mut rng, &mode, Some(&script_c09()));
    }
    if mode == "c08" || mode == "mix" {
        gen64(&mut rng, &mode, Some(&script_c08()));
        gen64(&mut rng, &mode, Some(&script_c08_claim_first()));
        gen64(&mut rng, &mode, Some(&script_c08_pay_first()));
        // the seeded-change scenario C08a and variants of the same shape
        gen64(&mut rng, &mode, Some(&script_c08_spill(true, 120, 180, 10_000_000_000, 80_000_000_000, 120, 80_000_000_000)));
        gen64(&mut rng, &mode, Some(&script_c08_spill(true, 120, 180, 10_000_000_000, 80_000_000_000, 10, 80_000_000_000)));
        if mode == "c08" {
            gen64(&mut rng, &mode, Some(&script_c08_spill(false, 120, 70, 10_000_000_000, 80_000_000_000, 150, 80_000_000_000)));
            for _ in 0..6 {
                let long_side = rng.chance(1, 2);
                let p0 = rng.range(100, 150);
                let p1 = if long_side { p0 * rng.range(125, 200) / 100 } else { p0 * rng.range(40, 80) / 100 };
                let coll_usd = 1_000_000_000 * rng.range(2, 12);
                let size = 10_000_000_000 * rng.range(5, 9);
                let days = rng.range(40, 260);
                let close = if rng.chance(1, 5) { size / 2 } else { size };
                gen64(&mut rng, &mode, Some(&script_c08_spill(long_side, p0, p1, coll_usd, size, days, close)));
            }
        }
    }
    if mode == "c10" || mode == "mix" {
        gen64(&mut rng, &mode, Some(&script_c10()));
        gen64(&mut rng, &mode, Some(&script_c10_poolcap(1, 10_000_000_000_000)));
        if mode == "c10" {
            gen64(&mut rng, &mode, Some(&script_c10_poolcap(0, 10_000_000_000_000))); // pool above the uncapped impact: factor cap alone
            gen64(&mut rng, &mode, Some(&script_c10_poolcap(1, 8_000_000_000_000)));
        }
    }
    for _ in 0..a.n {
        if mode == "c08" && rng.chance(1, 4) {
            // a block of cheap direct cases
            for _ in 0..8 { if rng.chance(1, 2) { pack64(&mut rng) } else { pack128(&mut rng) } }
            continue;
        }
        if rng.chance(1, 2) { gen64(&mut rng, &mode, None) } else { gen128(&mut rng, &mode, None) }
    }
}
