//! C34 driver: whole op histories on fixed-capacity maps — the `fixed_map!` macro
//! instantiated here at several capacities / key widths / value types, and the maps the
//! programs themselves declare (store: RoleMap, Members, Tokens, DisabledMap, GlvMarkets,
//! PriceMap; treasury: TokenMap, TokenBalances).
//!
//! One case = `Hist cap [(input, output); ...]`.  Keys are printed as the big-endian
//! integer of the key bytes (hex), values as the little-endian integer of the value bytes.
use anchor_lang::prelude::Pubkey;
use gmsol_verif_harness::*;
use std::panic::AssertUnwindSafe;

fn hex_be(bytes: &[u8]) -> String {
    let mut s = String::from("0x");
    let mut started = false;
    for b in bytes {
        if !started && *b == 0 {
            continue;
        }
        if !started {
            s.push_str(&format!("{:x}", b));
            started = true;
        } else {
            s.push_str(&format!("{:02x}", b));
        }
    }
    if !started {
        s.push('0');
    }
    s
}
fn hex_le(bytes: &[u8]) -> String {
    let v: Vec<u8> = bytes.iter().rev().cloned().collect();
    hex_be(&v)
}

thread_local! {
    static RANKS: std::cell::RefCell<Option<std::collections::HashMap<Vec<u8>, usize>>> = std::cell::RefCell::new(None);
}
/// Keys are printed either in full (big-endian integer of the bytes) or, to keep the Coq
/// terms small, as their rank in the byte-lexicographic order of the history's key universe
/// (an order isomorphism; the all-zero key — the key of an empty slot — is always rank 0).
fn set_ranks<K>(keys: &[(K, Vec<u8>)], full: bool) {
    RANKS.with(|r| {
        if full {
            *r.borrow_mut() = None;
            return;
        }
        let mut bs: Vec<Vec<u8>> = keys.iter().map(|(_, b)| b.clone()).collect();
        let zero = vec![0u8; bs[0].len()];
        if !bs.contains(&zero) {
            bs.push(zero);
        }
        bs.sort();
        *r.borrow_mut() = Some(bs.into_iter().enumerate().map(|(i, b)| (b, i)).collect());
    })
}
fn kz(bytes: &[u8]) -> String {
    RANKS.with(|r| match &*r.borrow() {
        Some(m) => match m.get(bytes) {
            Some(i) => i.to_string(),
            None => hex_be(bytes), // a key that was never supplied: printed in full (never a small number)
        },
        None => {
            if bytes.len() <= 8 { let mut x = 0u64; for b in bytes { x = (x << 8) | *b as u64; } x.to_string() } else { hex_be(bytes) }
        }
    })
}
fn vz(bytes: &[u8]) -> String {
    if bytes.len() <= 16 {
        let mut x = 0u128;
        for b in bytes.iter().rev() { x = (x << 8) | *b as u128; }
        x.to_string()
    } else if bytes[16..].iter().all(|b| *b == 0) {
        vz(&bytes[..16])
    } else {
        hex_le(bytes)
    }
}

fn err_code(e: &anchor_lang::error::Error) -> u32 {
    let name = match e {
        anchor_lang::error::Error::AnchorError(a) => a.error_name.clone(),
        anchor_lang::error::Error::ProgramError(_) => String::new(),
    };
    match name.as_str() {
        "AlreadyExist" => 1,
        "ExceedMaxLengthLimit" => 2,
        _ => 99,
    }
}

/// Uniform view of one generated map type.
trait Fm: Sized {
    const CAP: usize;
    const KEY_LEN: usize;
    const VAL_LEN: usize;
    const NAME: &'static str;
    type Key;
    fn new() -> Self;
    /// key universe of `n` distinct keys with their key bytes
    fn keys(rng: &mut Rng, n: usize) -> Vec<(Self::Key, Vec<u8>)>;
    fn get(&self, k: &Self::Key) -> Option<Vec<u8>>;
    fn set(&mut self, k: &Self::Key, v: &[u8]) -> Option<Vec<u8>>;
    fn ins(&mut self, k: &Self::Key, v: &[u8], new: bool) -> Result<Option<Vec<u8>>, u32>;
    fn insp(&mut self, k: &Self::Key, v: &[u8]) -> Option<Vec<u8>>;
    fn rem(&mut self, k: &Self::Key) -> Option<Vec<u8>>;
    fn idx(&self, i: usize) -> Option<(Vec<u8>, Vec<u8>)>;
    fn clear(&mut self);
    fn len(&self) -> usize;
    fn is_empty(&self) -> bool;
    fn entries(&self) -> Vec<(Vec<u8>, Vec<u8>)>;
    fn raw(&self) -> Vec<u8>;
}

macro_rules! impl_fm {
    ($map:ty, $name:expr, $cap:expr, $klen:expr, $val:ty, $key:ty, $keys:expr, $asref:expr) => {
        impl Fm for $map {
            const CAP: usize = $cap;
            const KEY_LEN: usize = $klen;
            const VAL_LEN: usize = std::mem::size_of::<$val>();
            const NAME: &'static str = $name;
            type Key = $key;
            fn new() -> Self {
                <$map>::default()
            }
            fn keys(rng: &mut Rng, n: usize) -> Vec<(Self::Key, Vec<u8>)> {
                ($keys)(rng, n)
            }
            fn get(&self, k: &Self::Key) -> Option<Vec<u8>> {
                <$map>::get(self, ($asref)(k)).map(|v| bytemuck::bytes_of(v).to_vec())
            }
            fn set(&mut self, k: &Self::Key, v: &[u8]) -> Option<Vec<u8>> {
                let v: $val = bytemuck::pod_read_unaligned(v);
                <$map>::get_mut(self, ($asref)(k)).map(|p| bytemuck::bytes_of(&std::mem::replace(p, v)).to_vec())
            }
            fn ins(&mut self, k: &Self::Key, v: &[u8], new: bool) -> Result<Option<Vec<u8>>, u32> {
                let v: $val = bytemuck::pod_read_unaligned(v);
                <$map>::insert_with_options(self, ($asref)(k), v, new)
                    .map(|o| o.map(|p| bytemuck::bytes_of(&p).to_vec()))
                    .map_err(|e| err_code(&e))
            }
            fn insp(&mut self, k: &Self::Key, v: &[u8]) -> Option<Vec<u8>> {
                let v: $val = bytemuck::pod_read_unaligned(v);
                <$map>::insert(self, ($asref)(k), v).map(|p| bytemuck::bytes_of(&p).to_vec())
            }
            fn rem(&mut self, k: &Self::Key) -> Option<Vec<u8>> {
                <$map>::remove(self, ($asref)(k)).map(|p| bytemuck::bytes_of(&p).to_vec())
            }
            fn idx(&self, i: usize) -> Option<(Vec<u8>, Vec<u8>)> {
                <$map>::get_entry_by_index(self, i).map(|(k, v)| (k.to_vec(), bytemuck::bytes_of(v).to_vec()))
            }
            fn clear(&mut self) {
                <$map>::clear(self)
            }
            fn len(&self) -> usize {
                <$map>::len(self)
            }
            fn is_empty(&self) -> bool {
                <$map>::is_empty(self)
            }
            fn entries(&self) -> Vec<(Vec<u8>, Vec<u8>)> {
                <$map>::entries(self).map(|(k, v)| (k.to_vec(), bytemuck::bytes_of(v).to_vec())).collect()
            }
            fn raw(&self) -> Vec<u8> {
                bytemuck::bytes_of(self).to_vec()
            }
        }
    };
}

// ---- key universes -------------------------------------------------------------------
fn special_bytes(rng: &mut Rng, i: usize, len: usize) -> Vec<u8> {
    // a mixture that stresses the lexicographic comparison: all-zero (= the key of an
    // empty slot), all-0xFF, keys differing only in the first / last byte, random
    let mut k = vec![0u8; len];
    match i {
        0 => {}
        1 => k.iter_mut().for_each(|b| *b = 0xFF),
        2 => k[len - 1] = 1,
        3 => k[0] = 1,
        4 => {
            k[0] = 0xFF;
        }
        5 => {
            k.iter_mut().for_each(|b| *b = 0xFF);
            k[len - 1] = 0xFE;
        }
        _ => {
            if rng.chance(1, 4) {
                // shared long prefix
                k.iter_mut().for_each(|b| *b = 0x55);
                let x = rng.next().to_be_bytes();
                let m = len.min(2);
                k[len - m..].copy_from_slice(&x[8 - m..]);
            } else {
                for b in k.iter_mut() {
                    *b = rng.below(256) as u8;
                }
            }
        }
    }
    k
}
fn distinct_bytes(rng: &mut Rng, n: usize, len: usize) -> Vec<Vec<u8>> {
    let mut out: Vec<Vec<u8>> = Vec::new();
    let mut i = 0;
    let mut guard = 0;
    while out.len() < n && guard < 100 * n + 1000 {
        let k = special_bytes(rng, i, len);
        i += 1;
        guard += 1;
        if !out.contains(&k) {
            out.push(k);
        }
    }
    out
}
fn pubkey_keys(rng: &mut Rng, n: usize) -> Vec<(Pubkey, Vec<u8>)> {
    distinct_bytes(rng, n, 32)
        .into_iter()
        .map(|b| (Pubkey::new_from_array(b.clone().try_into().unwrap()), b))
        .collect()
}
fn str_keys(rng: &mut Rng, n: usize) -> Vec<(String, Vec<u8>)> {
    let salt = rng.below(1 << 20);
    (0..n)
        .map(|i| {
            let s = if i == 0 { String::new() } else { format!("key{salt}_{i}") };
            let b = gmsol_utils::fixed_map::to_key(&s).to_vec();
            (s, b)
        })
        .collect()
}

// ---- maps instantiated here -----------------------------------------------------------
fn s2str(k: &String) -> &str {
    k.as_str()
}
fn pk_bytes(k: &Pubkey) -> [u8; 32] {
    k.to_bytes()
}
fn id1(k: &[u8; 1]) -> [u8; 1] {
    *k
}
fn id8(k: &[u8; 8]) -> [u8; 8] {
    *k
}
mod own {
    use super::{id1, id8, pk_bytes};
    use anchor_lang::prelude::Pubkey;
    // the two shapes of the crate's own tests
    gmsol_utils::fixed_map!(StrU128x32, u128, 32, 12);
    gmsol_utils::fixed_map!(PkU64x32, Pubkey, pk_bytes, u64, 32, 4);
    // tiny maps: capacity 1, 2, 3 and 4 (every boundary is hit constantly)
    gmsol_utils::fixed_map!(K1U8x1, 1, [u8; 1], id1, u8, 1, 2);
    gmsol_utils::fixed_map!(K1U8x2, 1, [u8; 1], id1, u8, 2, 0);
    gmsol_utils::fixed_map!(K1U8x3, 1, [u8; 1], id1, u8, 3, 2);
    gmsol_utils::fixed_map!(K1U8x4, 1, [u8; 1], id1, u8, 4, 0);
    gmsol_utils::fixed_map!(K8U64x5, 8, [u8; 8], id8, u64, 5, 4);
    gmsol_utils::fixed_map!(PkU32x64, Pubkey, pk_bytes, u32, 64, 0);
    gmsol_utils::fixed_map!(PkU8x512, Pubkey, pk_bytes, u8, 512, 0);
}
fn arr_keys<const N: usize>(rng: &mut Rng, n: usize) -> Vec<([u8; N], Vec<u8>)> {
    distinct_bytes(rng, n.min(if N == 1 { 256 } else { usize::MAX }), N)
        .into_iter()
        .map(|b| (b.clone().try_into().unwrap(), b))
        .collect()
}

impl_fm!(own::StrU128x32, "own_str_u128_32", 32, 32, u128, String, str_keys, s2str);
impl_fm!(own::PkU64x32, "own_pk_u64_32", 32, 32, u64, Pubkey, pubkey_keys, |k| k);
impl_fm!(own::K1U8x1, "own_k1_u8_1", 1, 1, u8, [u8; 1], arr_keys::<1>, |k| k);
impl_fm!(own::K1U8x2, "own_k1_u8_2", 2, 1, u8, [u8; 1], arr_keys::<1>, |k| k);
impl_fm!(own::K1U8x3, "own_k1_u8_3", 3, 1, u8, [u8; 1], arr_keys::<1>, |k| k);
impl_fm!(own::K1U8x4, "own_k1_u8_4", 4, 1, u8, [u8; 1], arr_keys::<1>, |k| k);
impl_fm!(own::K8U64x5, "own_k8_u64_5", 5, 8, u64, [u8; 8], arr_keys::<8>, |k| k);
impl_fm!(own::PkU32x64, "own_pk_u32_64", 64, 32, u32, Pubkey, pubkey_keys, |k| k);
impl_fm!(own::PkU8x512, "own_pk_u8_512", 512, 32, u8, Pubkey, pubkey_keys, |k| k);

// ---- the programs' own maps -----------------------------------------------------------
use gmsol_store::states::feature::{ActionDisabledFlag, DisabledMap, DomainDisabledFlag};
use gmsol_store::states::glv::{GlvMarketConfig, GlvMarkets};
use gmsol_store::states::oracle::price_map::{PriceMap, SmallPrices};
use gmsol_store::states::roles::{Members, RoleMap, RoleMetadata};
use gmsol_store::states::token_config::Tokens;

fn feature_keys(rng: &mut Rng, _n: usize) -> Vec<((DomainDisabledFlag, ActionDisabledFlag), Vec<u8>)> {
    // both enums are #[repr(u8)] with contiguous discriminants 0..=15 / 0..=4
    let mut v = Vec::new();
    for d in 0u8..16 {
        for a in 0u8..5 {
            let dk: DomainDisabledFlag = unsafe { std::mem::transmute::<u8, DomainDisabledFlag>(d) };
            let ak: ActionDisabledFlag = unsafe { std::mem::transmute::<u8, ActionDisabledFlag>(a) };
            v.push(((dk, ak), vec![d, a]));
        }
    }
    // shuffle
    for i in (1..v.len()).rev() {
        let j = rng.below(i as u64 + 1) as usize;
        v.swap(i, j);
    }
    v
}

impl_fm!(RoleMap, "store_RoleMap_32", 32, 32, RoleMetadata, String, str_keys, s2str);
impl_fm!(Members, "store_Members_64", 64, 32, u32, Pubkey, pubkey_keys, |k| k);
impl_fm!(Tokens, "store_Tokens_256", 256, 32, u8, Pubkey, pubkey_keys, |k| k);
impl_fm!(DisabledMap, "store_DisabledMap_64", 64, 2, u8, (DomainDisabledFlag, ActionDisabledFlag), feature_keys, |k| k);
impl_fm!(GlvMarkets, "store_GlvMarkets_96", 96, 32, GlvMarketConfig, Pubkey, pubkey_keys, |k| k);
impl_fm!(PriceMap, "store_PriceMap_512", 512, 32, SmallPrices, Pubkey, pubkey_keys, |k| k);

use gmsol_treasury::states::gt_bank::{TokenBalance, TokenBalances};
use gmsol_treasury::states::treasury::{TokenConfig as TreasuryTokenConfig, TokenMap as TreasuryTokenMap};
impl_fm!(TokenBalances, "treasury_TokenBalances_16", 16, 32, TokenBalance, Pubkey, pubkey_keys, |k| k);
impl_fm!(TreasuryTokenMap, "treasury_TokenMap_16", 16, 32, TreasuryTokenConfig, Pubkey, pubkey_keys, |k| k);

// ---- history generation ---------------------------------------------------------------
fn oval(v: Option<Vec<u8>>) -> String {
    match v {
        Some(b) => format!("(Some {})", vz(&b)),
        None => "None".into(),
    }
}

fn rand_val(rng: &mut Rng, n: usize) -> Vec<u8> {
    let mut v = vec![0u8; n];
    match rng.below(24) {
        0 | 1 => {}
        2 => v.iter_mut().for_each(|b| *b = 0xFF),
        3 => v.iter_mut().for_each(|b| *b = rng.below(256) as u8),
        4 => v[n - 1] = 1 + rng.below(255) as u8,
        _ => {
            v[0] = rng.below(256) as u8;
            if n > 1 && rng.chance(1, 2) { v[1] = rng.below(256) as u8; }
        }
    }
    v
}

fn dump<M: Fm>(m: &M) -> String {
    let raw = m.raw();
    let esz = M::KEY_LEN + M::VAL_LEN;
    let mut s = String::from("(RDump [");
    for i in 0..M::CAP {
        let e = &raw[i * esz..(i + 1) * esz];
        if i > 0 {
            s.push_str("; ");
        }
        s.push_str(&format!("({}, {})", kz(&e[..M::KEY_LEN]), vz(&e[M::KEY_LEN..])));
    }
    let c = &raw[raw.len() - 4..];
    let cnt = u32::from_le_bytes([c[0], c[1], c[2], c[3]]);
    s.push_str(&format!("] {cnt})"));
    s
}

fn history<M: Fm>(rng: &mut Rng, max_ops: usize) {
    let cap = M::CAP;
    // key universe strictly larger than the capacity
    let extra = 1 + rng.below((cap as u64 / 4).max(2)) as usize;
    let keys = M::keys(rng, cap + extra);
    let nk = keys.len();
    set_ranks(&keys, M::KEY_LEN <= 8 || (cap <= 32 && rng.chance(1, 4)));
    let mut m = M::new();
    let mut present: Vec<usize> = Vec::new(); // indices of keys currently in the map (driver's own bookkeeping)
    let n_ops = if rng.chance(1, 10) { rng.range(1, 12) as usize } else { rng.range(max_ops as u64 * 2 / 3, max_ops as u64) as usize };
    // phase: 0 = fill (until full), 1 = churn at/near full (budgeted), 2 = drain (to a target size)
    let free_mode = rng.chance(1, 8); // phases switch at random instead
    let mut phase = if rng.chance(5, 6) { 0 } else { 1 };
    let mut budget = 0usize;
    let mut target = 0usize;
    let mut ops: Vec<String> = Vec::new();
    let mut panicked = false;
    let mut hit_full = false;
    let mut hit_full_remove = false;
    for _ in 0..n_ops {
        if free_mode {
            if rng.chance(1, 30) {
                phase = rng.below(3);
            }
        } else {
            match phase {
                0 if present.len() >= cap => {
                    phase = 1;
                    budget = rng.range(4, (cap as u64 / 3).max(12)) as usize;
                }
                1 => {
                    if budget == 0 {
                        phase = if rng.chance(1, 2) { 2 } else { 0 };
                        target = rng.below(cap as u64 / 2 + 1) as usize;
                    } else {
                        budget -= 1;
                    }
                }
                2 if present.len() <= target => phase = 0,
                _ => {}
            }
        }
        let pick_present = |r: &mut Rng, p: &Vec<usize>| -> usize { if p.is_empty() { r.below(nk as u64) as usize } else { p[r.below(p.len() as u64) as usize] } };
        let pick_absent = |r: &mut Rng, p: &Vec<usize>| -> usize {
            for _ in 0..8 {
                let k = r.below(nk as u64) as usize;
                if !p.contains(&k) {
                    return k;
                }
            }
            r.below(nk as u64) as usize
        };
        let w = rng.below(100);
        let (w_ins, w_rem) = match phase { 0 => (80, 3), 1 => (40, 30), _ => (5, 70) };
        let line = if w < w_ins {
            // insert: new key mostly in fill phase; at full deliberately try new keys too
            let ki = if rng.chance(if phase == 0 { 9 } else { 5 }, 10) { pick_absent(rng, &present) } else { pick_present(rng, &present) };
            let v = rand_val(rng, M::VAL_LEN);
            let full_new = present.len() >= cap && !present.contains(&ki);
            if full_new { hit_full = true; }
            if rng.chance(1, if full_new { 40 } else { 8 }) {
                // plain insert (expect)
                let r = no_panic(AssertUnwindSafe(|| m.insp(&keys[ki].0, &v)));
                match r {
                    Some(o) => {
                        if !present.contains(&ki) { present.push(ki); }
                        format!("(IInsP {} {}, ROpt {})", kz(&keys[ki].1), vz(&v), oval(o))
                    }
                    None => { panicked = true; format!("(IInsP {} {}, RPanic)", kz(&keys[ki].1), vz(&v)) }
                }
            } else {
                let new = rng.chance(1, 2);
                let r = no_panic(AssertUnwindSafe(|| m.ins(&keys[ki].0, &v, new)));
                match r {
                    Some(Ok(o)) => {
                        if !present.contains(&ki) { present.push(ki); }
                        format!("(IIns {} {} {}, RRes (Ok {}))", kz(&keys[ki].1), vz(&v), b(new), oval(o))
                    }
                    Some(Err(e)) => format!("(IIns {} {} {}, RRes (Err {e}))", kz(&keys[ki].1), vz(&v), b(new)),
                    None => { panicked = true; format!("(IIns {} {} {}, RPanic)", kz(&keys[ki].1), vz(&v), b(new)) }
                }
            }
        } else if w < w_ins + w_rem {
            let ki = if rng.chance(8, 10) { pick_present(rng, &present) } else { pick_absent(rng, &present) };
            if present.len() >= cap && present.contains(&ki) { hit_full_remove = true; }
            let r = no_panic(AssertUnwindSafe(|| m.rem(&keys[ki].0)));
            match r {
                Some(o) => { present.retain(|x| *x != ki); format!("(IRem {}, ROpt {})", kz(&keys[ki].1), oval(o)) }
                None => { panicked = true; format!("(IRem {}, RPanic)", kz(&keys[ki].1)) }
            }
        } else {
            match rng.below(if cap > 100 { 40 } else { 14 }) {
                0 | 1 | 2 | 3 => {
                    let ki = if rng.chance(1, 2) { pick_present(rng, &present) } else { pick_absent(rng, &present) };
                    match no_panic(AssertUnwindSafe(|| m.get(&keys[ki].0))) {
                        Some(o) => format!("(IGet {}, ROpt {})", kz(&keys[ki].1), oval(o)),
                        None => { panicked = true; format!("(IGet {}, RPanic)", kz(&keys[ki].1)) }
                    }
                }
                4 | 5 => {
                    let ki = if rng.chance(3, 4) { pick_present(rng, &present) } else { pick_absent(rng, &present) };
                    let v = rand_val(rng, M::VAL_LEN);
                    match no_panic(AssertUnwindSafe(|| m.set(&keys[ki].0, &v))) {
                        Some(o) => format!("(ISet {} {}, ROpt {})", kz(&keys[ki].1), vz(&v), oval(o)),
                        None => { panicked = true; format!("(ISet {} {}, RPanic)", kz(&keys[ki].1), vz(&v)) }
                    }
                }
                6 | 7 => {
                    let i = match rng.below(5) { 0 => 0, 1 => m.len(), 2 => m.len().wrapping_sub(1), 3 => cap, _ => rng.below(cap as u64 + 2) as usize };
                    let iz = if i == usize::MAX { "18446744073709551615".to_string() } else { i.to_string() };
                    match no_panic(AssertUnwindSafe(|| m.idx(i))) {
                        Some(Some((k, v))) => format!("(IIdx {iz}, REnt (Some ({}, {})))", kz(&k), vz(&v)),
                        Some(None) => format!("(IIdx {iz}, REnt None)"),
                        None => { panicked = true; format!("(IIdx {iz}, RPanic)") }
                    }
                }
                8 => format!("(ILen, RLen {} {})", m.len(), b(m.is_empty())),
                9 if rng.chance(1, 12) => {
                    match no_panic(AssertUnwindSafe(|| m.clear())) {
                        Some(()) => { present.clear(); "(IClear, RUnit)".to_string() }
                        None => { panicked = true; "(IClear, RPanic)".to_string() }
                    }
                }
                10 | 11 if cap <= 100 => {
                    let es = m.entries();
                    let mut s = String::from("(IEntries, RList [");
                    for (i, (k, v)) in es.iter().enumerate() {
                        if i > 0 { s.push_str("; "); }
                        s.push_str(&format!("({}, {})", kz(k), vz(v)));
                    }
                    s.push_str("])");
                    s
                }
                12 if cap <= 100 => format!("(IDump, {})", dump(&m)),
                _ => format!("(ILen, RLen {} {})", m.len(), b(m.is_empty())),
            }
        };
        ops.push(line);
    }
    // always finish with a full raw dump
    ops.push(format!("(IDump, {})", dump(&m)));
    let outcome = if panicked { "panic" } else if hit_full && hit_full_remove { "full+remove_at_full" } else if hit_full { "full" } else if n_ops < 3 { "trivial" } else { "below_cap" };
    emit(&format!("{}/{}", M::NAME, outcome), &format!("Hist {} [{}]", cap, ops.join("; ")));
}

/// The 0.10.0 regression scenario and the DisabledMap overflow, deterministically.
fn scripted<M: Fm>(rng: &mut Rng, remove_at: usize, plain_overflow: bool) {
    let cap = M::CAP;
    let keys = M::keys(rng, cap + 2);
    set_ranks(&keys, M::KEY_LEN <= 8 || cap <= 32);
    let mut m = M::new();
    let mut ops = Vec::new();
    for i in 0..cap {
        let v = rand_val(rng, M::VAL_LEN);
        let r = m.ins(&keys[i].0, &v, true);
        ops.push(format!("(IIns {} {} true, RRes ({}))", kz(&keys[i].1), vz(&v), match r { Ok(o) => format!("Ok {}", oval(o)), Err(e) => format!("Err {e}") }));
    }
    let mut panicked = false;
    if plain_overflow {
        let v = rand_val(rng, M::VAL_LEN);
        match no_panic(AssertUnwindSafe(|| m.insp(&keys[cap].0, &v))) {
            Some(o) => ops.push(format!("(IInsP {} {}, ROpt {})", kz(&keys[cap].1), vz(&v), oval(o))),
            None => { panicked = true; ops.push(format!("(IInsP {} {}, RPanic)", kz(&keys[cap].1), vz(&v))) }
        }
    }
    // remove the entry stored at sorted position `remove_at` while the map is full
    let target = m.idx(remove_at.min(cap - 1)).map(|(k, _)| k).unwrap();
    let ki = keys.iter().position(|(_, b)| *b == target).unwrap();
    match no_panic(AssertUnwindSafe(|| m.rem(&keys[ki].0))) {
        Some(o) => ops.push(format!("(IRem {}, ROpt {})", kz(&keys[ki].1), oval(o))),
        None => { panicked = true; ops.push(format!("(IRem {}, RPanic)", kz(&keys[ki].1))) }
    }
    ops.push(format!("(IDump, {})", dump(&m)));
    let v = rand_val(rng, M::VAL_LEN);
    let r = m.ins(&keys[cap + 1].0, &v, true);
    ops.push(format!("(IIns {} {} true, RRes ({}))", kz(&keys[cap + 1].1), vz(&v), match r { Ok(o) => format!("Ok {}", oval(o)), Err(e) => format!("Err {e}") }));
    ops.push(format!("(IDump, {})", dump(&m)));
    emit(&format!("{}/scripted_{}", M::NAME, if panicked { "panic" } else { "full_remove_reinsert" }), &format!("Hist {} [{}]", cap, ops.join("; ")));
}

fn main() {
    let a = args();
    silence_panics();
    let mut rng = Rng::new(a.seed);
    for i in 0..a.n {
        // scripted scenarios first (cheap, deterministic shape)
        if i < 12 {
            let pos = [0usize, 1, 10, 30, 31, usize::MAX][i % 6];
            match i {
                0..=5 => scripted::<own::PkU64x32>(&mut rng, pos, false),
                6 => scripted::<DisabledMap>(&mut rng, 63, true),
                7 => scripted::<Members>(&mut rng, 63, false),
                8 => scripted::<RoleMap>(&mut rng, 31, false),
                9 => scripted::<own::K1U8x1>(&mut rng, 0, true),
                10 => scripted::<TokenBalances>(&mut rng, 15, false),
                _ => scripted::<GlvMarkets>(&mut rng, 95, false),
            }
            continue;
        }
        match rng.below(64) {
            0..=3 => history::<own::K1U8x1>(&mut rng, 24),
            4..=7 => history::<own::K1U8x2>(&mut rng, 30),
            8..=11 => history::<own::K1U8x3>(&mut rng, 40),
            12..=16 => history::<own::K1U8x4>(&mut rng, 50),
            17..=21 => history::<own::K8U64x5>(&mut rng, 60),
            22..=26 => history::<own::StrU128x32>(&mut rng, 140),
            27..=31 => history::<own::PkU64x32>(&mut rng, 140),
            32..=35 => history::<own::PkU32x64>(&mut rng, 240),
            36..=39 => history::<RoleMap>(&mut rng, 140),
            40..=43 => history::<Members>(&mut rng, 240),
            44..=47 => history::<DisabledMap>(&mut rng, 240),
            48..=51 => history::<TokenBalances>(&mut rng, 90),
            52..=54 => history::<TreasuryTokenMap>(&mut rng, 90),
            55..=57 => history::<GlvMarkets>(&mut rng, 330),
            58..=59 => history::<Tokens>(&mut rng, 800),
            60..=61 => history::<PriceMap>(&mut rng, 1500),
            _ => history::<own::PkU8x512>(&mut rng, 1500),
        }
    }
}
