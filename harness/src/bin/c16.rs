//! C16 driver: behavioural cross-check of every configuration key table on the REAL structs.
//!
//! * program `Market` (zeroed bytes): write through `get_config_mut(str)` / `set_config_flag(str)`,
//!   read every key (`get_config_by_key`), every flag, and every market-model parameter slot through the
//!   `gmsol_model` trait accessors (slots are discovered from the `Debug` output of the parameter
//!   structs, so a new builder field shows up by itself);
//! * SDK: the same account bytes decoded as `gmsol_programs::gmsol_store::accounts::Market`, keys read with
//!   the SDK `MarketConfig::get`, slots through `MarketModel`;
//! * program `Store` (zeroed bytes): amount / factor / address keys by string.
use std::sync::Arc;

use anchor_lang::prelude::Pubkey;
use gmsol_model::{BaseMarket, BorrowingFeeMarket, LiquidityMarket, PerpMarket, PnlFactorKind, PositionImpactMarket, SwapMarket};
use gmsol_programs::gmsol_store::accounts::Market as SdkMarket;
use gmsol_programs::model::{MarketModel, SwapPricingKind};
use gmsol_store::states::market::config::{MarketConfigFlag, MarketConfigKey};
use gmsol_store::states::{AddressKey, AmountKey, FactorKey, Market, Store};
use gmsol_utils::market::MarketFlag;
use gmsol_verif_harness::*;
use strum::IntoEnumIterator;

const DEC: u8 = 20;

fn qs(x: &str) -> String {
    format!("\"{x}\"%string")
}

fn snake(camel: &str) -> String {
    let cs: Vec<char> = camel.chars().collect();
    let mut out = String::new();
    for (i, c) in cs.iter().enumerate() {
        if c.is_uppercase() {
            let prev = if i > 0 { Some(cs[i - 1]) } else { None };
            let next = cs.get(i + 1).copied();
            if let Some(p) = prev {
                if p.is_lowercase() || p.is_ascii_digit() || (p.is_uppercase() && next.map_or(false, |n| n.is_lowercase())) {
                    out.push('_');
                }
            }
            out.extend(c.to_lowercase());
        } else {
            out.push(*c);
        }
    }
    out
}

// ---------------------------------------------------------------- Debug-output flattener
/// Flatten `Name { a: 1, b: Inner { c: Some(2) }, d: true }` into [("a","1"),("b.c","Some(2)"),("d","true")].
fn flatten(dbg: &str) -> Vec<(String, String)> {
    fn skip_ws(s: &[u8], mut i: usize) -> usize {
        while i < s.len() && (s[i] as char).is_whitespace() {
            i += 1;
        }
        i
    }
    // parses a value starting at i; pushes leaves with prefix; returns index after the value
    fn value(s: &[u8], i: usize, prefix: &str, out: &mut Vec<(String, String)>) -> usize {
        let mut j = skip_ws(s, i);
        let start = j;
        // identifier / literal token
        while j < s.len() && !matches!(s[j] as char, '{' | ',' | '}' | '(' | ')') && !(s[j] as char).is_whitespace() {
            j += 1;
        }
        let tok = std::str::from_utf8(&s[start..j]).unwrap().to_string();
        let k = skip_ws(s, j);
        if k < s.len() && s[k] == b'{' {
            // struct: fields
            let mut p = k + 1;
            loop {
                p = skip_ws(s, p);
                if s[p] == b'}' {
                    return p + 1;
                }
                let fs = p;
                while s[p] != b':' {
                    p += 1;
                }
                let fname = std::str::from_utf8(&s[fs..p]).unwrap().trim().to_string();
                let np = if prefix.is_empty() { fname } else { format!("{prefix}.{fname}") };
                p = value(s, p + 1, &np, out);
                p = skip_ws(s, p);
                if s[p] == b',' {
                    p += 1;
                }
            }
        }
        if k < s.len() && s[k] == b'(' && tok == "Some" {
            // Some(x): x is a scalar here
            let mut p = k + 1;
            let st = p;
            while s[p] != b')' {
                p += 1;
            }
            out.push((prefix.to_string(), format!("Some({})", std::str::from_utf8(&s[st..p]).unwrap().trim())));
            return p + 1;
        }
        out.push((prefix.to_string(), tok));
        j
    }
    let mut out = vec![];
    value(dbg.as_bytes(), 0, "", &mut out);
    out
}

/// Coq `pval` term of a flattened Debug leaf.
fn pval(v: &str) -> String {
    match v {
        "true" => "(PBool true)".into(),
        "false" => "(PBool false)".into(),
        "None" => "PNone".into(),
        _ => {
            let inner = v.strip_prefix("Some(").and_then(|x| x.strip_suffix(')')).unwrap_or(v);
            assert!(inner.chars().all(|c| c.is_ascii_digit()), "unexpected Debug leaf {v:?}");
            format!("(PNum {inner})")
        }
    }
}

type Slots = Vec<(String, String)>;

fn push_struct<T: std::fmt::Debug>(out: &mut Slots, name: &str, prefix: &str, r: gmsol_model::Result<T>, sdk: bool) {
    let v = r.unwrap_or_else(|e| panic!("{name}: {e}"));
    for (path, val) in flatten(&format!("{v:?}")) {
        let path = if prefix.is_empty() { path } else { format!("{prefix}.{path}") };
        if path.ends_with("discount_factor") {
            // not a config key: the program's plain Market never sets it; the SDK model carries its own
            if val == "None" {
                continue;
            }
            assert!(sdk);
            out.push((format!("{name}/{path}"), "POpaque".into()));
            continue;
        }
        out.push((format!("{name}/{path}"), pval(&val)));
    }
}

fn side(is_long: bool) -> &'static str {
    if is_long { "long" } else { "short" }
}

/// All parameter slots of a market model that come from the configuration.
fn slots_common<M>(m: &M, out: &mut Slots, sdk: bool)
where
    M: PerpMarket<DEC, Num = u128> + SwapMarket<DEC> + PositionImpactMarket<DEC> + BorrowingFeeMarket<DEC>,
{
    for l in [true, false] {
        out.push((format!("max_pool_amount/{}", side(l)), format!("(PNum {})", m.max_pool_amount(l).unwrap())));
        out.push((format!("max_open_interest/{}", side(l)), format!("(PNum {})", m.max_open_interest(l).unwrap())));
        out.push((
            format!("min_collateral_factor_for_open_interest_multiplier/{}", side(l)),
            format!("(PNum {})", m.min_collateral_factor_for_open_interest_multiplier(l).unwrap()),
        ));
        for d in 0..=u8::MAX {
            let Ok(kind) = PnlFactorKind::try_from(d) else { continue };
            let v = m.pnl_factor_config(kind, l).unwrap();
            out.push((format!("pnl_factor_config/{}.{}", snake(&format!("{kind:?}")), side(l)), format!("(PNum {v})")));
        }
    }
    out.push(("reserve_factor/".into(), format!("(PNum {})", m.reserve_factor().unwrap())));
    out.push(("open_interest_reserve_factor/".into(), format!("(PNum {})", m.open_interest_reserve_factor().unwrap())));
    out.push((
        "ignore_open_interest_for_usage_factor/".into(),
        format!("(PBool {})", b(m.ignore_open_interest_for_usage_factor().unwrap())),
    ));
    push_struct(out, "swap_impact_params", "", m.swap_impact_params(), sdk);
    push_struct(out, "position_impact_params", "", m.position_impact_params(), sdk);
    push_struct(out, "position_impact_distribution_params", "", m.position_impact_distribution_params(), sdk);
    push_struct(out, "borrowing_fee_params", "", m.borrowing_fee_params(), sdk);
    push_struct(out, "borrowing_fee_kink_model_params", "", m.borrowing_fee_kink_model_params(), sdk);
    push_struct(out, "funding_fee_params", "", m.funding_fee_params(), sdk);
    push_struct(out, "position_params", "", m.position_params(), sdk);
    push_struct(out, "order_fee_params", "", m.order_fee_params(), sdk);
    push_struct(out, "liquidation_fee_params", "", m.liquidation_fee_params(), sdk);
}

fn program_slots(m: &Market) -> Slots {
    let mut out = vec![];
    slots_common(m, &mut out, false);
    push_struct(&mut out, "swap_fee_params", "", m.swap_fee_params(), false);
    for l in [true, false] {
        out.push((format!("max_pool_value_for_deposit/{}", side(l)), format!("(PNum {})", m.max_pool_value_for_deposit(l).unwrap())));
    }
    out
}

fn sdk_market(m: &Market) -> Arc<SdkMarket> {
    let bytes = bytemuck::bytes_of(m);
    assert_eq!(bytes.len(), std::mem::size_of::<SdkMarket>(), "SDK Market size differs from the program's");
    Arc::new(bytemuck::pod_read_unaligned::<SdkMarket>(bytes))
}

fn sdk_slots(m: &Market) -> Slots {
    let mut model = MarketModel::from_parts(sdk_market(m), 0);
    let mut out = vec![];
    slots_common(&model, &mut out, true);
    for (kind, name) in [
        (SwapPricingKind::Shift, "shift"),
        (SwapPricingKind::Swap, "swap"),
        (SwapPricingKind::Deposit, "deposit"),
        (SwapPricingKind::Withdrawal, "withdrawal"),
    ] {
        let r = model.with_swap_pricing(kind, |m| m.swap_fee_params());
        push_struct(&mut out, "swap_fee_params", &format!("pricing_{name}"), r, true);
    }
    for l in [true, false] {
        out.push((format!("max_pool_value_for_deposit/{}", side(l)), format!("(PNum {})", model.max_pool_value_for_deposit(l).unwrap())));
    }
    out
}

fn keys() -> Vec<MarketConfigKey> {
    (0..=u16::MAX).filter_map(|d| MarketConfigKey::try_from(d).ok()).collect()
}
fn flags() -> Vec<MarketConfigFlag> {
    (0..=u8::MAX).filter_map(|d| MarketConfigFlag::try_from(d).ok()).collect()
}

fn read_keys(m: &Market, sdk: bool) -> String {
    let s = if sdk { Some(sdk_market(m)) } else { None };
    let items: Vec<String> = keys()
        .iter()
        .map(|k| {
            let v = match &s {
                Some(s) => s.config.get(*k).copied(),
                None => m.get_config_by_key(*k).copied(),
            };
            format!("({}, {})", qs(&k.to_string()), oz(v))
        })
        .collect();
    format!("[{}]", items.join("; "))
}

fn read_flags(m: &Market) -> String {
    let items: Vec<String> = flags().iter().map(|f| format!("({}, {})", qs(&f.to_string()), b(m.get_config_flag_by_key(*f)))).collect();
    format!("[{}]", items.join("; "))
}

fn slot_list(s: &Slots) -> String {
    let items: Vec<String> = s.iter().map(|(k, v)| format!("({}, {v})", qs(k))).collect();
    format!("[{}]", items.join("; "))
}

/// Random market: every key gets a distinct value (a few are 0 / huge), random flags, random closed flag.
fn random_market(rng: &mut Rng) -> Box<Market> {
    let mut m: Box<Market> = Box::new(bytemuck::Zeroable::zeroed());
    let base = rng.uint(100) as u128 + 1;
    for (i, k) in keys().iter().enumerate() {
        let v = match rng.below(12) {
            0 => 0,
            1 => u128::MAX - i as u128,
            _ => base * 1000 + i as u128,
        };
        *m.get_config_mut(&k.to_string()).expect("known key") = v;
    }
    for f in flags() {
        m.set_config_flag(&f.to_string(), rng.chance(1, 2)).expect("known flag");
    }
    m.set_flag(MarketFlag::Closed, rng.chance(1, 2));
    m.set_flag(MarketFlag::Pure, rng.chance(1, 2));
    m.set_flag(MarketFlag::Enabled, rng.chance(1, 2));
    m
}

fn snapshot(m: &Market) {
    let closed = m.is_closed();
    emit(
        if closed { "snap/program/closed" } else { "snap/program/open" },
        &format!("Snap 0 {} {} {} {}", b(closed), read_flags(m), read_keys(m, false), slot_list(&program_slots(m))),
    );
    emit(
        if closed { "snap/sdk/closed" } else { "snap/sdk/open" },
        &format!("Snap 1 {} {} {} {}", b(closed), read_flags(m), read_keys(m, true), slot_list(&sdk_slots(m))),
    );
}

fn key_write(rng: &mut Rng, m: &mut Market, name: &str) {
    let v = match rng.below(6) { 0 => 0, 1 => u128::MAX, _ => rng.uint(128) };
    let (b0, s0) = (read_keys(m, false), read_keys(m, true));
    let ok = match m.get_config_mut(name) {
        Ok(r) => { *r = v; true }
        Err(_) => false,
    };
    let tag = if ok { "keywrite/ok" } else { "keywrite/rejected" };
    emit(tag, &format!("KeyWrite 0 {} {} {} {b0} {}", qs(name), z(v), b(ok), read_keys(m, false)));
    emit(tag, &format!("KeyWrite 1 {} {} {} {s0} {}", qs(name), z(v), b(ok), read_keys(m, true)));
}

fn flag_write(rng: &mut Rng, m: &mut Market, name: &str) {
    let v = rng.chance(1, 2);
    let before = read_flags(m);
    let (ok, prev) = match m.set_config_flag(name, v) {
        Ok(p) => (true, p),
        Err(_) => (false, false),
    };
    emit(
        if ok { "flagwrite/ok" } else { "flagwrite/rejected" },
        &format!("FlagWrite {} {} {} {} {before} {}", qs(name), b(v), b(ok), b(prev), read_flags(m)),
    );
}

// ---------------------------------------------------------------- Store
fn addr_of(v: u64) -> Pubkey {
    let mut a = [0u8; 32];
    a[..8].copy_from_slice(&v.to_le_bytes());
    a[31] = 0x5a;
    Pubkey::new_from_array(a)
}
fn addr_val(p: &Pubkey) -> u128 {
    let a = p.to_bytes();
    let lo = u64::from_le_bytes(a[..8].try_into().unwrap()) as u128;
    // any non-sentinel byte pattern is made visible
    let rest: u128 = a[8..31].iter().map(|x| *x as u128).sum::<u128>() + if a[31] == 0x5a || a == [0u8; 32] { 0 } else { 1 };
    lo + (rest << 64)
}

fn store_read(s: &Store, kind: &str) -> String {
    let items: Vec<String> = match kind {
        "amount" => AmountKey::iter().map(|k| format!("({}, {})", qs(&k.to_string()), oz(s.get_amount_by_key(k).map(|v| *v as u128)))).collect(),
        "factor" => FactorKey::iter().map(|k| format!("({}, {})", qs(&k.to_string()), oz(s.get_factor_by_key(k).copied()))).collect(),
        _ => AddressKey::iter().map(|k| format!("({}, {})", qs(&k.to_string()), oz(s.get_address_by_key(k).map(addr_val)))).collect(),
    };
    format!("[{}]", items.join("; "))
}

/// the same fields read through the SDK's generated `Store` struct (field by field)
fn store_read_sdk(s: &Store, kind: &str) -> String {
    use gmsol_programs::gmsol_store::accounts::Store as SdkStore;
    let bytes = bytemuck::bytes_of(s);
    assert_eq!(bytes.len(), std::mem::size_of::<SdkStore>());
    let t: Box<SdkStore> = Box::new(bytemuck::pod_read_unaligned(bytes));
    macro_rules! fields {
        ($part:ident, $conv:expr, $($f:ident),*) => { vec![ $( format!("({}, (Some {}))", qs(stringify!($f)), z($conv(&t.$part.$f))) ),* ] };
    }
    let items: Vec<String> = match kind {
        "amount" => fields!(amount, |v: &u64| *v as u128, claimable_time_window, recent_time_window, request_expiration, oracle_max_age,
            oracle_max_timestamp_range, oracle_max_future_timestamp_excess, adl_prices_max_staleness, min_position_age_for_manual_close,
            market_closed_prices_max_staleness),
        "factor" => fields!(factor, |v: &u128| *v, oracle_ref_price_deviation, order_fee_discount_for_referred_user, max_builder_fee_factor),
        _ => fields!(address, addr_val, holding),
    };
    format!("[{}]", items.join("; "))
}

fn store_write(rng: &mut Rng, s: &mut Store, kind: &str, name: &str) {
    let before = store_read(s, kind);
    let (v, ok): (u128, bool) = match kind {
        "amount" => {
            let v = rng.uint(64) as u64;
            (v as u128, s.get_amount_mut(name).map(|r| *r = v).is_ok())
        }
        "factor" => {
            let v = rng.uint(128);
            (v, s.get_factor_mut(name).map(|r| *r = v).is_ok())
        }
        _ => {
            let v = rng.uint(64) as u64;
            (addr_val(&addr_of(v)), s.get_address_mut(name).map(|r| *r = addr_of(v)).is_ok())
        }
    };
    emit(
        &format!("store/{kind}/{}", if ok { "ok" } else { "rejected" }),
        &format!("StoreWrite {} {} {} {} {before} {} {}", qs(kind), qs(name), z(v), b(ok), store_read(s, kind), store_read_sdk(s, kind)),
    );
}

fn main() {
    let a = args();
    let mut rng = Rng::new(a.seed);
    g7rt::install_stubs();
    // ---- systematic part: one write through every key / flag / store key, plus unknown names
    {
        let mut m = random_market(&mut rng);
        snapshot(&m);
        for k in keys() {
            key_write(&mut rng, &mut m, &k.to_string());
        }
        key_write(&mut rng, &mut m, "no_such_key");
        key_write(&mut rng, &mut m, "ReserveFactor");
        for f in flags() {
            flag_write(&mut rng, &mut m, &f.to_string());
        }
        flag_write(&mut rng, &mut m, "no_such_flag");
        snapshot(&m);
        // all four (closed, enable) combinations on the same config
        for (closed, en) in [(false, false), (false, true), (true, false), (true, true)] {
            m.set_flag(MarketFlag::Closed, closed);
            m.set_config_flag("enable_market_closed_params", en).unwrap();
            snapshot(&m);
        }
        let mut s: Box<Store> = Box::new(bytemuck::Zeroable::zeroed());
        for k in AmountKey::iter() {
            store_write(&mut rng, &mut s, "amount", &k.to_string());
        }
        for k in FactorKey::iter() {
            store_write(&mut rng, &mut s, "factor", &k.to_string());
        }
        for k in AddressKey::iter() {
            store_write(&mut rng, &mut s, "address", &k.to_string());
        }
        for kind in ["amount", "factor", "address"] {
            store_write(&mut rng, &mut s, kind, "no_such_key");
        }
    }
    // ---- random part
    let ks = keys();
    let fs = flags();
    let mut s: Box<Store> = Box::new(bytemuck::Zeroable::zeroed());
    for _ in 0..a.n {
        let mut m = random_market(&mut rng);
        match rng.below(5) {
            0 | 1 => snapshot(&m),
            2 => {
                let k = rng.pick(&ks).to_string();
                key_write(&mut rng, &mut m, &k);
            }
            3 => {
                let f = rng.pick(&fs).to_string();
                flag_write(&mut rng, &mut m, &f);
            }
            _ => {
                let kind = *rng.pick(&["amount", "factor", "address"]);
                let name = match kind {
                    "amount" => AmountKey::iter().nth(rng.below(AmountKey::iter().count() as u64) as usize).unwrap().to_string(),
                    "factor" => FactorKey::iter().nth(rng.below(FactorKey::iter().count() as u64) as usize).unwrap().to_string(),
                    _ => AddressKey::iter().nth(rng.below(AddressKey::iter().count() as u64) as usize).unwrap().to_string(),
                };
                store_write(&mut rng, &mut s, kind, &name);
            }
        }
    }
}
