//! C28 driver: decode_full_report on crafted / random payloads (blob reported as pointer offset + length),
//! panic probes of the unmodelled third-party decoders, and
//! ReportDataVx::abi_encode -> report::decode -> PriceFeedPrice::from_chainlink_report on chosen field values.
use gmsol_chainlink_datastreams::chainlink_data_streams_report::feed_id::ID;
use gmsol_chainlink_datastreams::chainlink_data_streams_report::report::{
    v11::ReportDataV11, v2::ReportDataV2, v3::ReportDataV3, v7::ReportDataV7, v8::ReportDataV8,
};
use gmsol_chainlink_datastreams::report::{decode, decode_compressed_full_report, decode_full_report};
use gmsol_chainlink_datastreams::utils::Compressor;
use gmsol_chainlink_datastreams::FromChainlinkReport;
use gmsol_utils::price::PriceFeedPrice;
use gmsol_verif_harness::*;
use num_bigint::BigInt;

fn rbytes(rng: &mut Rng, n: usize) -> Vec<u8> {
    (0..n).map(|_| rng.next() as u8).collect()
}
fn word_u64(v: u64) -> [u8; 32] {
    let mut w = [0u8; 32];
    w[24..].copy_from_slice(&v.to_be_bytes());
    w
}

/// A full-report payload: mostly well formed, with one perturbation.
fn gen_payload(rng: &mut Rng) -> Vec<u8> {
    if rng.chance(1, 10) {
        let n = match rng.below(6) { 0 => 127, 1 => 128, 2 => 0, 3 => 159, 4 => 160, _ => rng.below(300) as usize };
        let mut p = rbytes(rng, n);
        if n >= 128 && rng.chance(1, 2) {
            // small offset so that random data often gets past the first guards
            p[96..128].copy_from_slice(&word_u64(rng.range(96, 200)));
        }
        return p;
    }
    let gap = 32 * rng.below(3) as usize + if rng.chance(1, 6) { rng.below(7) as usize } else { 0 };
    let offset = 128 + gap;
    let blob_len = match rng.below(5) { 0 => 0, 1 => 32, _ => rng.below(180) as usize };
    let trailing = if rng.chance(1, 2) { 0 } else { rng.below(40) as usize };
    let mut p = rbytes(rng, 96);
    p.extend_from_slice(&word_u64(offset as u64));
    p.extend_from_slice(&rbytes(rng, gap));
    p.extend_from_slice(&word_u64(blob_len as u64));
    p.extend_from_slice(&rbytes(rng, blob_len));
    p.extend_from_slice(&rbytes(rng, trailing));
    let n = p.len();
    let set_off = |p: &mut Vec<u8>, v: u64| p[120..128].copy_from_slice(&v.to_be_bytes());
    let set_len = |p: &mut Vec<u8>, v: u64| p[offset + 24..offset + 32].copy_from_slice(&v.to_be_bytes());
    match rng.below(16) {
        0 => set_off(&mut p, rng.below(128)),
        1 => set_off(&mut p, 127),
        2 => set_off(&mut p, (n as u64).saturating_sub(32) + rng.below(3)), // length word straddles the end
        3 => set_off(&mut p, n as u64 + rng.below(3)),
        4 => set_off(&mut p, u64::MAX - rng.below(40)),                     // offset + 32 overflows usize
        5 => set_off(&mut p, rng.uint(64) as u64),
        6 => set_len(&mut p, (blob_len + trailing) as u64 + rng.below(3)),  // blob end at / just past the end
        7 => set_len(&mut p, u64::MAX - rng.below(200)),                    // length_end + length overflows
        8 => set_len(&mut p, rng.uint(64) as u64),
        9 => { let i = 96 + rng.below(24) as usize; p[i] = rng.range(1, 255) as u8; }            // high bytes of the offset word
        10 => { let i = offset + rng.below(24) as usize; p[i] = rng.range(1, 255) as u8; }       // high bytes of the length word
        11 => { p.truncate(n - 1 - rng.below(3.min(n as u64 - 1)) as usize); }
        _ => {}
    }
    p
}

fn emit_full_report(tag_prefix: &str, p: &[u8]) {
    let pc = p.to_vec();
    let r = no_panic(move || {
        decode_full_report(&pc).map(|(ctx, blob)| {
            let start = blob.as_ptr() as usize - pc.as_ptr() as usize;
            (ctx.concat(), start, blob.len())
        })
    });
    use gmsol_chainlink_datastreams::chainlink_data_streams_report::report::base::ReportError;
    let (tag, rs) = match &r {
        None => ("panic", "None".to_string()),
        Some(Ok((ctx, st, n))) => ("ok", format!("(Some (Ok ({}, {st}, {n})))", zl(ctx))),
        Some(Err(ReportError::DataTooShort(_))) => ("too_short", "(Some (Err 1))".to_string()),
        Some(Err(ReportError::InvalidLength(_))) => ("invalid_length", "(Some (Err 2))".to_string()),
        Some(Err(ReportError::ParseError(_))) => ("parse_error", "(Some (Err 3))".to_string()),
    };
    emit(&format!("{tag_prefix}/{tag}"), &format!("FullReport {} {rs}", zl(p)));
}

#[derive(Clone, Debug)]
struct Fields { version: u16, obs: u32, price: BigInt, bid: BigInt, ask: BigInt, last: u64, status: u32 }

fn feed_id(version: u16, rng: &mut Rng) -> ID {
    let mut b = [0u8; 32];
    for x in b.iter_mut() { *x = rng.next() as u8; }
    b[..2].copy_from_slice(&version.to_be_bytes());
    ID(b)
}

/// ABI-encode the fields with the third-party encoder of the matching schema (None: not encodable).
fn encode(f: &Fields, rng: &mut Rng) -> Option<Vec<u8>> {
    let fee = || BigInt::from(1234u32);
    let (v, patch) = match f.version { 2 | 3 | 7 | 8 | 11 => (f.version, None), other => (3, Some(other)) };
    let id = feed_id(v, rng);
    let mut data = match v {
        2 => ReportDataV2 { feed_id: id, valid_from_timestamp: f.obs, observations_timestamp: f.obs, native_fee: fee(), link_fee: fee(), expires_at: f.obs, benchmark_price: f.price.clone() }.abi_encode().ok()?,
        3 => ReportDataV3 { feed_id: id, valid_from_timestamp: f.obs, observations_timestamp: f.obs, native_fee: fee(), link_fee: fee(), expires_at: f.obs, benchmark_price: f.price.clone(), bid: f.bid.clone(), ask: f.ask.clone() }.abi_encode().ok()?,
        7 => ReportDataV7 { feed_id: id, valid_from_timestamp: f.obs, observations_timestamp: f.obs, native_fee: fee(), link_fee: fee(), expires_at: f.obs, exchange_rate: f.price.clone() }.abi_encode().ok()?,
        8 => ReportDataV8 { feed_id: id, valid_from_timestamp: f.obs, observations_timestamp: f.obs, native_fee: fee(), link_fee: fee(), expires_at: f.obs, last_update_timestamp: f.last, mid_price: f.price.clone(), market_status: f.status }.abi_encode().ok()?,
        _ => ReportDataV11 { feed_id: id, valid_from_timestamp: f.obs, observations_timestamp: f.obs, native_fee: fee(), link_fee: fee(), expires_at: f.obs, mid: f.price.clone(), last_seen_timestamp_ns: f.last, bid: f.bid.clone(), bid_volume: fee(), ask: f.ask.clone(), ask_volume: fee(), last_traded_price: f.price.clone(), market_status: f.status }.abi_encode().ok()?,
    };
    if let Some(other) = patch {
        data[..2].copy_from_slice(&other.to_be_bytes());
    }
    // The third-party `encode_int192` does not sign-extend negative values (it right-aligns the minimal
    // two's-complement bytes in a zero word), so negative fields are re-encoded here as proper int192 words.
    let put = |data: &mut Vec<u8>, word: usize, x: &BigInt| {
        if x.sign() == num_bigint::Sign::Minus {
            let b = x.to_signed_bytes_be();
            let w = &mut data[word * 32..word * 32 + 32];
            for y in w.iter_mut() { *y = 0xff; }
            w[32 - b.len()..].copy_from_slice(&b);
        }
    };
    match v {
        2 | 7 => put(&mut data, 6, &f.price),
        3 => { put(&mut data, 6, &f.price); put(&mut data, 7, &f.bid); put(&mut data, 8, &f.ask); }
        8 => put(&mut data, 7, &f.price),
        _ => { put(&mut data, 6, &f.price); put(&mut data, 8, &f.bid); put(&mut data, 10, &f.ask); }
    }
    Some(data)
}

fn gen_fields(rng: &mut Rng) -> Fields {
    let version: u16 = match rng.below(12) { 0 => 2, 1 => 7, 2 | 3 => 8, 4 | 5 | 6 => 3, 7 => *rng.pick(&[1u16, 4, 5, 6, 9, 10, 12, 0, 65535]), _ => 11 };
    let m128: BigInt = BigInt::from(u128::MAX);
    let ten = BigInt::from(10u32);
    // ask: realistic 18-decimals prices, or around the u128 storage thresholds (2^128 - 1) * 10^i
    let ask: BigInt = match rng.below(8) {
        0 | 1 => { let i = rng.below(20) as u32; let j = rng.below(25) as i64 - 12; &m128 * ten.pow(i) + j }
        2 => { let i = rng.below(19) as u32; let j = rng.below(5) as i64 - 2; (&m128 + 1u32) * ten.pow(i) + j }
        3 => BigInt::from(rng.uint(128)),
        4 => (BigInt::from(1u32) << 191usize) - 1u32 - rng.below(3),
        5 => BigInt::from(rng.below(5)),
        _ => BigInt::from(rng.below(1_000_000)) * ten.pow(rng.range(10, 18) as u32) + rng.below(1000),
    };
    let spread = |rng: &mut Rng, x: &BigInt| -> BigInt {
        match rng.below(6) { 0 => x.clone(), 1 => x - 1u32, 2 => x + 1u32, 3 => x - BigInt::from(rng.below(1_000_000_000)), _ => x - x / BigInt::from(rng.range(2, 100_000)) }
    };
    let mut price = spread(rng, &ask);
    let mut bid = spread(rng, &price);
    let mut ask = ask;
    match rng.below(14) {
        0 => price = -price,
        1 => bid = -bid,
        2 => ask = -ask,
        3 => std::mem::swap(&mut bid, &mut ask),
        4 => bid = BigInt::from(0u32),
        _ => {}
    }
    let obs: u32 = match rng.below(6) { 0 => 0, 1 => u32::MAX, 2 => rng.uint(32) as u32, _ => 1_700_000_000 + rng.below(1000) as u32 };
    let obs_ns = obs as u64 * 1_000_000_000;
    let last: u64 = match rng.below(12) {
        0 => obs_ns,
        1 => obs_ns.saturating_sub(1),
        2 => obs_ns.saturating_sub(999_999_999 + rng.below(3)),
        3 => obs_ns.saturating_add(1),
        4 => obs_ns.saturating_add(999_999_998 + rng.below(3)),
        5 => rng.uint(64) as u64,
        6 => 0,
        7 => u64::MAX,
        _ => obs_ns.saturating_sub(rng.below(5_000_000_000)),
    };
    let status: u32 = match rng.below(10) { 0 => rng.uint(32) as u32, 1 => 6, 2 => 3, _ => rng.below(6) as u32 };
    Fields { version, obs, price, bid, ask, last, status }
}

fn pfp_term(p: &PriceFeedPrice) -> String {
    let b = bytemuck::bytes_of(p);
    let lud = u32::from_le_bytes(b[4..8].try_into().unwrap());
    format!("(mkPfp {} {} {} {lud} {} {} {} {})", b[0], b[1], b[2], z(p.ts()), p.price(), p.min_price(), p.max_price())
}

fn emit_from_fields(tag_prefix: &str, f: &Fields, rng: &mut Rng) {
    let Some(data) = encode(f, rng) else {
        emit(&format!("{tag_prefix}/trivial"), "NoPanic 0 [] 0");
        return;
    };
    use gmsol_chainlink_datastreams::report::DecodeError;
    use gmsol_chainlink_datastreams::Error as E;
    let r = no_panic(move || -> std::result::Result<PriceFeedPrice, u32> {
        let report = decode(&data).map_err(|e| match e {
            DecodeError::InvalidData => 101u32,
            DecodeError::UnsupportedVersion(_) => 103,
            DecodeError::NumOverflow => 104,
            DecodeError::NegativeValue => 105,
            DecodeError::Snap(_) => 106,
            DecodeError::Report(_) => 107,
        })?;
        PriceFeedPrice::from_chainlink_report(&report).map_err(|e| match e {
            E::NegativePrice("price") => 1,
            E::NegativePrice("bid") => 2,
            E::NegativePrice("ask") => 3,
            E::InvalidRange("ask < price") => 4,
            E::InvalidRange("price < bid") => 5,
            E::Overflow("divisor_decimals") => 6,
            E::Overflow(_) => 7,
            E::InvalidRange(_) => 8,
            _ => 99,
        })
    });
    let (tag, rs) = match &r {
        None => ("panic".to_string(), "None".to_string()),
        Some(Ok(p)) => (format!("ok_v{}", f.version), format!("(Some (Ok {}))", pfp_term(p))),
        Some(Err(c)) => (format!("err{c}"), format!("(Some (Err {c}))")),
    };
    emit(&format!("{tag_prefix}/{tag}"),
         &format!("FromFields (mkFields {} {} {} {} {} {} {}) {rs}", f.version, f.obs, z(&f.price), z(&f.bid), z(&f.ask), f.last, f.status));
}

/// A valid full report (context + offset + blob) around an encoded report, for the panic probes.
fn full_report_of(blob: &[u8], rng: &mut Rng) -> Vec<u8> {
    let mut p = rbytes(rng, 96);
    p.extend_from_slice(&word_u64(128));
    p.extend_from_slice(&word_u64(blob.len() as u64));
    p.extend_from_slice(blob);
    p.extend_from_slice(&rbytes(rng, 64));
    p
}

fn mutate(rng: &mut Rng, mut v: Vec<u8>) -> Vec<u8> {
    match rng.below(6) {
        0 => { let n = rng.below(v.len() as u64 + 1) as usize; v.truncate(n); }
        1 | 2 => { for _ in 0..rng.range(1, 6) { if !v.is_empty() { let i = rng.below(v.len() as u64) as usize; v[i] = rng.next() as u8; } } }
        3 => { let n = rng.below(40) as usize; v.extend_from_slice(&rbytes(rng, n)); }
        4 => { if v.len() > 40 { let i = rng.below(v.len() as u64 - 32) as usize; for x in &mut v[i..i + 32] { *x = 0xff; } } }
        _ => {}
    }
    v
}

fn emit_probe(kind: u32, bytes: &[u8]) {
    let b1 = bytes.to_vec();
    let o: Option<bool> = match kind {
        1 => no_panic(move || decode(&b1).is_ok()),
        2 => no_panic(move || decode_compressed_full_report(&b1).is_ok()),
        _ => no_panic(move || {
            (|| -> Option<PriceFeedPrice> {
                let data = Compressor::decompress(&b1).ok()?;
                let (_, blob) = decode_full_report(&data).ok()?;
                let report = decode(blob).ok()?;
                PriceFeedPrice::from_chainlink_report(&report).ok()
            })()
            .is_some()
        }),
    };
    let (tag, oc) = match o { None => ("panic", 2), Some(true) => ("ok", 0), Some(false) => ("err", 1) };
    // long probes are recorded by length only (the bytes are derivable from the seed); short ones in full
    let shown: &[u8] = if bytes.len() <= 400 { bytes } else { &bytes[..0] };
    emit(&format!("probe{kind}/{tag}{}", if shown.is_empty() && !bytes.is_empty() { "_long" } else { "" }), &format!("NoPanic {kind} {} {oc}", zl(shown)));
}

fn main() {
    let a = args();
    silence_panics();
    let mut rng = Rng::new(a.seed);
    if a.extra.iter().any(|x| x == "--witness") {
        // offset word with a non-zero high byte: ABI offset = 2^248 + 128, the code reads 128
        let mut p = vec![7u8; 96];
        let mut w = word_u64(128); w[0] = 1; p.extend_from_slice(&w);
        p.extend_from_slice(&word_u64(4)); p.extend_from_slice(&[1, 2, 3, 4]);
        emit_full_report("witness_offset_high", &p);
        // length word with a non-zero high byte
        let mut p = vec![7u8; 96];
        p.extend_from_slice(&word_u64(128));
        let mut w = word_u64(4); w[23] = 9; p.extend_from_slice(&w); p.extend_from_slice(&[1, 2, 3, 4]);
        emit_full_report("witness_length_high", &p);
        return;
    }
    for i in 0..a.n {
        match (i as u64) % 8 {
            0 | 1 | 2 => { let p = gen_payload(&mut rng); emit_full_report("full_report", &p); }
            3 | 4 | 5 => { let f = gen_fields(&mut rng); emit_from_fields("from_fields", &f, &mut rng); }
            _ => {
                let f = gen_fields(&mut rng);
                let blob = encode(&f, &mut rng).unwrap_or_default();
                let kind = 1 + rng.below(3) as u32;
                let bytes = match kind {
                    1 => match rng.below(4) { 0 => { let n = rng.below(400) as usize; let mut v = rbytes(&mut rng, n); if v.len() >= 2 { v[..2].copy_from_slice(&(*rng.pick(&[2u16, 3, 7, 8, 11])).to_be_bytes()); } v } _ => mutate(&mut rng, blob) },
                    _ => {
                        let full = full_report_of(&blob, &mut rng);
                        match rng.below(5) {
                            0 => { let n = rng.below(200) as usize; rbytes(&mut rng, n) }
                            1 => { let n = rng.below(300) as usize; Compressor::compress(&rbytes(&mut rng, n)).unwrap_or_default() }
                            2 => { let m = mutate(&mut rng, full); Compressor::compress(&m).unwrap_or_default() }
                            3 => { let c = Compressor::compress(&full).unwrap_or_default(); mutate(&mut rng, c) }
                            _ => Compressor::compress(&full).unwrap_or_default(),
                        }
                    }
                };
                emit_probe(kind, &bytes);
            }
        }
    }
}
