//! C25 driver: histories of the real `PriceFeed::update` (through the `verif_update` thin wrapper)
//! on one zero-initialised PriceFeed account, clock from the g9rt syscall stubs.
use gmsol_store::states::PriceFeed;
use gmsol_verif_harness::g5oracle::{anchor_err_num, feed_price};
use gmsol_verif_harness::g6rt::{emit, finish, quiet};
use gmsol_verif_harness::g9rt;
use gmsol_verif_harness::*;

/// (last_published_at_slot, last_published_at, ts, price, min, max, decimals) read from the Pod bytes
fn state(f: &PriceFeed) -> (u64, i64, i64, u128, u128, u128, u8) {
    let b = bytemuck::bytes_of(f);
    let slot = u64::from_le_bytes(b[144..152].try_into().unwrap());
    let at = i64::from_le_bytes(b[152..160].try_into().unwrap());
    assert_eq!(slot, f.last_published_at_slot());
    let p = f.price();
    (slot, at, p.ts(), *p.price(), *p.min_price(), *p.max_price(), b[160])
}
fn feed_term(s: &(u64, i64, i64, u128, u128, u128, u8)) -> String {
    format!("(mkFeed {} {} {} {} {} {} {})", s.0, z(s.1), z(s.2), s.3, s.4, s.5, s.6)
}

fn main() {
    let a = args();
    silence_panics();
    quiet();
    g9rt::install();
    let mut rng = Rng::new(a.seed);
    for _ in 0..a.n {
        let mut feed: Box<PriceFeed> = Box::new(bytemuck::Zeroable::zeroed());
        let len = match rng.below(6) { 0 => 1, 1 => rng.range(2, 5), _ => rng.range(5, 30) } as usize;
        let extreme = rng.chance(1, 8);
        let mut slot: u64 = rng.below(1000);
        let mut now: i64 = if extreme { i64::MAX - rng.below(1000) as i64 } else { 1_700_000_000 + rng.below(1000) as i64 };
        let mut entries = vec![];
        let (mut n_ok, mut n_skip, mut n_rej) = (0, 0, 0);
        for _ in 0..len {
            let cur = state(&feed);
            // clock: mostly advances, sometimes stays, rarely goes backwards
            match rng.below(12) {
                0 => { slot = slot.saturating_sub(rng.range(1, 3)); }
                1 => { now = now.saturating_sub(rng.range(1, 3) as i64); }
                2 => {}
                _ => { slot = slot.saturating_add(rng.below(4)); now = now.saturating_add(rng.below(5) as i64); }
            }
            let mfe: u64 = match rng.below(8) { 0 => 0, 1 => u64::MAX, 2 => rng.uint(64) as u64, _ => rng.range(1, 10) };
            let j = rng.below(5) as i64 - 2;
            let ts: i64 = match rng.below(12) {
                0 => cur.2.saturating_sub(rng.range(1, 5) as i64),           // older
                1 => cur.2,                                                   // equal
                2 => now.saturating_add(mfe.min(i64::MAX as u64) as i64).saturating_add(j), // future edge
                3 => rng.sint(64) as i64,
                4 => i64::MAX - rng.below(3) as i64,
                _ => now.saturating_sub(rng.below(3) as i64).max(cur.2),       // fresh
            };
            let pbits = if rng.chance(1, 6) { 128 } else { 40 };
            let price = rng.uint(pbits);
            let (mn, mx) = match rng.below(10) {
                0 => (price.saturating_add(1), price.saturating_add(5)),       // price < min
                1 => (price.saturating_sub(5), price.saturating_sub(1)),       // price > max (unless 0)
                2 => (price.saturating_add(3), price.saturating_sub(3)),       // max < min
                3 => (price, price),
                _ => (price.saturating_sub(rng.below(100) as u128), price.saturating_add(rng.below(100) as u128)),
            };
            let dec = rng.below(21) as u8;
            let idem = rng.chance(1, 2);
            let p = feed_price(dec, rng.below(8) as u8, rng.below(7) as u8, rng.uint(32) as u32, ts, price, mn, mx);
            g9rt::set_clock(slot, now);
            let mut fcopy = feed.clone();
            let r = no_panic(move || { let r = fcopy.verif_update(&p, mfe, idem); (r, fcopy) });
            let rs = match r {
                None => { n_rej += 1; "(Err 9)".to_string() }
                Some((Ok(true), f2)) => { feed = f2; n_ok += 1; "(Ok true)".to_string() }
                Some((Ok(false), f2)) => { feed = f2; n_skip += 1; "(Ok false)".to_string() }
                Some((Err(e), f2)) => { feed = f2; n_rej += 1; format!("(Err {})", anchor_err_num(&e)) }
            };
            let after = state(&feed);
            entries.push(format!(
                "((mkOp {slot} {} {} {price} {mn} {mx} {dec} {mfe} {}), {rs}, {})",
                z(now), z(ts), b(idem), feed_term(&after)
            ));
        }
        let tag = format!("hist/{}{}", if len >= 5 { "long" } else { "short" }, if n_ok == 0 { "_noupdate" } else if n_skip > 0 && n_rej > 0 { "_mixed" } else if n_skip > 0 { "_skips" } else if n_rej > 0 { "_rejects" } else { "_allok" });
        emit(&tag, &format!("Hist [{}]", entries.join("; ")));
    }
    finish();
}
