//! C19 driver (dynamic part): invokes the REAL store entrypoint `gmsol_store::entry` in-process on a hand-built
//! ledger (real `Store` / `Market` / `MarketConfigBuffer` account bytes) for every store-only instruction we can
//! reach, with callers holding: nothing, each single role, all roles but the required one, the required role,
//! the admin key, the owning key, and the required privilege WITHOUT signing.  Also after a simulated cluster
//! restart (LastRestartSlot stub), where RESTART_ADMIN holders stand in for every role and for the admin.
use anchor_lang::prelude::Pubkey;
use anchor_lang::solana_program::instruction::AccountMeta;
use anchor_lang::{Discriminator, InstructionData, ToAccountMetas};
use gmsol_store::states::market::config::MarketConfigBuffer;
use gmsol_store::states::{Market, RoleKey, Store};
use gmsol_store::{accounts as acc, instruction as ix, CoreError};
use gmsol_verif_harness::g7rt::{self, Acct, Outcome};
use gmsol_verif_harness::*;
use std::sync::atomic::Ordering;

const ROLES: [&str; 10] = [
    RoleKey::ORACLE_CONTROLLER, RoleKey::GT_CONTROLLER, RoleKey::MARKET_KEEPER, RoleKey::ORDER_KEEPER, RoleKey::FEATURE_KEEPER,
    RoleKey::CONFIG_KEEPER, RoleKey::RESTART_ADMIN, RoleKey::PRICE_KEEPER, RoleKey::MIGRATION_KEEPER, RoleKey::MARKET_CONFIG_KEEPER,
];

fn qs(x: &str) -> String {
    format!("\"{x}\"%string")
}
fn key(tag: u8, n: u8) -> Pubkey {
    let mut a = [0u8; 32];
    a[0] = tag;
    a[1] = n;
    a[31] = 0x77;
    Pubkey::new_from_array(a)
}

struct World {
    ledger: Vec<Acct>,
    store: Pubkey,
    market: Pubkey,
    buffer: Pubkey,
    admin: Pubkey,
    receiver: Pubkey,
    next_receiver: Pubkey,
    next_authority: Pubkey,
    buffer_authority: Pubkey,
    nobody: Pubkey,
}

#[derive(Clone)]
struct Caller {
    label: String,
    key: Pubkey,
    is_admin: bool,
    roles: Vec<&'static str>,
    owns: Vec<&'static str>,
}

fn zero_copy_account<T: bytemuck::Pod + Discriminator>(v: &T) -> Vec<u8> {
    let mut d = T::DISCRIMINATOR.to_vec();
    d.extend_from_slice(bytemuck::bytes_of(v));
    d
}

fn world(rng: &mut Rng) -> (World, Vec<Caller>) {
    let pid = gmsol_store::ID;
    let store_key = key(1, rng.below(200) as u8);
    let admin = key(2, 0);
    let receiver = key(3, 0);
    let next_receiver = key(3, 1);
    let next_authority = key(2, 1);
    let buffer_authority = key(4, 0);
    let nobody = key(9, 9);
    let mut store: Box<Store> = Box::new(bytemuck::Zeroable::zeroed());
    store.init(admin, "", 255, receiver, key(5, 0)).expect("store init");
    let mut callers = vec![
        Caller { label: "none".into(), key: nobody, is_admin: false, roles: vec![], owns: vec![] },
        Caller { label: "admin".into(), key: admin, is_admin: true, roles: vec![], owns: vec![] },
        Caller { label: "receiver".into(), key: receiver, is_admin: false, roles: vec![], owns: vec!["receiver"] },
        Caller { label: "next_receiver".into(), key: next_receiver, is_admin: false, roles: vec![], owns: vec!["next_receiver"] },
        Caller { label: "next_authority".into(), key: next_authority, is_admin: false, roles: vec![], owns: vec!["next_authority"] },
        Caller { label: "buffer_authority".into(), key: buffer_authority, is_admin: false, roles: vec![], owns: vec!["buffer_authority"] },
    ];
    for r in ROLES {
        store.enable_role(r).expect("enable");
    }
    for (i, r) in ROLES.iter().enumerate() {
        let single = key(6, i as u8);
        store.grant(&single, r).expect("grant");
        callers.push(Caller { label: format!("only:{r}"), key: single, is_admin: false, roles: vec![r], owns: vec![] });
        let others = key(7, i as u8);
        let mut rs = vec![];
        for o in ROLES.iter().filter(|o| *o != r) {
            store.grant(&others, o).expect("grant");
            rs.push(*o);
        }
        callers.push(Caller { label: format!("all-but:{r}"), key: others, is_admin: false, roles: rs, owns: vec![] });
    }
    gmsol_store::ops::order::verif_hooks_g1::gt_init(&mut store, 7, 100 * 100_000_000_000_000_000_000u128 / 10_000_000, 101 * 1_000_000_000_000_000_000u128, 1_000_000, &[10, 20, 30]).expect("gt init");
    // a market of that store, enabled
    let market_key = key(8, 0);
    let mut market: Box<Market> = Box::new(bytemuck::Zeroable::zeroed());
    market.init(254, store_key, "M", key(8, 1), key(8, 2), key(8, 3), key(8, 4), true).expect("market init");
    // a config buffer owned by buffer_authority (borsh: store, authority, expiry, entries)
    let buffer_key = key(8, 9);
    let mut b = MarketConfigBuffer::DISCRIMINATOR.to_vec();
    b.extend_from_slice(store_key.as_ref());
    b.extend_from_slice(buffer_authority.as_ref());
    b.extend_from_slice(&i64::MAX.to_le_bytes());
    b.extend_from_slice(&0u32.to_le_bytes());
    let mut ledger = vec![
        Acct::new(store_key, pid, zero_copy_account(&*store)),
        Acct::new(market_key, pid, zero_copy_account(&*market)),
        Acct::new(buffer_key, pid, b),
    ];
    {
        use gmsol_programs::gmsol_store::accounts::TokenMapHeader as SdkTm;
        let mut tm: Box<SdkTm> = Box::new(bytemuck::Zeroable::zeroed());
        tm.store = store_key;
        let mut d = <gmsol_store::states::TokenMapHeader as Discriminator>::DISCRIMINATOR.to_vec();
        d.extend_from_slice(bytemuck::bytes_of(&*tm));
        ledger.push(Acct::new(key(8, 20), pid, d));
    }
    for c in &callers {
        ledger.push(Acct::wallet(c.key));
    }
    let mut w = World { ledger, store: store_key, market: market_key, buffer: buffer_key, admin, receiver, next_receiver, next_authority, buffer_authority, nobody };
    // nominate the next authority / receiver through the real instructions
    let o = call(&mut w.ledger, acc::TransferStoreAuthority { authority: admin, store: store_key, next_authority }.to_account_metas(None), ix::TransferStoreAuthority {}.data(), None);
    assert!(o.result.is_ok(), "setup transfer_store_authority: {:?}", o.result);
    let o = call(&mut w.ledger, acc::TransferReceiver { authority: receiver, store: store_key, next_receiver }.to_account_metas(None), ix::TransferReceiver {}.data(), None);
    assert!(o.result.is_ok(), "setup transfer_receiver: {:?}", o.result);
    // mark one key / flag as updatable so that both market-config roles pass the in-handler check (the finer policy is C20's)
    let mk = callers.iter().find(|c| c.label == "only:MARKET_KEEPER").unwrap().key;
    for (is_flag, k) in [(false, "reserve_factor"), (true, "skip_borrowing_fee_for_smaller_side")] {
        let o = call(&mut w.ledger, acc::SetMarketConfigUpdatable { authority: mk, store: store_key }.to_account_metas(None),
            ix::SetMarketConfigUpdatable { is_flag, key: k.into(), updatable: true }.data(), None);
        assert!(o.result.is_ok(), "setup set_market_config_updatable: {:?}", o.result);
    }
    (w, callers)
}

/// Invoke the store program; `unsign` clears the signer flag of that key (privilege without signature).
fn call(ledger: &mut Vec<Acct>, mut metas: Vec<AccountMeta>, data: Vec<u8>, unsign: Option<Pubkey>) -> Outcome {
    if let Some(k) = unsign {
        for m in metas.iter_mut() {
            if m.pubkey == k {
                m.is_signer = false;
            }
        }
    }
    g7rt::process(ledger, gmsol_store::entry, &gmsol_store::ID, &metas, &data)
}

struct Ins {
    name: &'static str,
    /// ownership tag needed (for owner-class instructions)
    owner_tag: Option<&'static str>,
    build: Box<dyn Fn(&World, Pubkey) -> (Vec<AccountMeta>, Vec<u8>)>,
    /// needs LastRestartSlot != store.last_restarted_slot to succeed
    only_after_restart: bool,
    /// accounts to (re)place in the ledger before the call (e.g. an oracle whose recorded authority is the caller)
    prep: Option<Box<dyn Fn(&World, Pubkey) -> Vec<Acct>>>,
}

fn instructions() -> Vec<Ins> {
    let mut v: Vec<Ins> = vec![];
    macro_rules! ins {
        ($name:expr, $tag:expr, $restart:expr, |$w:ident, $c:ident| $accs:expr, $data:expr) => {
            v.push(Ins { name: $name, owner_tag: $tag, only_after_restart: $restart, prep: None, build: Box::new(move |$w: &World, $c: Pubkey| ($accs.to_account_metas(None), $data.data())) })
        };
    }
    // ---- admin
    ins!("enable_role", None, false, |w, c| acc::EnableRole { authority: c, store: w.store }, ix::EnableRole { role: "NEW_ROLE".into() });
    ins!("disable_role", None, false, |w, c| acc::DisableRole { authority: c, store: w.store }, ix::DisableRole { role: RoleKey::PRICE_KEEPER.into() });
    ins!("grant_role", None, false, |w, c| acc::GrantRole { authority: c, store: w.store }, ix::GrantRole { user: key(9, 1), role: RoleKey::ORDER_KEEPER.into() });
    ins!("revoke_role", None, false, |w, c| acc::RevokeRole { authority: c, store: w.store }, ix::RevokeRole { user: key(6, 3), role: RoleKey::ORDER_KEEPER.into() });
    ins!("transfer_store_authority", None, false, |w, c| acc::TransferStoreAuthority { authority: c, store: w.store, next_authority: key(9, 2) }, ix::TransferStoreAuthority {});
    ins!("update_last_restarted_slot", None, true, |w, c| acc::UpdateLastRestartedSlot { authority: c, store: w.store }, ix::UpdateLastRestartedSlot {});
    // ---- CONFIG_KEEPER
    ins!("insert_amount", None, false, |w, c| acc::InsertConfig { authority: c, store: w.store }, ix::InsertAmount { key: "recent_time_window".into(), amount: 77 });
    ins!("insert_factor", None, false, |w, c| acc::InsertConfig { authority: c, store: w.store }, ix::InsertFactor { key: "oracle_ref_price_deviation".into(), factor: 5 });
    ins!("insert_address", None, false, |w, c| acc::InsertConfig { authority: c, store: w.store }, ix::InsertAddress { key: "holding".into(), address: key(9, 3) });
    // ---- MARKET_KEEPER
    ins!("insert_order_fee_discount_for_referred_user", None, false, |w, c| acc::InsertConfig { authority: c, store: w.store }, ix::InsertOrderFeeDiscountForReferredUser { factor: 10 });
    ins!("set_market_config_updatable", None, false, |w, c| acc::SetMarketConfigUpdatable { authority: c, store: w.store }, ix::SetMarketConfigUpdatable { is_flag: false, key: "min_collateral_value".into(), updatable: true });
    ins!("toggle_market", None, false, |w, c| acc::ToggleMarket { authority: c, store: w.store, market: w.market }, ix::ToggleMarket { enable: false });
    ins!("toggle_gt_minting", None, false, |w, c| acc::ToggleGTMinting { authority: c, store: w.store, market: w.market }, ix::ToggleGtMinting { enable: true });
    // ---- FEATURE_KEEPER
    ins!("toggle_feature", None, false, |w, c| acc::ToggleFeature { authority: c, store: w.store }, ix::ToggleFeature { domain: "deposit".into(), action: "create".into(), enable: false });
    // ---- MARKET_KEEPER or MARKET_CONFIG_KEEPER (updatable key / flag; empty unexpired buffer owned by the caller is handled by C20)
    ins!("update_market_config", None, false, |w, c| acc::UpdateMarketConfig { authority: c, store: w.store, market: w.market }, ix::UpdateMarketConfig { key: "reserve_factor".into(), value: 123 });
    ins!("update_market_config_flag", None, false, |w, c| acc::UpdateMarketConfig { authority: c, store: w.store, market: w.market }, ix::UpdateMarketConfigFlag { key: "skip_borrowing_fee_for_smaller_side".into(), value: false });
    // ---- owner / authority class (no role)
    ins!("accept_store_authority", Some("next_authority"), false, |w, c| acc::AcceptStoreAuthority { next_authority: c, store: w.store }, ix::AcceptStoreAuthority {});
    ins!("transfer_receiver", Some("receiver"), false, |w, c| acc::TransferReceiver { authority: c, store: w.store, next_receiver: key(9, 4) }, ix::TransferReceiver {});
    ins!("accept_receiver", Some("next_receiver"), false, |w, c| acc::AcceptReceiver { next_receiver: c, store: w.store }, ix::AcceptReceiver {});
    ins!("set_market_config_buffer_authority", Some("buffer_authority"), false, |w, c| acc::SetMarketConfigBufferAuthority { authority: c, buffer: w.buffer }, ix::SetMarketConfigBufferAuthority { new_authority: key(9, 5) });
    ins!("close_market_config_buffer", Some("buffer_authority"), false, |w, c| acc::CloseMarketConfigBuffer { authority: c, buffer: w.buffer, receiver: key(9, 6) }, ix::CloseMarketConfigBuffer {});
    // ---- GT (the store's GT state is initialised through hook verif_hooks_g1::gt_init in `world`)
    let unit: u128 = 100_000_000_000_000_000_000;
    ins!("gt_set_order_fee_discount_factors", None, false, |w, c| acc::ConfigureGt { authority: c, store: w.store }, ix::GtSetOrderFeeDiscountFactors { factors: vec![0, unit / 100, unit / 50, unit / 25] });
    ins!("gt_set_referral_reward_factors", None, false, |w, c| acc::ConfigureGt { authority: c, store: w.store }, ix::GtSetReferralRewardFactors { factors: vec![0, unit / 100, unit / 50, unit / 25] });
    // ---- token map / oracle (accounts built from the SDK's generated structs)
    ins!("set_token_map", None, false, |w, c| acc::SetTokenMap { authority: c, store: w.store, token_map: key(8, 20) }, ix::SetTokenMap {});
    ins!("clear_all_prices", None, false, |w, c| acc::ClearAllPrices { authority: c, store: w.store, oracle: key(8, 21) }, ix::ClearAllPrices {});
    v.last_mut().unwrap().prep = Some(Box::new(|w: &World, c: Pubkey| {
        // the oracle's recorded authority is the caller, so that only the role decides
        use gmsol_programs::gmsol_store::accounts::Oracle as SdkOracle;
        let mut o: Box<SdkOracle> = Box::new(bytemuck::Zeroable::zeroed());
        o.store = w.store;
        o.authority = c;
        let mut d = <gmsol_store::states::Oracle as Discriminator>::DISCRIMINATOR.to_vec();
        d.extend_from_slice(bytemuck::bytes_of(&*o));
        vec![Acct::new(key(8, 21), gmsol_store::ID, d)]
    }));
    v
}

fn code(o: &Outcome) -> i64 {
    use anchor_lang::solana_program::program_error::ProgramError;
    match &o.result {
        Ok(()) => 0,
        Err(ProgramError::Custom(c)) => *c as i64,
        Err(_) => -1,
    }
}

fn main() {
    let a = args();
    let mut rng = Rng::new(a.seed);
    silence_panics();
    g7rt::install_stubs();
    // documented denial codes, for the Coq side
    emit("codes", &format!("DenialCodes {} {} {} {}", u32::from(CoreError::NotAnAdmin), u32::from(CoreError::PermissionDenied),
        u32::from(CoreError::StoreOutdated), u32::from(anchor_lang::error::ErrorCode::AccountNotSigner)));
    let rounds = 1 + a.n / 1500;
    for round in 0..rounds {
        for restarted in [false, true] {
            let (w, callers) = world(&mut rng);
            let _ = (w.admin, w.receiver, w.next_receiver, w.next_authority, w.buffer_authority, w.nobody);
            for ins in instructions() {
                if ins.only_after_restart && !restarted {
                    continue;
                }
                // the store-level hand-over instructions refuse an outdated store altogether (validate_not_restarted)
                if restarted && matches!(ins.owner_tag, Some("next_authority") | Some("receiver") | Some("next_receiver")) {
                    continue;
                }
                for c in &callers {
                    for signed in [true, false] {
                        // unsigned calls only for callers that carry some privilege (and the nobody) to keep the matrix small
                        if !signed && round > 0 && c.roles.len() > 1 {
                            continue;
                        }
                        let mut ledger = w.ledger.clone();
                        g7rt::LAST_RESTART_SLOT.store(if restarted { 7 } else { 0 }, Ordering::SeqCst);
                        let (metas, data) = (ins.build)(&w, c.key);
                        if let Some(prep) = &ins.prep {
                            for a in prep(&w, c.key) {
                                ledger.retain(|x| x.key != a.key);
                                ledger.push(a);
                            }
                        }
                        let before = ledger.clone();
                        let o = call(&mut ledger, metas, data, if signed { None } else { Some(c.key) });
                        // accounts the call mentions but that do not exist yet appear as empty system accounts
                        let unchanged = ledger.iter().zip(before.iter()).all(|(x, y)| x == y)
                            && ledger.iter().skip(before.len()).all(|x| x.lamports == 0 && x.data.is_empty());
                        let is_owner = ins.owner_tag.map_or(false, |t| c.owns.contains(&t));
                        let roles: Vec<String> = c.roles.iter().map(|r| qs(r)).collect();
                        let tag = format!(
                            "{}/{}{}",
                            ins.name,
                            if o.result.is_ok() { "ok" } else { "rejected" },
                            if restarted { "/restarted" } else { "" }
                        );
                        emit(&tag, &format!(
                            "Access {} {} {} {} {} [{}] {} {} {} {} {} {} {}",
                            qs("store"), qs(ins.name), qs(&c.label), b(signed), b(c.is_admin), roles.join("; "), b(ins.owner_tag.is_some()), b(is_owner), b(restarted),
                            b(o.result.is_ok()), z(code(&o)), b(o.touched_before_return && o.result.is_err()), b(unchanged),
                        ));
                    }
                }
            }
        }
    }
    g7rt::LAST_RESTART_SLOT.store(0, Ordering::SeqCst);
}
