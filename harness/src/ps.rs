//! Position-system helpers shared by the C07..C11 drivers: a plain-number configuration
//! from which the harness market config is built (several parameter structs of
//! gmsol-model have private fields and no getters), and printers that emit the Coq
//! records of coq/PS/Model.v.
use crate::vmarket::{MaxPnlFactors, TestMarket, TestMarketConfig, TestPool, TestPosition};
use crate::{oz, z};
use gmsol_model::{
    fixed::FixedPointOps,
    num::Unsigned,
    params::{
        fee::{
            BorrowingFeeKinkModelParamsForOneSide, BorrowingFeeParams, FundingFeeParams,
            LiquidationFeeParams,
        },
        position::PositionImpactDistributionParams,
        FeeParams, PositionParams, PriceImpactParams,
    },
    price::{Price, Prices},
};
use std::fmt::Display;

/// All numbers of a market configuration.
#[derive(Clone, Debug)]
pub struct PsCfg<T> {
    // position params
    pub min_size: T,
    pub min_cv: T,
    pub min_cf: T,
    pub min_cf_liq: Option<T>,
    pub max_pos_impact: T,
    pub max_neg_impact: T,
    pub max_impact_liq: T,
    // position impact params
    pub ip_exp: T,
    pub ip_pos: T,
    pub ip_neg: T,
    // order fee params
    pub fee_pos: T,
    pub fee_neg: T,
    pub fee_recv: T,
    pub fee_discount: Option<T>,
    pub borrow_recv: T,
    pub liq_factor: T,
    pub liq_recv: T,
    pub reserve: T,
    pub oi_reserve: T,
    pub max_pnl_trader: T,
    pub max_pnl_adl: T,
    pub min_pnl_after_adl: T,
    pub max_oi: T,
    pub min_cf_oi_mult: T,
    pub funding_adj: T,
    // environment (fee-state updates), not part of the Coq config record
    pub divisor: T,
    pub funding: [T; 8], // exponent, funding_factor, max, min, increase, decrease, thr_stable, thr_decrease
    pub borrowing: [T; 4], // exponent long/short, factor long/short
    pub borrowing_skip_smaller: bool,
    pub kink: [T; 3], // optimal usage, base, above optimal
    pub distribute: [T; 2], // distribute factor, min pool amount
    pub max_pool_amount: T,
    pub ignore_oi_for_usage: bool,
}

impl<T: Copy + Display> PsCfg<T> {
    pub fn coq(&self) -> String {
        format!(
            "(MkConfig (MkPosParams {} {} {} {} {} {} {}) (MkImpactParams {} {} {}) (MkFeeParams {} {} {} {}) {} {} {} {} {} {} {} {} {} {} {})",
            z(self.min_size), z(self.min_cv), z(self.min_cf), oz(self.min_cf_liq), z(self.max_pos_impact), z(self.max_neg_impact), z(self.max_impact_liq),
            z(self.ip_exp), z(self.ip_pos), z(self.ip_neg),
            z(self.fee_pos), z(self.fee_neg), z(self.fee_recv), oz(self.fee_discount),
            z(self.borrow_recv), z(self.liq_factor), z(self.liq_recv), z(self.reserve), z(self.oi_reserve),
            z(self.max_pnl_trader), z(self.max_pnl_adl), z(self.min_pnl_after_adl), z(self.max_oi), z(self.min_cf_oi_mult), z(self.funding_adj)
        )
    }
}

pub fn build_config<T, const D: u8>(c: &PsCfg<T>) -> TestMarketConfig<T, D>
where
    T: Copy + Unsigned + FixedPointOps<D>,
{
    let order_fee = {
        let b = FeeParams::builder()
            .fee_receiver_factor(c.fee_recv)
            .positive_impact_fee_factor(c.fee_pos)
            .negative_impact_fee_factor(c.fee_neg)
            .build();
        match c.fee_discount {
            Some(d) => b.with_discount_factor(d),
            None => b,
        }
    };
    TestMarketConfig {
        swap_impact_params: PriceImpactParams::builder()
            .exponent(c.ip_exp)
            .positive_factor(c.ip_pos)
            .negative_factor(c.ip_neg)
            .build(),
        swap_fee_params: FeeParams::builder()
            .fee_receiver_factor(c.fee_recv)
            .positive_impact_fee_factor(c.fee_pos)
            .negative_impact_fee_factor(c.fee_neg)
            .build(),
        position_params: PositionParams::builder()
            .min_position_size_usd(c.min_size)
            .min_collateral_value(c.min_cv)
            .min_collateral_factor(c.min_cf)
            .min_collateral_factor_for_liquidation(c.min_cf_liq)
            .max_positive_position_impact_factor(c.max_pos_impact)
            .max_negative_position_impact_factor(c.max_neg_impact)
            .max_position_impact_factor_for_liquidations(c.max_impact_liq)
            .build(),
        position_impact_params: PriceImpactParams::builder()
            .exponent(c.ip_exp)
            .positive_factor(c.ip_pos)
            .negative_factor(c.ip_neg)
            .build(),
        order_fee_params: order_fee,
        position_impact_distribution_params: PositionImpactDistributionParams::builder()
            .distribute_factor(c.distribute[0])
            .min_position_impact_pool_amount(c.distribute[1])
            .build(),
        borrowing_fee_params: BorrowingFeeParams::builder()
            .receiver_factor(c.borrow_recv)
            .exponent_for_long(c.borrowing[0])
            .exponent_for_short(c.borrowing[1])
            .factor_for_long(c.borrowing[2])
            .factor_for_short(c.borrowing[3])
            .skip_borrowing_fee_for_smaller_side(c.borrowing_skip_smaller)
            .build(),
        borrowing_fee_kink_model_params: BorrowingFeeKinkModelParamsForOneSide::builder()
            .optimal_usage_factor(c.kink[0])
            .base_borrowing_factor(c.kink[1])
            .above_optimal_usage_borrowing_factor(c.kink[2])
            .build(),
        funding_fee_params: FundingFeeParams::builder()
            .exponent(c.funding[0])
            .funding_factor(c.funding[1])
            .max_factor_per_second(c.funding[2])
            .min_factor_per_second(c.funding[3])
            .increase_factor_per_second(c.funding[4])
            .decrease_factor_per_second(c.funding[5])
            .threshold_for_stable_funding(c.funding[6])
            .threshold_for_decrease_funding(c.funding[7])
            .build(),
        reserve_factor: c.reserve,
        open_interest_reserve_factor: c.oi_reserve,
        max_pnl_factors: MaxPnlFactors {
            deposit: c.max_pnl_trader,
            withdrawal: c.max_pnl_trader,
            trader: c.max_pnl_trader,
            adl: c.max_pnl_adl,
        },
        min_pnl_factor_after_adl: c.min_pnl_after_adl,
        max_pool_amount: c.max_pool_amount,
        max_pool_value_for_deposit: c.max_pool_amount,
        max_open_interest: c.max_oi,
        min_collateral_factor_for_oi: c.min_cf_oi_mult,
        ignore_open_interest_for_usage_factor: c.ignore_oi_for_usage,
        liquidation_fee_params: LiquidationFeeParams::builder()
            .factor(c.liq_factor)
            .receiver_factor(c.liq_recv)
            .build(),
    }
}

pub fn new_market<T, const D: u8>(c: &PsCfg<T>) -> TestMarket<T, D>
where
    T: Copy + Default + Unsigned + FixedPointOps<D>,
    T::Signed: Default,
{
    TestMarket::new(c.divisor, c.funding_adj, build_config(c))
}

pub fn pool<T: Copy + Display>(p: &TestPool<T>) -> String {
    format!("(MkPool {} {})", z(p.long_amount), z(p.short_amount))
}
pub fn opool<T: Copy + Display>(p: &Option<TestPool<T>>) -> String {
    match p {
        Some(p) => format!("(Some {})", pool(p)),
        None => "None".into(),
    }
}

/// `MkMarket cfg pools...` (coq/PS/Model.v field order).
pub fn market<T, const D: u8>(c: &PsCfg<T>, m: &TestMarket<T, D>) -> String
where
    T: Copy + Display + Unsigned,
{
    format!(
        "(MkMarket {} {} {} {} {} {} {} {} {} {} {} {} {} {} {} {} {} {} {})",
        c.coq(),
        pool(&m.primary), pool(&m.swap_impact), pool(&m.fee),
        pool(&m.open_interest.0), pool(&m.open_interest.1),
        pool(&m.open_interest_in_tokens.0), pool(&m.open_interest_in_tokens.1),
        pool(&m.position_impact), pool(&m.borrowing_factor), pool(&m.total_borrowing),
        pool(&m.funding_amount_per_size.0), pool(&m.funding_amount_per_size.1),
        pool(&m.claimable_funding_amount_per_size.0), pool(&m.claimable_funding_amount_per_size.1),
        pool(&m.collateral_sum.0), pool(&m.collateral_sum.1),
        opool(&m.vi_swaps), opool(&m.vi_positions)
    )
}

/// Market state without the configuration: `MkMState pools...` (coq/PS/Hist.v).
pub fn mstate<T, const D: u8>(m: &TestMarket<T, D>) -> String
where
    T: Copy + Display + Unsigned,
{
    format!(
        "(MkMState {} {} {} {} {} {} {} {} {} {} {} {} {} {} {} {} {} {})",
        pool(&m.primary), pool(&m.swap_impact), pool(&m.fee),
        pool(&m.open_interest.0), pool(&m.open_interest.1),
        pool(&m.open_interest_in_tokens.0), pool(&m.open_interest_in_tokens.1),
        pool(&m.position_impact), pool(&m.borrowing_factor), pool(&m.total_borrowing),
        pool(&m.funding_amount_per_size.0), pool(&m.funding_amount_per_size.1),
        pool(&m.claimable_funding_amount_per_size.0), pool(&m.claimable_funding_amount_per_size.1),
        pool(&m.collateral_sum.0), pool(&m.collateral_sum.1),
        opool(&m.vi_swaps), opool(&m.vi_positions)
    )
}

pub fn position<T: Copy + Display, const D: u8>(p: &TestPosition<T, D>) -> String {
    format!(
        "(MkPos {} {} {} {} {} {} {} {} {})",
        crate::b(p.is_long), crate::b(p.is_collateral_token_long),
        z(p.collateral_token_amount), z(p.size_in_usd), z(p.size_in_tokens),
        z(p.borrowing_factor), z(p.funding_fee_amount_per_size),
        z(p.claimable_funding_fee_amount_per_size.0), z(p.claimable_funding_fee_amount_per_size.1)
    )
}

pub fn price<T: Copy + Display>(p: &Price<T>) -> String {
    format!("(MkPrice {} {})", z(p.min), z(p.max))
}
pub fn prices<T: Copy + Display>(p: &Prices<T>) -> String {
    format!("(MkPrices {} {} {})", price(&p.index_token_price), price(&p.long_token_price), price(&p.short_token_price))
}

/// Error kind numbering of coq/PS/Model.v.
pub fn err_code(e: &gmsol_model::Error) -> u32 {
    use gmsol_model::{position::LiquidatableReason as R, position::InsolventCloseStep as S, Error as E};
    match e {
        E::Computation(_) => 1,
        E::InvalidArgument(_) => 2,
        E::InvalidPosition(_) => 3,
        E::Liquidatable(R::MinCollateral) => 41,
        E::Liquidatable(R::NotPositive) => 42,
        E::Liquidatable(R::MinCollateralForLeverage) => 43,
        E::NotLiquidatable => 5,
        E::Overflow => 6,
        E::Convert => 7,
        E::MaxOpenInterestExceeded => 8,
        E::InsufficientReserve(_, _) => 9,
        E::InsufficientReserveForOpenInterest(_, _) => 10,
        E::InsufficientFundsToPayForCosts(s) => {
            110 + match s {
                S::Pnl => 0,
                S::Fees => 1,
                S::Funding => 2,
                S::Impact => 3,
                S::Diff => 4,
                _ => 9,
            }
        }
        E::InvalidPrices => 12,
        E::PowComputation => 13,
        _ => 99,
    }
}
