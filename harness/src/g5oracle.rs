//! g5: in-process runner for the real oracle pipeline
//! `Oracle::with_prices_opts` (via the `verif_with_prices_opts` thin wrapper) on custom
//! `PriceFeed` accounts: parse_from_feed_account -> check_and_get_price -> price adjustment ->
//! PriceValidator::validate_one -> PriceMap::set -> merge_range/finish -> f -> clear_all_prices.
//! Accounts live in a `g9rt::Arena`; the clock comes from the `g9rt` syscall stubs.
use crate::g9rt;
use anchor_lang::prelude::*;
use gmsol_store::states::{
    Oracle, PriceFeed, Store, TokenMapAccessMut, TokenMapHeader, TokenMapLoader,
};
use gmsol_store::CoreError;
use gmsol_utils::price::{MarketStatusFlag, PriceFeedPrice};
use gmsol_utils::token_config::{FeedConfig, TokenConfig, TokenConfigFlag};

/// Error numbering shared with the Coq models (C24/C29 Corr.v).
pub fn err_num(code: u32) -> u32 {
    let t = |e: CoreError| -> u32 { e.into() };
    let table: &[(CoreError, u32)] = &[
        (CoreError::InvalidArgument, 1),
        (CoreError::InvalidPriceFeedPrice, 2),
        (CoreError::MaxPriceAgeExceeded, 3),
        (CoreError::MaxPriceTimestampExceeded, 4),
        (CoreError::TokenAmountOverflow, 5),
        (CoreError::InvalidOracleTimestampsRange, 6),
        (CoreError::MaxOracleTimestampsRangeExceeded, 7),
        (CoreError::MarketNotOpen, 8),
        (CoreError::PriceFeedNotUpdated, 10),
        (CoreError::InvalidPriceFeedAccount, 11),
        (CoreError::TokenConfigDisabled, 12),
        (CoreError::NotFound, 13),
        (CoreError::NotEnoughTokenFeeds, 14),
        (CoreError::PricesAreAlreadySet, 15),
        (CoreError::InvalidProviderKindIndex, 16),
        (CoreError::PreconditionsAreNotMet, 17),
        (CoreError::OracleNotUpdated, 18),
        (CoreError::OracleTimestampsAreSmallerThanRequired, 19),
        (CoreError::OracleTimestampsAreLargerThanRequired, 20),
        (CoreError::InvalidOracleSlot, 21),
        (CoreError::ExceedMaxLengthLimit, 22),
        (CoreError::Internal, 23),
    ];
    for (e, n) in table {
        if t(*e) == code {
            return *n;
        }
    }
    // `require_eq!(expected_provider, provider)` without a custom error
    if code == u32::from(anchor_lang::error::ErrorCode::RequireEqViolated) {
        return 24;
    }
    100_000 + code
}

pub fn anchor_err_num(e: &anchor_lang::error::Error) -> u32 {
    err_num(g9rt::err_code(e))
}

/// The 64-byte `PriceFeedPrice` from its fields (all flag / status bytes reachable).
#[allow(clippy::too_many_arguments)]
pub fn feed_price(
    decimals: u8,
    pflags: u8,
    status: u8,
    lud: u32,
    ts: i64,
    price: u128,
    min: u128,
    max: u128,
) -> PriceFeedPrice {
    let mut bytes = [0u8; 64];
    bytes[0] = decimals;
    bytes[1] = pflags;
    bytes[2] = status;
    bytes[4..8].copy_from_slice(&lud.to_le_bytes());
    bytes[8..16].copy_from_slice(&ts.to_le_bytes());
    bytes[16..32].copy_from_slice(&price.to_le_bytes());
    bytes[32..48].copy_from_slice(&min.to_le_bytes());
    bytes[48..64].copy_from_slice(&max.to_le_bytes());
    bytemuck::pod_read_unaligned(&bytes)
}

#[derive(Clone, Debug)]
pub struct TokenSpec {
    pub td: u8,
    pub precision: u8,
    pub heartbeat: u32,
    pub allow_adjust: bool,
    /// max_deviation_ratio of the expected provider's feed config (0 = none)
    pub ratio: u32,
    pub ts_adj: u32,
    pub policy: u8,
    pub enabled: bool,
    pub synthetic: bool,
    pub expected_provider: u8,
    /// the token is present in the token map
    pub in_map: bool,
}

impl Default for TokenSpec {
    fn default() -> Self {
        Self { td: 8, precision: 4, heartbeat: 60, allow_adjust: false, ratio: 0, ts_adj: 0, policy: 0, enabled: true, synthetic: false, expected_provider: 0, in_map: true }
    }
}

#[derive(Clone, Debug)]
pub struct FeedSpec {
    pub provider: u8,
    pub decimals: u8,
    pub pflags: u8,
    pub status: u8,
    pub lud: u32,
    pub ts: i64,
    pub price: u128,
    pub min: u128,
    pub max: u128,
    pub slot: u64,
    pub published_at: i64,
    /// the account is owned by the store program
    pub owner_ok: bool,
    /// feed_id equals the token config's feed for the provider
    pub feed_id_ok: bool,
}

#[derive(Clone, Debug)]
pub struct Env {
    pub now: i64,
    pub slot: u64,
    pub max_age: u64,
    pub max_range: u64,
    pub max_future: u64,
}

/// TokenConfig for a spec; the feed of provider `expected_provider` is `feed_id`.
pub fn token_config(spec: &TokenSpec, feed_id: Pubkey) -> TokenConfig {
    let mut tc: TokenConfig = bytemuck::Zeroable::zeroed();
    tc.set_flag(TokenConfigFlag::Initialized, true);
    tc.set_enabled(spec.enabled);
    tc.set_synthetic(spec.synthetic);
    tc.set_flag(TokenConfigFlag::AllowPriceAdjustment, spec.allow_adjust);
    tc.token_decimals = spec.td;
    tc.precision = spec.precision;
    tc.expected_provider = spec.expected_provider;
    tc.heartbeat_duration = spec.heartbeat;
    let mut fc = FeedConfig::new(feed_id).with_timestamp_adjustment(spec.ts_adj);
    if spec.ratio != 0 {
        fc = fc
            .with_max_deviation_factor(Some(spec.ratio as u128 * FeedConfig::RATIO_MULTIPLIER))
            .expect("ratio");
    }
    for i in 0..6u8 {
        if spec.policy & (1 << i) != 0 {
            fc.set_market_status_flag(MarketStatusFlag::try_from(i).expect("flag"), true);
        }
    }
    if (spec.expected_provider as usize) < tc.feeds.len() {
        tc.feeds[spec.expected_provider as usize] = fc;
    }
    tc
}

/// Bytes of a `PriceFeed` account (discriminator + Pod layout).
pub fn price_feed_data(f: &FeedSpec, store: &Pubkey, token: &Pubkey, feed_id: &Pubkey) -> Vec<u8> {
    let n = std::mem::size_of::<PriceFeed>();
    assert_eq!(n, 16 + 32 * 4 + 16 + 64 + 256);
    let mut d = vec![0u8; 8 + n];
    d[..8].copy_from_slice(<PriceFeed as anchor_lang::Discriminator>::DISCRIMINATOR);
    let b = &mut d[8..];
    b[0] = 255; // bump
    b[1] = f.provider;
    b[16..48].copy_from_slice(store.as_ref());
    b[48..80].copy_from_slice(g9rt::key(900).as_ref());
    b[80..112].copy_from_slice(token.as_ref());
    b[112..144].copy_from_slice(feed_id.as_ref());
    b[144..152].copy_from_slice(&f.slot.to_le_bytes());
    b[152..160].copy_from_slice(&f.published_at.to_le_bytes());
    let p = feed_price(f.decimals, f.pflags, f.status, f.lud, f.ts, f.price, f.min, f.max);
    b[160..224].copy_from_slice(bytemuck::bytes_of(&p));
    d
}

#[derive(Debug, Clone)]
pub struct OracleState {
    pub cleared: bool,
    pub len: usize,
    pub min_ts: i64,
    pub max_ts: i64,
    pub min_slot: Option<u64>,
}

fn state_of(o: &Oracle) -> OracleState {
    OracleState {
        cleared: o.is_cleared(),
        len: o.verif_primary_len(),
        min_ts: o.min_oracle_ts(),
        max_ts: o.max_oracle_ts(),
        min_slot: o.min_oracle_slot(),
    }
}

#[derive(Debug, Clone)]
pub struct RunResult {
    /// Err(code) from with_prices_opts (numbered by `err_num`), or the closure's view
    pub res: std::result::Result<(), u32>,
    /// state seen by the closure (if it ran) and, per token, the stored unit prices
    /// `get_primary_price(token, true)` = (min, max) or its error
    pub inside: Option<(OracleState, Vec<std::result::Result<(u128, u128), u32>>)>,
    /// state after with_prices_opts returned
    pub after: OracleState,
}

/// Run the real pipeline once.  `f_fails`: the wrapped operation returns an error (code 7777).
/// `n_feeds_given`: how many of the feed accounts are actually passed (normally tokens.len()).
pub fn run(
    env: &Env,
    tokens: &[(TokenSpec, FeedSpec)],
    f_fails: bool,
    allow_closed: bool,
    n_feeds_given: usize,
    dup_first_token: bool,
    start_cleared: bool,
) -> RunResult {
    g9rt::install();
    g9rt::set_clock(env.slot, env.now);
    let pid = gmsol_store::ID;
    let mut arena = g9rt::Arena::new();

    // store
    let store_key = g9rt::key(1);
    let mut store: Box<Store> = Box::new(bytemuck::Zeroable::zeroed());
    *store.get_amount_mut("oracle_max_age").expect("k") = env.max_age;
    *store.get_amount_mut("oracle_max_timestamp_range").expect("k") = env.max_range;
    *store.get_amount_mut("oracle_max_future_timestamp_excess").expect("k") = env.max_future;
    let i_store = arena.add(store_key, pid, 1, &g9rt::zero_copy_data(&*store), false, false, false);

    // token map
    let n = tokens.len();
    let hdr = std::mem::size_of::<TokenMapHeader>();
    let mut tm = vec![0u8; 8 + hdr + n * std::mem::size_of::<TokenConfig>()];
    tm[..8].copy_from_slice(<TokenMapHeader as anchor_lang::Discriminator>::DISCRIMINATOR);
    let i_tm = arena.add(g9rt::key(2), pid, 1, &tm, false, true, false);

    let mut token_keys = vec![];
    let mut feed_idx = vec![];
    for (k, (ts, fs)) in tokens.iter().enumerate() {
        let token = g9rt::key(100 + k as u64);
        let feed_id = g9rt::key(200 + k as u64);
        token_keys.push(token);
        let data = price_feed_data(fs, &store_key, &token, &if fs.feed_id_ok { feed_id } else { g9rt::key(999) });
        let owner = if fs.owner_ok { pid } else { g9rt::key(998) };
        feed_idx.push(arena.add(g9rt::key(300 + k as u64), owner, 1, &data, false, false, false));
        let _ = ts;
    }
    let infos: &'static Vec<AccountInfo<'static>> = Box::leak(Box::new(
        std::iter::once(arena.info(i_store))
            .chain(std::iter::once(arena.info(i_tm)))
            .chain(feed_idx.iter().map(|i| arena.info(*i)))
            .collect::<Vec<_>>(),
    ));
    let store_loader: AccountLoader<'static, Store> = AccountLoader::try_from(&infos[0]).expect("store loader");
    let tm_loader: AccountLoader<'static, TokenMapHeader> = AccountLoader::try_from(&infos[1]).expect("token map loader");
    {
        let mut m = tm_loader.load_token_map_mut().expect("load_token_map_mut");
        for (k, (ts, _)) in tokens.iter().enumerate() {
            if !ts.in_map {
                continue;
            }
            let tc = token_config(ts, g9rt::key(200 + k as u64));
            m.push_with(&token_keys[k], |dst| { *dst = tc; Ok(()) }, true).expect("push");
        }
    }

    let mut oracle: Box<Oracle> = Box::new(bytemuck::Zeroable::zeroed());
    if start_cleared {
        oracle.verif_clear_all_prices();
    }

    let mut call_tokens = token_keys.clone();
    if dup_first_token && !call_tokens.is_empty() {
        // same token twice (second copy replaces the last token)
        let l = call_tokens.len();
        call_tokens[l - 1] = call_tokens[0];
    }
    let remaining: &'static [AccountInfo<'static>] = &infos[2..2 + n_feeds_given.min(n)];
    let mut inside = None;
    let toks = call_tokens.clone();
    let r = oracle.verif_with_prices_opts(
        &store_loader,
        &tm_loader,
        &call_tokens,
        remaining,
        |o, _rest| {
            let st = state_of(o);
            let prices = toks
                .iter()
                .map(|t| match o.get_primary_price(t, true) {
                    Ok(p) => Ok((p.min, p.max)),
                    Err(e) => Err(anchor_err_num(&e)),
                })
                .collect();
            inside = Some((st, prices));
            if f_fails {
                Err(anchor_lang::error::Error::from(ProgramError::Custom(7777)))
            } else {
                Ok(())
            }
        },
        allow_closed,
    );
    let res = match r {
        Ok(()) => Ok(()),
        Err(e) => {
            let c = g9rt::err_code(&e);
            Err(if c == 7777 { 7777 } else { err_num(c) })
        }
    };
    RunResult { res, inside, after: state_of(&oracle) }
}
