//! g9 runtime support: syscall stubs (deterministic clock / rent / last-restart-slot,
//! silent logs, recorded CPIs with an optional dispatcher) and an account arena whose
//! memory layout mirrors the BPF loader's serialized input (so `AccountInfo::realloc`,
//! `assign` and `original_data_len` are sound on the accounts it hands out).
use anchor_lang::prelude::*;
use anchor_lang::solana_program::{
    self, account_info::AccountInfo, clock::Clock, entrypoint::ProgramResult,
    instruction::Instruction, program_stubs, rent::Rent,
};
use std::sync::atomic::{AtomicI64, AtomicU64, Ordering};
use std::sync::Mutex;

static CLOCK_SLOT: AtomicU64 = AtomicU64::new(1);
static CLOCK_TS: AtomicI64 = AtomicI64::new(1_700_000_000);
static LAST_RESTART_SLOT: AtomicU64 = AtomicU64::new(0);
static RETURN_DATA: Mutex<Option<(Pubkey, Vec<u8>)>> = Mutex::new(None);
static INVOKES: Mutex<Vec<Instruction>> = Mutex::new(Vec::new());

/// CPI dispatcher: gets the instruction, the account infos and the signer seeds.
pub type Dispatcher =
    Box<dyn Fn(&Instruction, &[AccountInfo], &[&[&[u8]]]) -> ProgramResult + Send + Sync>;
static DISPATCH: Mutex<Option<Dispatcher>> = Mutex::new(None);

struct Stubs;

impl program_stubs::SyscallStubs for Stubs {
    fn sol_log(&self, _message: &str) {}
    fn sol_log_compute_units(&self) {}
    fn sol_remaining_compute_units(&self) -> u64 {
        1_000_000
    }
    fn sol_log_data(&self, _fields: &[&[u8]]) {}
    fn sol_get_clock_sysvar(&self, var_addr: *mut u8) -> u64 {
        let clock = Clock {
            slot: CLOCK_SLOT.load(Ordering::SeqCst),
            epoch_start_timestamp: 0,
            epoch: 0,
            leader_schedule_epoch: 0,
            unix_timestamp: CLOCK_TS.load(Ordering::SeqCst),
        };
        unsafe { std::ptr::write_unaligned(var_addr as *mut Clock, clock) };
        0
    }
    fn sol_get_rent_sysvar(&self, var_addr: *mut u8) -> u64 {
        unsafe { std::ptr::write_unaligned(var_addr as *mut Rent, Rent::default()) };
        0
    }
    fn sol_get_last_restart_slot(&self, var_addr: *mut u8) -> u64 {
        let v = LAST_RESTART_SLOT.load(Ordering::SeqCst);
        unsafe { std::ptr::write_unaligned(var_addr as *mut u64, v) };
        0
    }
    fn sol_invoke_signed(
        &self,
        instruction: &Instruction,
        account_infos: &[AccountInfo],
        signers_seeds: &[&[&[u8]]],
    ) -> ProgramResult {
        INVOKES.lock().unwrap().push(instruction.clone());
        let guard = DISPATCH.lock().unwrap();
        match guard.as_ref() {
            Some(f) => f(instruction, account_infos, signers_seeds),
            None => Ok(()),
        }
    }
    fn sol_get_return_data(&self) -> Option<(Pubkey, Vec<u8>)> {
        RETURN_DATA.lock().unwrap().clone()
    }
    fn sol_set_return_data(&self, data: &[u8]) {
        // The program id of the setter is not known here; callers that need it use
        // `set_return_data_from`.
        *RETURN_DATA.lock().unwrap() = Some((Pubkey::default(), data.to_vec()));
    }
    fn sol_get_stack_height(&self) -> u64 {
        1
    }
}

/// Install the stubs (idempotent).
pub fn install() {
    let _ = program_stubs::set_syscall_stubs(Box::new(Stubs));
}

pub fn set_clock(slot: u64, ts: i64) {
    CLOCK_SLOT.store(slot, Ordering::SeqCst);
    CLOCK_TS.store(ts, Ordering::SeqCst);
}
pub fn clock_ts() -> i64 {
    CLOCK_TS.load(Ordering::SeqCst)
}
pub fn clock_slot() -> u64 {
    CLOCK_SLOT.load(Ordering::SeqCst)
}
pub fn set_last_restart_slot(slot: u64) {
    LAST_RESTART_SLOT.store(slot, Ordering::SeqCst);
}
pub fn set_dispatcher(d: Option<Dispatcher>) {
    *DISPATCH.lock().unwrap() = d;
}
pub fn take_invokes() -> Vec<Instruction> {
    std::mem::take(&mut *INVOKES.lock().unwrap())
}
pub fn set_return_data_from(program: Pubkey, data: Vec<u8>) {
    *RETURN_DATA.lock().unwrap() = Some((program, data));
}
pub fn clear_return_data() {
    *RETURN_DATA.lock().unwrap() = None;
}

/// Deterministic pseudo-random-looking key from a small integer.
pub fn key(n: u64) -> Pubkey {
    let h = solana_program::hash::hashv(&[b"g9-key", &n.to_le_bytes()]);
    Pubkey::new_from_array(h.to_bytes())
}

const HDR: usize = 88; // flags(4) original_data_len(4) key(32) owner(32) lamports(8) data_len(8)
const GROW: usize = 10240;

/// One account in loader layout inside a 16-aligned buffer (so zero-copy structs
/// with `u128` fields, which sit 8 bytes into the data, are 16-aligned natively).
pub struct Mem {
    buf: Vec<u128>,
    pub is_signer: bool,
    pub is_writable: bool,
    pub executable: bool,
}

impl Mem {
    fn base(&self) -> *mut u8 {
        self.buf.as_ptr() as *mut u8
    }
    pub fn key(&self) -> Pubkey {
        unsafe { std::ptr::read_unaligned(self.base().add(8) as *const Pubkey) }
    }
    pub fn owner(&self) -> Pubkey {
        unsafe { std::ptr::read_unaligned(self.base().add(40) as *const Pubkey) }
    }
    pub fn lamports(&self) -> u64 {
        unsafe { std::ptr::read_unaligned(self.base().add(72) as *const u64) }
    }
    pub fn data_len(&self) -> usize {
        unsafe { std::ptr::read_unaligned(self.base().add(80) as *const u64) as usize }
    }
    pub fn data(&self) -> &[u8] {
        unsafe { std::slice::from_raw_parts(self.base().add(HDR), self.data_len()) }
    }
    pub fn data_mut(&mut self) -> &mut [u8] {
        unsafe { std::slice::from_raw_parts_mut(self.base().add(HDR), self.data_len()) }
    }
    pub fn set_lamports(&mut self, v: u64) {
        unsafe { std::ptr::write_unaligned(self.base().add(72) as *mut u64, v) }
    }
    pub fn set_owner(&mut self, v: Pubkey) {
        unsafe { std::ptr::write_unaligned(self.base().add(40) as *mut Pubkey, v) }
    }
    /// Snapshot of (owner, lamports, data).
    pub fn snapshot(&self) -> (Pubkey, u64, Vec<u8>) {
        (self.owner(), self.lamports(), self.data().to_vec())
    }
    pub fn restore(&mut self, s: &(Pubkey, u64, Vec<u8>)) {
        self.set_owner(s.0);
        self.set_lamports(s.1);
        unsafe {
            std::ptr::write_unaligned(self.base().add(80) as *mut u64, s.2.len() as u64);
            std::ptr::write_unaligned(self.base().add(4) as *mut u32, s.2.len() as u32);
            std::ptr::copy_nonoverlapping(s.2.as_ptr(), self.base().add(HDR), s.2.len());
        }
    }
}

/// Owns the memory of a set of accounts; `info(i)` hands out `AccountInfo`s pointing into it.
/// The infos must not outlive the arena (lifetimes are erased to `'static` for convenience).
#[derive(Default)]
pub struct Arena {
    pub mems: Vec<Mem>,
}

impl Arena {
    pub fn new() -> Self {
        Self::default()
    }
    #[allow(clippy::too_many_arguments)]
    pub fn add(
        &mut self,
        key: Pubkey,
        owner: Pubkey,
        lamports: u64,
        data: &[u8],
        is_signer: bool,
        is_writable: bool,
        executable: bool,
    ) -> usize {
        let total = HDR + data.len() + GROW + 16;
        let buf = vec![0u128; total.div_ceil(16)];
        let m = Mem { buf, is_signer, is_writable, executable };
        unsafe {
            let b = m.base();
            std::ptr::write_unaligned(b.add(4) as *mut u32, data.len() as u32);
            std::ptr::write_unaligned(b.add(8) as *mut Pubkey, key);
            std::ptr::write_unaligned(b.add(40) as *mut Pubkey, owner);
            std::ptr::write_unaligned(b.add(72) as *mut u64, lamports);
            std::ptr::write_unaligned(b.add(80) as *mut u64, data.len() as u64);
            std::ptr::copy_nonoverlapping(data.as_ptr(), b.add(HDR), data.len());
        }
        self.mems.push(m);
        self.mems.len() - 1
    }
    pub fn find(&self, key: &Pubkey) -> Option<usize> {
        self.mems.iter().position(|m| m.key() == *key)
    }
    /// A fresh `AccountInfo` view of account `i` (re-reads the current data length).
    pub fn info(&self, i: usize) -> AccountInfo<'static> {
        let m = &self.mems[i];
        unsafe {
            let b = m.base();
            let key: &'static Pubkey = &*(b.add(8) as *const Pubkey);
            let owner: &'static Pubkey = &*(b.add(40) as *const Pubkey);
            let lamports: &'static mut u64 = &mut *(b.add(72) as *mut u64);
            let len = m.data_len();
            let data: &'static mut [u8] = std::slice::from_raw_parts_mut(b.add(HDR), len);
            AccountInfo::new(key, m.is_signer, m.is_writable, lamports, data, owner, m.executable, 0)
        }
    }
    pub fn info_with(&self, i: usize, is_signer: bool, is_writable: bool) -> AccountInfo<'static> {
        let mut a = self.info(i);
        a.is_signer = is_signer;
        a.is_writable = is_writable;
        a
    }
    pub fn snapshot(&self) -> Vec<(Pubkey, u64, Vec<u8>)> {
        self.mems.iter().map(|m| m.snapshot()).collect()
    }
    pub fn restore(&mut self, s: &[(Pubkey, u64, Vec<u8>)]) {
        for (m, x) in self.mems.iter_mut().zip(s) {
            m.restore(x);
        }
    }
}

/// Account data for a zero-copy Anchor account: discriminator + `bytemuck` bytes.
pub fn zero_copy_data<T: bytemuck::Pod + anchor_lang::Discriminator>(v: &T) -> Vec<u8> {
    let mut d = Vec::with_capacity(8 + std::mem::size_of::<T>());
    d.extend_from_slice(T::DISCRIMINATOR);
    d.extend_from_slice(bytemuck::bytes_of(v));
    d
}

/// Map an Anchor error to its numeric code (custom program error number), 0 for others.
pub fn err_code(e: &anchor_lang::error::Error) -> u32 {
    match e {
        anchor_lang::error::Error::AnchorError(a) => a.error_code_number,
        anchor_lang::error::Error::ProgramError(p) => match &p.program_error {
            solana_program::program_error::ProgramError::Custom(c) => *c,
            _ => 1,
        },
    }
}
