//! g6 mini runtime: runs real Anchor entrypoints (`<program>::entry`) in-process.
//!
//! * `Clock`, `Rent` come from syscall stubs driven by explicit statics;
//! * logging is discarded;
//! * `invoke_signed` emulates exactly the System-program instructions Anchor's `init`
//!   constraint issues (CreateAccount / Transfer / Allocate / Assign); every other CPI
//!   (event CPI, token program) is a successful no-op and is counted;
//! * a call is atomic: account bytes are rolled back when the entrypoint fails, as the
//!   real runtime does for a failed transaction.
use anchor_lang::prelude::{AccountInfo, Pubkey};
use anchor_lang::solana_program::{
    self, clock::Clock, entrypoint::ProgramResult, instruction::Instruction,
    program_error::ProgramError, program_stubs, rent::Rent,
};
use std::sync::atomic::{AtomicI64, AtomicU64, Ordering};

pub static NOW: AtomicI64 = AtomicI64::new(0);
pub static SLOT: AtomicU64 = AtomicU64::new(0);
pub static OTHER_CPI: AtomicU64 = AtomicU64::new(0);

/// A CPI to a program other than the System program (recorded, answered with Ok).
#[derive(Clone, Debug)]
pub struct CpiRec {
    pub program: Pubkey,
    pub data: Vec<u8>,
    pub accounts: Vec<Pubkey>,
}
static CPI_LOG: std::sync::Mutex<Vec<CpiRec>> = std::sync::Mutex::new(Vec::new());
static RETURN_DATA: std::sync::Mutex<Option<(Pubkey, Vec<u8>)>> = std::sync::Mutex::new(None);

/// Take (and clear) the recorded foreign CPIs.
pub fn take_cpi_log() -> Vec<CpiRec> {
    std::mem::take(&mut *CPI_LOG.lock().unwrap())
}
/// What `get_return_data` answers after a (stubbed) foreign CPI.
pub fn set_return_data(v: Option<(Pubkey, Vec<u8>)>) {
    *RETURN_DATA.lock().unwrap() = v;
}

pub fn set_now(t: i64) {
    NOW.store(t, Ordering::SeqCst);
}
pub fn now() -> i64 {
    NOW.load(Ordering::SeqCst)
}

struct Stubs;

fn find<'a, 'b>(infos: &'a [AccountInfo<'b>], key: &Pubkey) -> Option<&'a AccountInfo<'b>> {
    infos.iter().find(|i| i.key == key)
}

/// Grow / shrink the data slice of an account whose backing buffer is an [`Acct`] (`CAP` bytes).
fn set_len(info: &AccountInfo, len: usize) -> ProgramResult {
    if len > CAP {
        return Err(ProgramError::InvalidRealloc);
    }
    let mut d = info.data.borrow_mut();
    let old = d.len();
    let p = d.as_mut_ptr();
    // SAFETY: every AccountInfo handed to an entrypoint by `run` points at the start of a CAP-byte buffer.
    *d = unsafe { std::slice::from_raw_parts_mut(p, len) };
    // the System program hands out zero-initialised space
    if len > old {
        d[old..].fill(0);
    }
    Ok(())
}

impl program_stubs::SyscallStubs for Stubs {
    fn sol_log(&self, _m: &str) {}
    fn sol_log_data(&self, _f: &[&[u8]]) {}
    fn sol_log_compute_units(&self) {}
    fn sol_get_clock_sysvar(&self, var_addr: *mut u8) -> u64 {
        let c = Clock {
            slot: SLOT.load(Ordering::SeqCst),
            epoch_start_timestamp: 0,
            epoch: 0,
            leader_schedule_epoch: 0,
            unix_timestamp: NOW.load(Ordering::SeqCst),
        };
        unsafe { std::ptr::write_unaligned(var_addr as *mut Clock, c) };
        0
    }
    fn sol_get_rent_sysvar(&self, var_addr: *mut u8) -> u64 {
        unsafe { std::ptr::write_unaligned(var_addr as *mut Rent, Rent::default()) };
        0
    }
    fn sol_get_return_data(&self) -> Option<(Pubkey, Vec<u8>)> {
        RETURN_DATA.lock().unwrap().clone()
    }
    fn sol_invoke_signed(
        &self,
        ix: &Instruction,
        infos: &[AccountInfo],
        _seeds: &[&[&[u8]]],
    ) -> ProgramResult {
        if ix.program_id != solana_program::system_program::ID {
            OTHER_CPI.fetch_add(1, Ordering::SeqCst);
            CPI_LOG.lock().unwrap().push(CpiRec {
                program: ix.program_id,
                data: ix.data.clone(),
                accounts: ix.accounts.iter().map(|a| a.pubkey).collect(),
            });
            return Ok(());
        }
        let d = &ix.data;
        let tag = u32::from_le_bytes(d[0..4].try_into().unwrap());
        let u64at = |o: usize| u64::from_le_bytes(d[o..o + 8].try_into().unwrap());
        match tag {
            0 => {
                // CreateAccount { lamports, space, owner }
                let (lamports, space) = (u64at(4), u64at(12) as usize);
                let owner = Pubkey::new_from_array(d[20..52].try_into().unwrap());
                let from = find(infos, &ix.accounts[0].pubkey).ok_or(ProgramError::NotEnoughAccountKeys)?;
                let to = find(infos, &ix.accounts[1].pubkey).ok_or(ProgramError::NotEnoughAccountKeys)?;
                if **to.lamports.borrow() != 0 || !to.data_is_empty() || *to.owner != solana_program::system_program::ID {
                    return Err(ProgramError::AccountAlreadyInitialized);
                }
                if **from.lamports.borrow() < lamports {
                    return Err(ProgramError::InsufficientFunds);
                }
                **from.lamports.borrow_mut() -= lamports;
                **to.lamports.borrow_mut() += lamports;
                set_len(to, space)?;
                to.assign(&owner);
                Ok(())
            }
            1 => {
                let owner = Pubkey::new_from_array(d[4..36].try_into().unwrap());
                let to = find(infos, &ix.accounts[0].pubkey).ok_or(ProgramError::NotEnoughAccountKeys)?;
                to.assign(&owner);
                Ok(())
            }
            2 => {
                let lamports = u64at(4);
                let from = find(infos, &ix.accounts[0].pubkey).ok_or(ProgramError::NotEnoughAccountKeys)?;
                let to = find(infos, &ix.accounts[1].pubkey).ok_or(ProgramError::NotEnoughAccountKeys)?;
                if **from.lamports.borrow() < lamports {
                    return Err(ProgramError::InsufficientFunds);
                }
                **from.lamports.borrow_mut() -= lamports;
                **to.lamports.borrow_mut() += lamports;
                Ok(())
            }
            8 => {
                let space = u64at(4) as usize;
                let to = find(infos, &ix.accounts[0].pubkey).ok_or(ProgramError::NotEnoughAccountKeys)?;
                if !to.data_is_empty() {
                    return Err(ProgramError::AccountAlreadyInitialized);
                }
                set_len(to, space)
            }
            _ => Err(ProgramError::InvalidInstructionData),
        }
    }
}

pub fn install() {
    program_stubs::set_syscall_stubs(Box::new(Stubs));
}

/// Capacity of every account buffer.
pub const CAP: usize = 2048;

/// Key preceded by the 4 bytes that `AccountInfo::original_data_len` reads.
#[repr(C)]
#[derive(Clone)]
pub struct KeyBox {
    pub orig_len: u32,
    pub key: Pubkey,
}

/// Headroom in front of the data: `AccountInfo::realloc` stores the new length in the 8 bytes
/// before the data pointer (serialized-input layout of the real runtime).
const HEAD: usize = 8;

/// An account of the mini runtime.
#[derive(Clone)]
pub struct Acct {
    pub kb: KeyBox,
    pub lamports: u64,
    pub buf: Vec<u8>,
    pub len: usize,
    pub owner: Pubkey,
    pub executable: bool,
}

impl Acct {
    /// A system-owned account without data.
    pub fn wallet(key: Pubkey, lamports: u64) -> Self {
        Acct { kb: KeyBox { orig_len: 0, key }, lamports, buf: vec![0; HEAD + CAP], len: 0, owner: solana_program::system_program::ID, executable: false }
    }
    /// An account with the given data and owner.
    pub fn with_data(key: Pubkey, owner: Pubkey, data: &[u8]) -> Self {
        let mut buf = vec![0; HEAD + CAP.max(data.len())];
        buf[HEAD..HEAD + data.len()].copy_from_slice(data);
        Acct { kb: KeyBox { orig_len: data.len() as u32, key }, lamports: 1_000_000_000, buf, len: data.len(), owner, executable: false }
    }
    pub fn program(key: Pubkey) -> Self {
        let mut a = Acct::wallet(key, 1);
        a.executable = true;
        a.owner = solana_program::bpf_loader::ID;
        a
    }
    pub fn data(&self) -> &[u8] {
        &self.buf[HEAD..HEAD + self.len]
    }
    pub fn data_mut(&mut self) -> &mut [u8] {
        let l = self.len;
        &mut self.buf[HEAD..HEAD + l]
    }
    pub fn key(&self) -> Pubkey {
        self.kb.key
    }
}

/// One account reference of an instruction.
#[derive(Clone, Copy)]
pub struct Meta {
    pub idx: usize,
    pub signer: bool,
    pub writable: bool,
}
pub fn m(idx: usize, signer: bool, writable: bool) -> Meta {
    Meta { idx, signer, writable }
}

/// Run `entry(program_id, accounts, data)` over `store[metas[i].idx]`; duplicates share one
/// `AccountInfo` (as in the real runtime).  On failure the store is rolled back.
pub fn run(
    entry: for<'info> fn(&Pubkey, &'info [AccountInfo<'info>], &[u8]) -> ProgramResult,
    program_id: &Pubkey,
    store: &mut [Acct],
    metas: &[Meta],
    data: &[u8],
) -> ProgramResult {
    let snapshot: Vec<Acct> = store.to_vec();
    let res;
    let mut lens: Vec<(usize, usize)> = vec![];
    {
        // distinct indices, in first-use order
        let mut uniq: Vec<usize> = vec![];
        for mt in metas {
            if !uniq.contains(&mt.idx) {
                uniq.push(mt.idx);
            }
        }
        // split the store into disjoint &mut
        let mut parts: Vec<Option<&mut Acct>> = store.iter_mut().map(Some).collect();
        let mut infos_u: Vec<(usize, AccountInfo)> = vec![];
        for &i in &uniq {
            let a = parts[i].take().unwrap();
            let signer = metas.iter().any(|x| x.idx == i && x.signer);
            let writable = metas.iter().any(|x| x.idx == i && x.writable);
            let Acct { kb, lamports, buf, len, owner, executable } = a;
            kb.orig_len = *len as u32;
            let info = AccountInfo::new(&kb.key, signer, writable, lamports, &mut buf[HEAD..HEAD + *len], owner, *executable, 0);
            infos_u.push((i, info));
        }
        let infos: Vec<AccountInfo> = metas
            .iter()
            .map(|mt| infos_u.iter().find(|(i, _)| *i == mt.idx).unwrap().1.clone())
            .collect();
        res = entry(program_id, &infos, data);
        for (i, info) in &infos_u {
            lens.push((*i, info.data.borrow().len()));
        }
    }
    match res {
        Ok(()) => {
            for (i, l) in lens {
                store[i].len = l;
            }
            Ok(())
        }
        Err(e) => {
            for (d, s) in store.iter_mut().zip(snapshot) {
                *d = s;
            }
            Err(e)
        }
    }
}

/// Numeric code of a program error (Anchor custom codes come through `Custom`).
pub fn err_code(e: &ProgramError) -> u64 {
    match e {
        ProgramError::Custom(c) => *c as u64,
        other => 1_000_000 + u64::from(other.clone()) / (1u64 << 32),
    }
}

// ---------- quiet stdout ----------
// `msg!` of solana-msg prints with `println!` on native targets.  `quiet()` points fd 1 at
// /dev/null and keeps the original stdout for `emit`.
extern "C" {
    fn dup(fd: i32) -> i32;
    fn dup2(a: i32, b: i32) -> i32;
}
static OUT: std::sync::OnceLock<std::sync::Mutex<std::io::BufWriter<std::fs::File>>> = std::sync::OnceLock::new();

pub fn quiet() {
    use std::os::fd::{AsRawFd, FromRawFd};
    OUT.get_or_init(|| {
        let saved = unsafe { dup(1) };
        assert!(saved >= 0);
        let null = std::fs::OpenOptions::new().write(true).open("/dev/null").expect("/dev/null");
        assert!(unsafe { dup2(null.as_raw_fd(), 1) } >= 0);
        std::sync::Mutex::new(std::io::BufWriter::new(unsafe { std::fs::File::from_raw_fd(saved) }))
    });
}
/// Emit one case line on the real stdout (after `quiet()`).
pub fn emit(tag: &str, term: &str) {
    use std::io::Write;
    match OUT.get() {
        Some(o) => {
            let _ = writeln!(o.lock().unwrap(), "{tag}\t{term}");
        }
        None => println!("{tag}\t{term}"),
    }
}
/// Flush the real stdout; call at the end of `main`.
pub fn finish() {
    use std::io::Write;
    if let Some(o) = OUT.get() {
        let _ = o.lock().unwrap().flush();
    }
}
