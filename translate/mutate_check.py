#!/usr/bin/env python3
"""Static mutation probe for the translator-based checks (g7: C16/C17/C19/C20/C40).

usage: mutate_check.py <Cxx> <repo-relative-file> <python-regex> <replacement> [count]

Copies the files the translators read into a scratch tree, applies ONE textual mutation, re-runs
the property's translator(s) on the scratch tree and re-compiles the property's Coq files against
the regenerated tables in a scratch copy of coq/.  Prints CAUGHT (translator error or proof
failure, with the message) or MISSED.  Never touches /repo or /verif/coq.  Static part only — the
behavioural (Rust) cross-check is not run here.
"""
import os
import re
import shutil
import subprocess
import sys
import tempfile

ROOT = os.path.dirname(os.path.dirname(os.path.abspath(__file__)))
REPO = os.environ.get("VERIF_REPO", "/repo")

# property -> [(translator script, generated file)]
TRANSLATORS = {
    "C17": [("c17.py", "gen/C17Tables.v")],
    "C16": [("c16.py", "gen/C16Tables.v")],
    "C19": [("c19.py", "gen/C19Tables.v")],
    "C20": [("c16.py", "gen/C16Tables.v"), ("c19.py", "gen/C19Tables.v")],
    "C40": [("c16.py", "gen/C16Tables.v"), ("c40.py", "gen/C40Tables.v")],
}
COPY_DIRS = ["programs/store/src", "programs/treasury/src", "programs/timelock/src", "programs/competition/src",
             "programs/liquidity-provider/src", "crates/utils/src", "crates/model/src", "crates/programs/src", "crates/programs/idls"]


def main():
    if len(sys.argv) < 5:
        print(__doc__)
        return 2
    pid, rel, pat, rep = sys.argv[1:5]
    count = int(sys.argv[5]) if len(sys.argv) > 5 else 1
    tmp = tempfile.mkdtemp(prefix="g7mut-")
    try:
        repo = os.path.join(tmp, "repo")
        for d in COPY_DIRS:
            if os.path.isdir(os.path.join(REPO, d)):
                shutil.copytree(os.path.join(REPO, d), os.path.join(repo, d))
        p = os.path.join(repo, rel)
        src = open(p).read()
        new, n = re.subn(pat, rep, src, count=count, flags=re.S)
        if n == 0 or new == src:
            print("NO-OP: pattern did not match / no change")
            return 2
        open(p, "w").write(new)
        coq = os.path.join(tmp, "coq")
        os.makedirs(os.path.join(coq, "gen"))
        shutil.copytree(os.path.join(ROOT, "coq", "lib"), os.path.join(coq, "lib"), ignore=shutil.ignore_patterns("*.vo*", "*.glob", ".*"))
        shutil.copytree(os.path.join(ROOT, "coq", pid), os.path.join(coq, pid), ignore=shutil.ignore_patterns("*.vo*", "*.glob", ".*"))
        for dep in {"C40": ["C01", "C16"], "C20": []}.get(pid, []):
            shutil.copytree(os.path.join(ROOT, "coq", dep), os.path.join(coq, dep), ignore=shutil.ignore_patterns("*.vo*", "*.glob", ".*"))
        for script, gen in TRANSLATORS[pid]:
            r = subprocess.run([sys.executable, os.path.join(ROOT, "translate", script), repo, os.path.join(coq, gen)], stdout=subprocess.PIPE, stderr=subprocess.STDOUT, text=True)
            if r.returncode != 0:
                print("CAUGHT by translator:", r.stdout.strip()[-400:])
                return 0
        files = ["lib/Base.v"] + [g for _, g in TRANSLATORS[pid]]
        vfiles = []
        for d in [pid] + {"C40": ["C01", "C16"]}.get(pid, []):
            vfiles += sorted(f"{d}/" + f for f in os.listdir(os.path.join(coq, d)) if f.endswith(".v") and not (d != pid and f in ("Props.v", "Corr.v")) and not (d == "C01" and f != "Model.v"))
        order = subprocess.run("coqdep -Q . GV -sort " + " ".join(vfiles), shell=True, cwd=coq, stdout=subprocess.PIPE, stderr=subprocess.DEVNULL, text=True).stdout.split()
        seen = []
        for f in files + [o for o in order if o.endswith(".v")]:
            f = os.path.normpath(f)
            if f in seen or not os.path.exists(os.path.join(coq, f)):
                continue
            seen.append(f)
        # lib deps first (DivLemmas etc. only if imported; compile all lib files in dep order)
        libs = subprocess.run("coqdep -Q . GV -sort lib/*.v", shell=True, cwd=coq, stdout=subprocess.PIPE, stderr=subprocess.DEVNULL, text=True).stdout.split()
        todo = [os.path.normpath(l) for l in libs if l.endswith(".v")] + [f for f in seen if not f.startswith("lib/")]
        done = set()
        for f in todo:
            if f in done:
                continue
            done.add(f)
            r = subprocess.run(["coqc", "-Q", ".", "GV", "-noglob", "-w", "-notation-overridden,-deprecated", f], cwd=coq, stdout=subprocess.PIPE, stderr=subprocess.STDOUT, text=True)
            if r.returncode != 0:
                msg = " ".join(r.stdout.split())
                print(f"CAUGHT by Coq ({f}):", msg[-400:])
                return 0
        print("MISSED (static part): translator and all proofs still pass")
        return 1
    finally:
        shutil.rmtree(tmp, ignore_errors=True)


if __name__ == "__main__":
    sys.exit(main())
