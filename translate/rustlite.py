"""Tiny, shape-specific Rust reader shared by the translators (python3, stdlib only).

It is NOT a Rust parser.  Every function either recognises exactly the shape it was
written for or raises TranslateError — never skips silently.  Tables produced from it
are additionally cross-checked by behaviour on the real structs by the Rust drivers.
"""
import os
import re


class TranslateError(Exception):
    pass


def read(repo, rel):
    p = os.path.join(repo, rel)
    if not os.path.isfile(p):
        raise TranslateError(f"missing source file {rel}")
    with open(p, encoding="utf-8") as fh:
        return fh.read()


def strip_comments(src, keep_doc=False):
    """Remove // and /* */ comments (string/char literal aware).  With keep_doc the
    `///` lines are kept (as they are)."""
    out = []
    i, n = 0, len(src)
    while i < n:
        c = src[i]
        if c == '"':
            j = i + 1
            while j < n and src[j] != '"':
                j += 2 if src[j] == "\\" else 1
            out.append(src[i : j + 1])
            i = j + 1
        elif c == "r" and re.match(r'r#*"', src[i:]):
            m = re.match(r'r(#*)"', src[i:])
            end = src.find('"' + m.group(1), i + len(m.group(0)))
            if end < 0:
                raise TranslateError("unterminated raw string")
            end += 1 + len(m.group(1))
            out.append(src[i:end])
            i = end
        elif c == "'" and re.match(r"'(\\.|[^\\'])'", src[i:]):
            m = re.match(r"'(\\.|[^\\'])'", src[i:])
            out.append(m.group(0))
            i += len(m.group(0))
        elif src.startswith("//", i):
            j = src.find("\n", i)
            j = n if j < 0 else j
            if keep_doc and src.startswith("///", i) and not src.startswith("////", i):
                out.append(src[i:j])
            i = j
        elif src.startswith("/*", i):
            depth, j = 1, i + 2
            while j < n and depth:
                if src.startswith("/*", j):
                    depth += 1
                    j += 2
                elif src.startswith("*/", j):
                    depth -= 1
                    j += 2
                else:
                    j += 1
            i = j
        else:
            out.append(c)
            i += 1
    return "".join(out)


_OPEN = {"{": "}", "(": ")", "[": "]"}
_CLOSE = {v: k for k, v in _OPEN.items()}


def match_close(src, i):
    """src[i] is an opening bracket; returns index of the matching closing bracket.
    (call on comment-stripped text; string literals are skipped)"""
    if src[i] not in _OPEN:
        raise TranslateError(f"match_close: not an opening bracket at {i}: {src[i:i+20]!r}")
    stack = []
    j, n = i, len(src)
    while j < n:
        c = src[j]
        if c == '"':
            j += 1
            while j < n and src[j] != '"':
                j += 2 if src[j] == "\\" else 1
        elif c == "'" and re.match(r"'(\\.|[^\\'])'", src[j:]):
            j += len(re.match(r"'(\\.|[^\\'])'", src[j:]).group(0)) - 1
        elif c in _OPEN:
            stack.append(c)
        elif c in _CLOSE:
            if not stack or stack[-1] != _CLOSE[c]:
                raise TranslateError(f"unbalanced bracket at {j}")
            stack.pop()
            if not stack:
                return j
        j += 1
    raise TranslateError("unterminated block")


def block_after(src, m_end):
    """First `{...}` block starting at or after index m_end; returns (body, end_index)."""
    i = src.find("{", m_end)
    if i < 0:
        raise TranslateError("no block found")
    j = match_close(src, i)
    return src[i + 1 : j], j + 1


def find_unique(pattern, src, what, flags=0):
    ms = list(re.finditer(pattern, src, flags))
    if len(ms) != 1:
        raise TranslateError(f"{what}: expected exactly one match of /{pattern}/, found {len(ms)}")
    return ms[0]


def fn_body(src, name, what=None, within=None):
    """Body of `fn name(` (unique in src, or in the `within` impl block text)."""
    text = src if within is None else within
    m = find_unique(r"\bfn\s+" + re.escape(name) + r"\s*(<[^>{}()]*>)?\s*\(", text, what or f"fn {name}")
    # skip the parameter list, then the first '{'
    p = text.find("(", m.end() - 1)
    q = match_close(text, p)
    # a `where` clause / return type never contains '{' in the shapes we read
    body, _ = block_after(text, q)
    return body


def fn_params(src, name):
    m = find_unique(r"\bfn\s+" + re.escape(name) + r"\s*(<[^>{}()]*>)?\s*\(", src, f"fn {name}")
    p = src.find("(", m.end() - 1)
    q = match_close(src, p)
    return src[p + 1 : q]


def impl_block(src, header_regex, what):
    m = find_unique(header_regex, src, what)
    body, _ = block_after(src, m.end() - 1 if src[m.end() - 1] == "{" else m.end())
    return body


def split_top(s, sep=","):
    """Split at top-level separators (outside brackets / strings)."""
    parts, depth, cur = [], 0, []
    i, n = 0, len(s)
    while i < n:
        c = s[i]
        if c == '"':
            j = i + 1
            while j < n and s[j] != '"':
                j += 2 if s[j] == "\\" else 1
            cur.append(s[i : j + 1])
            i = j + 1
            continue
        if c in _OPEN:
            depth += 1
        elif c in _CLOSE:
            depth -= 1
        if c == sep and depth == 0:
            parts.append("".join(cur))
            cur = []
        else:
            cur.append(c)
        i += 1
    if "".join(cur).strip():
        parts.append("".join(cur))
    return parts


def enum_variants(src, name, allow_attrs=True):
    """Unit variants of `pub enum name { ... }` in declaration order.
    Explicit discriminants and payloads are rejected (the tables assume 0..n-1)."""
    m = find_unique(r"\benum\s+" + re.escape(name) + r"\s*\{", src, f"enum {name}")
    body, _ = block_after(src, m.end() - 1)
    out = []
    for part in split_top(body):
        p = part.strip()
        p = re.sub(r"#\[[^\]]*\]", "", p).strip() if allow_attrs else p
        if not p:
            continue
        if not re.fullmatch(r"[A-Za-z_][A-Za-z0-9_]*", p):
            raise TranslateError(f"enum {name}: unsupported variant shape {p!r}")
        out.append(p)
    if not out:
        raise TranslateError(f"enum {name}: no variants")
    if len(set(out)) != len(out):
        raise TranslateError(f"enum {name}: duplicate variants")
    return out


def match_arms(body, scrutinee_regex, what):
    """Arms of the unique `match <scrutinee> { ... }` in body: list of (pattern, expr),
    expr with one level of surrounding braces removed."""
    m = find_unique(r"\bmatch\s+" + scrutinee_regex + r"\s*\{", body, what)
    blk, _ = block_after(body, m.end() - 1)
    arms = []
    i, n = 0, len(blk)
    while True:
        while i < n and blk[i] in " \t\r\n,":
            i += 1
        if i >= n:
            break
        j = blk.find("=>", i)
        if j < 0:
            raise TranslateError(f"{what}: trailing text in match: {blk[i:i+60]!r}")
        pat = " ".join(blk[i:j].split())
        k = j + 2
        while k < n and blk[k] in " \t\r\n":
            k += 1
        if k < n and blk[k] == "{":
            e = match_close(blk, k)
            expr = blk[k + 1 : e]
            i = e + 1
        else:
            depth, e = 0, k
            while e < n:
                c = blk[e]
                if c in _OPEN:
                    depth += 1
                elif c in _CLOSE:
                    depth -= 1
                elif c == "," and depth == 0:
                    break
                e += 1
            expr = blk[k:e]
            i = e + 1
        arms.append((pat, " ".join(expr.split())))
    if not arms:
        raise TranslateError(f"{what}: no arms")
    return arms


def statements(body):
    """Top-level `;`-separated statements of a block (whitespace-normalised).  A trailing
    expression without `;` is returned too."""
    return [" ".join(p.split()) for p in split_top(body, ";") if p.strip()]


def snake(camel):
    """strum / serde `snake_case` of a CamelCase identifier (heck's rule: a new word starts
    before an upper-case letter that follows a lower-case letter or digit, or that is
    followed by a lower-case letter while preceded by an upper-case one)."""
    out = []
    for i, c in enumerate(camel):
        if c.isupper():
            prev = camel[i - 1] if i else ""
            nxt = camel[i + 1] if i + 1 < len(camel) else ""
            if i and (prev.islower() or prev.isdigit() or (prev.isupper() and nxt.islower())):
                out.append("_")
            out.append(c.lower())
        else:
            out.append(c)
    return "".join(out)


# ---------------------------------------------------------------- const folding
_TOK = re.compile(
    r"\s*(?:(?P<num>\d[\d_]*)(?P<suf>(?:u|i)(?:8|16|32|64|128|size))?"
    r"|(?P<id>[A-Za-z_][A-Za-z0-9_]*(?:::[A-Za-z_][A-Za-z0-9_]*)*)"
    r"|(?P<op><<|>>|[-+*/%().,]))"
)


def _tokens(expr):
    toks, i = [], 0
    expr = expr.strip()
    while i < len(expr):
        m = _TOK.match(expr, i)
        if not m or m.end() == i:
            raise TranslateError(f"const expr: cannot tokenise {expr[i:i+30]!r} in {expr!r}")
        if m.group("num") is not None:
            toks.append(("num", int(m.group("num").replace("_", ""))))
        elif m.group("id") is not None:
            toks.append(("id", m.group("id")))
        else:
            toks.append(("op", m.group("op")))
        i = m.end()
    return toks


class _P:
    def __init__(self, toks, env, expr):
        self.t, self.i, self.env, self.expr = toks, 0, env, expr

    def peek(self):
        return self.t[self.i] if self.i < len(self.t) else (None, None)

    def eat(self, kind=None, val=None):
        k, v = self.peek()
        if k is None or (kind and k != kind) or (val is not None and v != val):
            raise TranslateError(f"const expr: unexpected {v!r} in {self.expr!r}")
        self.i += 1
        return v

    def parse(self):
        v = self.shift()
        if self.i != len(self.t):
            raise TranslateError(f"const expr: trailing tokens in {self.expr!r}")
        return v

    def shift(self):
        v = self.add()
        while self.peek() in (("op", "<<"), ("op", ">>")):
            op = self.eat()
            r = self.add()
            v = v << r if op == "<<" else v >> r
        return v

    def add(self):
        v = self.mul()
        while self.peek() in (("op", "+"), ("op", "-")):
            op = self.eat()
            r = self.mul()
            v = v + r if op == "+" else v - r
            if v < 0:
                raise TranslateError(f"const expr: negative intermediate in {self.expr!r}")
        return v

    def mul(self):
        v = self.cast()
        while self.peek() in (("op", "*"), ("op", "/"), ("op", "%")):
            op = self.eat()
            r = self.cast()
            if op == "*":
                v = v * r
            else:
                if r == 0:
                    raise TranslateError(f"const expr: division by zero in {self.expr!r}")
                v = v // r if op == "/" else v % r
        return v

    def cast(self):
        v = self.postfix()
        while self.peek() == ("id", "as"):
            self.eat()
            ty = self.eat("id")
            if not re.fullmatch(r"(u|i)(8|16|32|64|128|size)|Factor|Amount", ty):
                raise TranslateError(f"const expr: unsupported cast to {ty}")
        return v

    def postfix(self):
        v = self.atom()
        while self.peek() == ("op", "."):
            self.eat()
            meth = self.eat("id")
            if meth != "pow":
                raise TranslateError(f"const expr: unsupported method .{meth} in {self.expr!r}")
            self.eat("op", "(")
            e = self.shift()
            self.eat("op", ")")
            v = v**e
        return v

    def atom(self):
        k, v = self.peek()
        if k == "num":
            self.eat()
            return v
        if k == "op" and v == "(":
            self.eat()
            r = self.shift()
            self.eat("op", ")")
            return r
        if k == "id" and v != "as":
            self.eat()
            return self.env(v)
        raise TranslateError(f"const expr: unexpected {v!r} in {self.expr!r}")


def eval_const(expr, env):
    """Evaluate an unsigned integer const expression; env(name) resolves identifiers."""
    return _P(_tokens(expr), env, expr).parse()


_CONST_RE = re.compile(
    r"(?P<doc>(?:[ \t]*///[^\n]*\n)*)(?P<attrs>(?:[ \t]*#\[[^\]]*\]\s*\n)*)[ \t]*(?P<vis>pub(?:\([a-z]+\))?\s+)?const\s+(?P<name>[A-Z][A-Z0-9_]*)\s*:\s*(?P<ty>[^=;]+?)\s*=\s*(?P<expr>[^;]+);"
)


def consts(src_with_docs):
    """All `const NAME: T = expr;` items: list of dict(name, ty, expr, doc)."""
    out = []
    for m in _CONST_RE.finditer(src_with_docs):
        doc = " ".join(l.strip()[3:].strip() for l in m.group("doc").split("\n") if l.strip())
        out.append(dict(name=m.group("name"), ty=" ".join(m.group("ty").split()), expr=" ".join(m.group("expr").split()), doc=doc))
    return out


# ---------------------------------------------------------------- Coq emission
def cq(s):
    if '"' in s or "\\" in s or "\n" in s:
        raise TranslateError(f"cannot emit string {s!r}")
    return '"' + s + '"'


def cz(v):
    return str(v) if v >= 0 else f"({v})"


def cb(v):
    return "true" if v else "false"


def clist(items, indent="  "):
    if not items:
        return "[]"
    return "[\n" + ";\n".join(indent + it for it in items) + "\n]"


def header(title, sources):
    return (
        f"(* GENERATED by {title} on every check from:\n"
        + "".join(f"     {s}\n" for s in sources)
        + "   DO NOT EDIT — the file is overwritten before each Coq build. *)\n"
        "From Coq Require Import ZArith List String.\nImport ListNotations.\nOpen Scope string_scope.\nOpen Scope Z_scope.\n\n"
    )


def write_if_changed(path, text):
    os.makedirs(os.path.dirname(path), exist_ok=True)
    try:
        if open(path).read() == text:
            return False
    except OSError:
        pass
    tmp = path + ".tmp"
    with open(tmp, "w") as fh:
        fh.write(text)
    os.replace(tmp, path)
    return True
