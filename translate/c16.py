#!/usr/bin/env python3
"""C16 translator: which storage cell every configuration key / model parameter reads and writes.

usage: c16.py <repo-root> <out.v>

Program side  programs/store/src/states/market/config.rs   get / get_mut arms, closed-market helper fns
              programs/store/src/states/market/model.rs    parameter accessors of the gmsol_model traits (impl .. for Market)
              programs/store/src/states/market/mod.rs      Market::max_pool_value_for_deposit
              programs/store/src/states/store.rs           Amounts / Factors / Addresses get / get_mut arms, get_*_mut guards
SDK side      crates/programs/src/utils/store.rs           MarketConfig::get arms
              crates/programs/src/model/market.rs          duplicated flag enums, closed-market helpers, accessors (impl .. for MarketModel)
Enums         crates/utils/src/market.rs, crates/utils/src/config.rs
Anything outside the recognised shapes raises.
"""
import os
import re
import sys

sys.path.insert(0, os.path.dirname(os.path.abspath(__file__)))
from rustlite import *  # noqa
from c17 import struct_fields

P_CONFIG = "programs/store/src/states/market/config.rs"
P_MODEL = "programs/store/src/states/market/model.rs"
P_MARKET = "programs/store/src/states/market/mod.rs"
P_STORE = "programs/store/src/states/store.rs"
S_STORE = "crates/programs/src/utils/store.rs"
S_MARKET = "crates/programs/src/model/market.rs"
U_MARKET = "crates/utils/src/market.rs"
U_CONFIG = "crates/utils/src/config.rs"


def nows(s):
    return re.sub(r"\s+", "", s)


# ---------------------------------------------------------------- key -> field arms
def key_arms(impl, fn, enum, keys, fields, ref, scrutinee="key"):
    out, wildcard = [], False
    for pat, ex in match_arms(fn_body(impl, fn), scrutinee, f"{enum}::{fn}"):
        if pat == "_":
            if ex.rstrip(",") != "return None":
                raise TranslateError(f"{enum} {fn}: unexpected wildcard arm {ex!r}")
            wildcard = True
            continue
        mp = re.fullmatch(re.escape(enum) + r"::([A-Za-z0-9]+)", pat)
        me = re.fullmatch(re.escape(ref) + r" ?self\.([a-z_][a-z0-9_]*)", ex)
        if wildcard or not mp or not me:
            raise TranslateError(f"{enum} {fn}: unsupported arm {pat!r} => {ex!r}")
        if mp.group(1) not in keys:
            raise TranslateError(f"{enum} {fn}: arm for unknown variant {mp.group(1)}")
        if me.group(1) not in fields:
            raise TranslateError(f"{enum} {fn}: arm uses unknown field {me.group(1)}")
        out.append((snake(mp.group(1)), me.group(1)))
    return out


# ---------------------------------------------------------------- closed-market helper fns of MarketConfig
def closed_helpers(impl, flags, fields, who):
    """Returns (enable_flag, {fn: (rows, zero_is_none)}) where rows = [(use_closed, for_long, ('field'|'flag', name))],
    use_closed / for_long in {True, False, None(any)}."""
    body = statements(fn_body(impl, "use_market_closed_params"))
    m = re.fullmatch(r"is_market_closed && self\.flag\(MarketConfigFlag::([A-Za-z0-9]+)\)", body[0]) if len(body) == 1 else None
    if not m or m.group(1) not in flags:
        raise TranslateError(f"{who} use_market_closed_params: unexpected body {body!r}")
    enable = snake(m.group(1))
    if " ".join(fn_params(impl, "use_market_closed_params").split()) != "&self, is_market_closed: bool":
        raise TranslateError(f"{who} use_market_closed_params: unexpected parameters")

    def leaf(e):
        e = e.strip().rstrip(",")
        m = re.fullmatch(r"self\.([a-z_][a-z0-9_]*)", e)
        if m and m.group(1) in fields:
            return ("field", m.group(1))
        m = re.fullmatch(r"self\.flag\(MarketConfigFlag::([A-Za-z0-9]+)\)", e)
        if m and m.group(1) in flags:
            return ("flag", snake(m.group(1)))
        raise TranslateError(f"{who}: unsupported helper leaf {e!r}")

    USE = "self.use_market_closed_params(is_market_closed)"
    helpers = {}
    # (1) if/else on use_closed, optionally followed by the `factor == 0 -> None` wrapper
    for fn, params in (("min_collateral_factor_for_liquidation", "&self, is_market_closed: bool"), ("skip_borrowing_fee_for_smaller_side", "&self, is_market_closed: bool")):
        if " ".join(fn_params(impl, fn).split()).rstrip(",").strip() != params:
            raise TranslateError(f"{who} {fn}: unexpected parameters")
        b = " ".join(fn_body(impl, fn).split())
        m = re.fullmatch(r"(let factor = )?if " + re.escape(USE) + r" \{ (.+?) \} else \{ (.+?) \}(; if factor == 0 \{ None \} else \{ Some\(factor\) \})?", b)
        if not m or bool(m.group(1)) != bool(m.group(4)):
            raise TranslateError(f"{who} {fn}: unexpected body {b!r}")
        helpers[fn] = ([(True, None, leaf(m.group(2))), (False, None, leaf(m.group(3)))], bool(m.group(4)))
    # (2) match (use_closed, for_long)
    for fn in ("borrowing_fee_base_factor", "borrowing_fee_above_optimal_usage_factor"):
        if nows(fn_params(impl, fn)).rstrip(",") != "&self,for_long:bool,is_market_closed:bool":
            raise TranslateError(f"{who} {fn}: unexpected parameters")
        rows = []
        for pat, ex in match_arms(fn_body(impl, fn), r"\(\s*self\.use_market_closed_params\(is_market_closed\)\s*,\s*for_long\s*\)", f"{who} {fn}"):
            m = re.fullmatch(r"\((true|false|_), (true|false|_)\)", pat)
            if not m:
                raise TranslateError(f"{who} {fn}: unsupported pattern {pat!r}")
            tv = {"true": True, "false": False, "_": None}
            rows.append((tv[m.group(1)], tv[m.group(2)], leaf(ex)))
        helpers[fn] = (rows, False)
    return enable, helpers


# ---------------------------------------------------------------- accessor expression walker
class Walker:
    def __init__(self, fields, flags, helpers, who, cfg_recv=("self.config", "config")):
        self.fields, self.flags, self.helpers, self.who = fields, flags, helpers, who
        self.cfg_recv = cfg_recv

    def leaf(self, e, env):
        e0 = e
        e = nows(e).rstrip(",")
        for recv in self.cfg_recv:
            if e.startswith(recv + "."):
                rest = e[len(recv) + 1 :]
                if rest in self.fields:
                    return ("field", rest, None)
                m = re.fullmatch(r"flag\(MarketConfigFlag::([A-Za-z0-9]+)\)", rest)
                if m and m.group(1) in self.flags:
                    return ("flag", snake(m.group(1)), None)
                m = re.fullmatch(r"([a-z_][a-z0-9_]*)\((.*)\)", rest)
                if m and m.group(1) in self.helpers:
                    args = [a for a in m.group(2).split(",") if a]
                    closed = lambda a: a == "self.is_closed()" or env.get(a) == "self.is_closed()"
                    if len(args) == 1 and closed(args[0]):
                        return ("call", m.group(1), None)
                    if len(args) == 2 and args[0] in ("true", "false") and closed(args[1]):
                        return ("call", m.group(1), args[0] == "true")
                raise TranslateError(f"{self.who}: unsupported config read {e0!r}")
        if "config" in e:
            raise TranslateError(f"{self.who}: unrecognised expression mentioning config: {e0!r}")
        if re.fullmatch(r"\d+", e):
            return ("lit", e, None)
        return ("other", e, None)

    def walk(self, e, path, env, out):
        e = e.strip().rstrip(",").strip()
        while e.startswith("Ok(") and match_close(e, 2) == len(e) - 1:
            e = e[3:-1].strip()
        if e in env and env[e] != "self.is_closed()" and not e.startswith("self"):
            return self.walk(env[e], path, env, out)
        m = re.match(r"if\s+([a-z_]+)\s*\{", e)
        if m:
            i = e.find("{")
            j = match_close(e, i)
            rest = e[j + 1 :].strip()
            if not rest.startswith("else"):
                raise TranslateError(f"{self.who}: if without else: {e[:80]!r}")
            k = rest.find("{")
            l = match_close(rest, k)
            if rest[l + 1 :].strip():
                raise TranslateError(f"{self.who}: trailing text after if/else: {rest[l+1:][:60]!r}")
            if m.group(1) not in ("is_long", "is_long_token"):
                raise TranslateError(f"{self.who}: unsupported condition {m.group(1)}")
            self.walk(e[i + 1 : j], path + ["long"], env, out)
            self.walk(rest[k + 1 : l], path + ["short"], env, out)
            return
        m = re.match(r"match\s+(\(kind,\s*is_long\)|self\.swap_pricing)\s*\{", e)
        if m:
            i = e.find("{", m.start())
            if match_close(e, i) != len(e) - 1:
                raise TranslateError(f"{self.who}: trailing text after match")
            for pat, ex in match_arms(e, re.escape(m.group(1)).replace(r"\ ", r"\s*"), self.who):
                if pat == "_":
                    if not ex.startswith("Err("):
                        raise TranslateError(f"{self.who}: wildcard arm is not an error: {ex!r}")
                    continue
                if m.group(1).startswith("("):
                    mp = re.fullmatch(r"\(PnlFactorKind::([A-Za-z]+), (true|false)\)", pat)
                    if not mp:
                        raise TranslateError(f"{self.who}: unsupported pattern {pat!r}")
                    self.walk(ex, path + [snake(mp.group(1)), "long" if mp.group(2) == "true" else "short"], env, out)
                else:
                    for alt in pat.split("|"):
                        ma = re.fullmatch(r"SwapPricingKind::([A-Za-z]+)", alt.strip())
                        if not ma:
                            raise TranslateError(f"{self.who}: unsupported pattern {pat!r}")
                        self.walk(ex, path + ["pricing_" + snake(ma.group(1))], env, out)
            return
        m = re.match(r"([A-Za-z]+)::builder\(\)", e)
        if m:
            i = m.end()
            while i < len(e):
                mm = re.match(r"\s*\.\s*([a-z_][a-z0-9_]*)\s*\(", e[i:])
                if not mm:
                    raise TranslateError(f"{self.who}: unsupported builder chain tail {e[i:i+60]!r}")
                p = i + mm.end() - 1
                q = match_close(e, p)
                name, arg = mm.group(1), e[p + 1 : q]
                if name == "build":
                    if arg.strip():
                        raise TranslateError(f"{self.who}: build() with arguments")
                elif name == "with_discount_factor":
                    self.walk(arg, path + ["discount_factor"], env, out)
                else:
                    self.walk(arg, path + [name], env, out)
                i = q + 1
            return
        out.append((".".join(path), self.leaf(e, env)))


def accessors(src, target, walker, extra_impls=()):
    """All fns of `impl gmsol_model::<Trait><..> for <target>` blocks that read the config; returns
    [(slot_id, leaf)] with slot_id = fn/path."""
    out = []
    for m in re.finditer(r"\bimpl\s+gmsol_model::([A-Za-z]+)\s*<\s*\{[^{}]*\}\s*>\s*for\s+" + re.escape(target) + r"\s*\{", src):
        body, _ = block_after(src, m.end() - 1)
        out += fns_of(body, walker, m.group(1))
    for hdr in extra_impls:
        body = impl_block(src, hdr, hdr)
        out += fns_of(body, walker, "inherent", only=("max_pool_value_for_deposit",))
    return out


def fns_of(body, walker, trait, only=None):
    out = []
    i = 0
    for m in re.finditer(r"\bfn\s+([a-z_][a-z0-9_]*)\s*(<[^>{}()]*>)?\s*\(", body):
        if m.start() < i:
            continue
        name = m.group(1)
        p = body.find("(", m.end() - 1)
        q = match_close(body, p)
        b = body.find("{", q)
        semi = body.find(";", q)
        if b < 0 or (0 <= semi < b):
            continue
        e = match_close(body, b)
        i = e
        if only is not None and name not in only:
            continue
        fbody = body[b + 1 : e]
        if "config" not in fbody:
            continue
        env, final = {}, None
        sts = statements(fbody)
        for k, st in enumerate(sts):
            if re.fullmatch(r"use gmsol_model::PnlFactorKind", st):
                continue
            ml = re.fullmatch(r"let ([a-z_]+) = (.+)", st, re.S)
            if ml and k < len(sts) - 1:
                v = ml.group(2).strip()
                if v == "&self.config":
                    if ml.group(1) != "config":
                        raise TranslateError(f"{walker.who} {name}: config alias named {ml.group(1)}")
                    continue
                env[ml.group(1)] = v
                continue
            if k == len(sts) - 1:
                final = st
            else:
                raise TranslateError(f"{walker.who} {name}: unsupported statement {st[:80]!r}")
        got = []
        walker.walk(final, [], env, got)
        for path, leaf in got:
            out.append((name + "/" + path, leaf))
    return out


# ---------------------------------------------------------------- store keys
def store_tables(repo):
    uc = strip_comments(read(repo, U_CONFIG))
    st = strip_comments(read(repo, P_STORE))
    res = {}
    for enum, struct, acc in (("AmountKey", "Amounts", "amount"), ("FactorKey", "Factors", "factor"), ("AddressKey", "Addresses", "address")):
        keys = enum_variants(uc, enum)
        fields = [f for f, t in struct_fields(st, struct) if f != "reserved"]
        impl = impl_block(st, r"\bimpl\s+" + struct + r"\s*\{", f"impl {struct}")
        g = key_arms(impl, "get", enum, keys, fields, "&")
        gm = key_arms(impl, "get_mut", enum, keys, fields, "&mut")
        res[acc] = dict(keys=[snake(k) for k in keys], fields=fields, get=g, get_mut=gm)
    # Store::get_X / get_X_mut wrappers: by-key delegation and the ClaimableTimeWindow write guard
    simpl = impl_block(st, r"\bimpl\s+Store\s*\{", "impl Store")
    guards = {}
    for acc, enum in (("amount", "AmountKey"), ("factor", "FactorKey"), ("address", "AddressKey")):
        if statements(fn_body(simpl, f"get_{acc}_by_key")) != [f"self.{acc}.get(&key)"]:
            raise TranslateError(f"Store::get_{acc}_by_key: unexpected body")
        b = nows(fn_body(simpl, f"get_{acc}_mut"))
        parse = f"letkey={enum}::from_str(key).map_err(|_|error!(CoreError::InvalidStoreConfigKey))?;"
        tail = f"self.{acc}.get_mut(&key).ok_or_else(||error!(CoreError::Unimplemented))"
        if not (b.startswith(parse) and b.endswith(tail)):
            raise TranslateError(f"Store::get_{acc}_mut: unexpected body")
        mid = b[len(parse) : -len(tail)]
        g = []
        if mid:
            m = re.fullmatch(r"require!\(!matches!\(key," + enum + r"::([A-Za-z]+)\),CoreError::InvalidArgument,?\);", mid)
            if not m:
                raise TranslateError(f"Store::get_{acc}_mut: unsupported guard {mid!r}")
            g = [snake(m.group(1))]
        guards[acc] = g
        bget = nows(fn_body(simpl, f"get_{acc}"))
        if bget != f"letkey={enum}::from_str(key).map_err(|_|error!(CoreError::InvalidStoreConfigKey))?;self.get_{acc}_by_key(key).ok_or_else(||error!(CoreError::Unimplemented))":
            raise TranslateError(f"Store::get_{acc}: unexpected body")
    return res, guards


def translate(repo):
    um = strip_comments(read(repo, U_MARKET))
    keys = enum_variants(um, "MarketConfigKey")
    flags = enum_variants(um, "MarketConfigFlag")
    mflags = enum_variants(um, "MarketFlag")

    cfg = strip_comments(read(repo, P_CONFIG))
    fields = [f for f, t in struct_fields(cfg, "MarketConfig") if t == "Factor"]
    impl = impl_block(cfg, r"\bimpl\s+MarketConfig\s*\{", "impl MarketConfig")
    p_get = key_arms(impl, "get", "MarketConfigKey", keys, fields, "&")
    p_get_mut = key_arms(impl, "get_mut", "MarketConfigKey", keys, fields, "&mut")
    p_enable, p_helpers = closed_helpers(impl, flags, fields, "program MarketConfig")
    for fn, expect in (("flag", "self.flag.get_flag(flag)"), ("set_flag", "self.flag.set_flag(flag, value)")):
        if statements(fn_body(impl, fn)) != [expect]:
            raise TranslateError(f"MarketConfig::{fn}: unexpected body")
    find_unique(r"gmsol_utils::flags!\(\s*MarketConfigFlag\s*,\s*MAX_MARKET_CONFIG_FLAGS\s*,\s*u128\s*\)", cfg, "flags!(MarketConfigFlag..)")

    # Market-level wrappers around the config (string and enum APIs)
    mk = strip_comments(read(repo, P_MARKET))
    mimpl = impl_block(mk, r"\bimpl\s+Market\s*\{", "impl Market")
    for fn, expect in (
        ("get_config_by_key", ["self.config.get(key)"]),
        ("get_config_by_key_mut", ["self.config .get_mut(key) .ok_or_else(|| error!(CoreError::Unimplemented))"]),
        ("get_config_flag_by_key", ["self.config.flag(key)"]),
        ("set_config_flag_by_key", ["self.config.set_flag(key, value)"]),
        ("is_closed", ["self.flag(MarketFlag::Closed)"]),
    ):
        if statements(fn_body(mimpl, fn)) != expect:
            raise TranslateError(f"Market::{fn}: unexpected body {statements(fn_body(mimpl, fn))!r}")

    pw = Walker(fields, flags, p_helpers, "program model.rs")
    md = strip_comments(read(repo, P_MODEL))
    p_params = accessors(md, "Market", pw)
    p_params += fns_of(mimpl, Walker(fields, flags, p_helpers, "program Market"), "inherent", only=("max_pool_value_for_deposit",))

    # ---- SDK
    ss = strip_comments(read(repo, S_STORE))
    s_impl = impl_block(ss, r"\bimpl\s+MarketConfig\s*\{", "SDK impl MarketConfig (utils/store.rs)")
    s_get = key_arms(s_impl, "get", "MarketConfigKey", keys, fields, "&")
    sm = strip_comments(read(repo, S_MARKET))
    s_flags = enum_variants(sm, "MarketConfigFlag")
    s_mflags = enum_variants(sm, "MarketFlag")
    sc_impl = impl_block(sm, r"\bimpl\s+MarketConfig\s*\{", "SDK impl MarketConfig (model/market.rs)")
    if statements(fn_body(sc_impl, "flag")) != ["MarketConfigFlags::from_value(self.flag.value).get(flag as usize)"]:
        raise TranslateError("SDK MarketConfig::flag: unexpected body")
    s_enable, s_helpers = closed_helpers(sc_impl, s_flags, fields, "SDK MarketConfig")
    smk_impl = impl_block(sm, r"\bimpl\s+Market\s*\{", "SDK impl Market")
    if statements(fn_body(smk_impl, "flag")) != ["MarketFlags::from_value(self.flags.value).get(flag as usize)"]:
        raise TranslateError("SDK Market::flag: unexpected body")
    if statements(fn_body(smk_impl, "is_closed")) != ["self.flag(MarketFlag::Closed)"]:
        raise TranslateError("SDK Market::is_closed: unexpected body")
    sw = Walker(fields, s_flags, s_helpers, "SDK model/market.rs")
    s_params = accessors(sm, "MarketModel", sw)

    store, guards = store_tables(repo)
    return dict(keys=[snake(k) for k in keys], flags=[snake(f) for f in flags], mflags=[snake(f) for f in mflags], fields=fields,
                p_get=p_get, p_get_mut=p_get_mut, p_enable=p_enable, p_helpers=p_helpers, p_params=p_params,
                s_get=s_get, s_flags=[snake(f) for f in s_flags], s_mflags=[snake(f) for f in s_mflags], s_enable=s_enable,
                s_helpers=s_helpers, s_params=s_params, store=store, guards=guards)


def emit(t):
    o = [header("translate/c16.py", [P_CONFIG, P_MODEL, P_MARKET, P_STORE, S_STORE, S_MARKET, U_MARKET, U_CONFIG])]
    o.append(
        "(* a storage cell read by a parameter slot *)\n"
        "Inductive src :=\n"
        "| SField (f : string)                      (* MarketConfig Factor field *)\n"
        "| SFlag (f : string)                       (* MarketConfigFlag *)\n"
        "| SCall (fn : string) (for_long : option bool)  (* closed-market aware helper of MarketConfig, called with is_closed() *)\n"
        "| SLit (z : Z)                             (* literal *)\n"
        "| SOther (e : string).                     (* expression that does not read the config *)\n\n"
    )
    pair = lambda a, b: f"({cq(a)}, {cq(b)})"
    ob = lambda v: "None" if v is None else ("(Some true)" if v else "(Some false)")

    def leaf(l):
        k, a, b = l
        if k == "field":
            return f"SField {cq(a)}"
        if k == "flag":
            return f"SFlag {cq(a)}"
        if k == "call":
            return f"SCall {cq(a)} {ob(b)}"
        if k == "lit":
            return f"SLit {a}"
        return f"SOther {cq(a)}"

    def hl(l):
        return f"SField {cq(l[1])}" if l[0] == "field" else f"SFlag {cq(l[1])}"

    def sl(name, xs):
        o.append(f"Definition {name} : list string := " + clist([cq(x) for x in xs]) + ".\n\n")

    def pl(name, xs):
        o.append(f"Definition {name} : list (string * string) := " + clist([pair(a, b) for a, b in xs]) + ".\n\n")

    o.append("(* enums (strum snake_case names, declaration order = discriminant order) *)\n")
    sl("config_keys", t["keys"])
    sl("config_flags", t["flags"])
    sl("market_flags", t["mflags"])
    sl("cfg_fields", t["fields"])
    o.append("(* program: MarketConfig::get / get_mut arms, key -> field *)\n")
    pl("p_get", t["p_get"])
    pl("p_get_mut", t["p_get_mut"])
    o.append("(* SDK: MarketConfig::get arms (crates/programs/src/utils/store.rs) and duplicated flag enums (model/market.rs) *)\n")
    pl("s_get", t["s_get"])
    sl("s_config_flags", t["s_flags"])
    sl("s_market_flags", t["s_mflags"])
    for side in ("p", "s"):
        o.append(f"(* {'program' if side == 'p' else 'SDK'}: use_market_closed_params = is_market_closed && flag <enable>; helper decision rows\n   (use_closed, for_long, cell), first matching row wins; helpers that map 0 to None *)\n")
        o.append(f"Definition {side}_enable_flag : string := {cq(t[side + '_enable'])}.\n")
        rows = []
        zn = []
        for fn, (rs, z) in t[side + "_helpers"].items():
            rows.append(f"({cq(fn)}, [" + "; ".join(f"({ob(u)}, {ob(l)}, {hl(c)})" for u, l, c in rs) + "])")
            if z:
                zn.append(fn)
        o.append(f"Definition {side}_helpers : list (string * list (option bool * option bool * src)) := " + clist(rows) + ".\n")
        o.append(f"Definition {side}_zero_is_none : list string := " + clist([cq(z) for z in zn]) + ".\n\n")
        o.append(f"(* {'program (impl gmsol_model::* for Market)' if side == 'p' else 'SDK (impl gmsol_model::* for MarketModel)'}: parameter slot -> what it reads; slot = fn/builder-path *)\n")
        o.append(f"Definition {side}_params : list (string * src) := " + clist([f"({cq(s)}, {leaf(l)})" for s, l in t[side + "_params"]]) + ".\n\n")
    for acc, d in t["store"].items():
        o.append(f"(* Store {acc}: keys, fields, get / get_mut arms; keys whose get_{acc}_mut is rejected by a guard *)\n")
        sl(f"{acc}_keys", d["keys"])
        sl(f"{acc}_fields", d["fields"])
        pl(f"{acc}_get", d["get"])
        pl(f"{acc}_get_mut", d["get_mut"])
        sl(f"{acc}_write_guard", t["guards"][acc])
    return "".join(o)


def main(argv):
    if len(argv) != 3:
        print(__doc__)
        return 2
    t = translate(argv[1])
    changed = write_if_changed(argv[2], emit(t))
    print(f"c16 translator: {len(t['keys'])} keys, {len(t['p_get'])}/{len(t['p_get_mut'])} program get/get_mut arms, {len(t['s_get'])} SDK get arms, "
          f"{len(t['p_params'])} program param slots, {len(t['s_params'])} SDK param slots, "
          f"store keys {', '.join(k + '=' + str(len(v['keys'])) for k, v in t['store'].items())}{' (rewritten)' if changed else ''}")
    return 0


if __name__ == "__main__":
    try:
        sys.exit(main(sys.argv))
    except TranslateError as e:
        print(f"TRANSLATE-ERROR c16: {e}")
        sys.exit(3)
