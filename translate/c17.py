#!/usr/bin/env python3
"""C17 translator: what a fresh market is initialised to, read from the Rust source.

usage: c17.py <repo-root> <out.v>

Reads  programs/store/src/states/market/config.rs   MarketConfig fields, init(), get() arms
       programs/store/src/constants/{mod,market}.rs `const` items (folded to integers)
       programs/store/src/states/market/pool.rs     Pools fields, Pools::init, Pools::get, set_is_pure chain
       programs/store/src/states/market/mod.rs      Market::init
       crates/utils/src/market.rs                   MarketConfigKey / MarketConfigFlag / MarketFlag variants
       crates/model/src/pool/mod.rs                 PoolKind variants
Emits Gallina association lists.  Anything outside the recognised shapes raises.
"""
import os
import re
import sys

sys.path.insert(0, os.path.dirname(os.path.abspath(__file__)))
from rustlite import *  # noqa

CONFIG_RS = "programs/store/src/states/market/config.rs"
CONST_MOD_RS = "programs/store/src/constants/mod.rs"
CONST_MARKET_RS = "programs/store/src/constants/market.rs"
CONST_GLV_RS = "programs/store/src/constants/glv.rs"
STATES_MOD_RS = "programs/store/src/states/mod.rs"
POOL_RS = "programs/store/src/states/market/pool.rs"
MARKET_RS = "programs/store/src/states/market/mod.rs"
UTILS_MARKET_RS = "crates/utils/src/market.rs"
MODEL_POOL_RS = "crates/model/src/pool/mod.rs"
DECIMAL_RS = "crates/utils/src/price/decimal.rs"

INT_TYPES = {"u8": 8, "u16": 16, "u32": 32, "u64": 64, "u128": 128, "usize": 64}


def struct_fields(src, name):
    """[(field, type)] of `struct name { ... }` (attributes and visibility dropped)."""
    m = find_unique(r"\bstruct\s+" + re.escape(name) + r"\s*\{", src, f"struct {name}")
    body, _ = block_after(src, m.end() - 1)
    out = []
    for part in split_top(body):
        p = re.sub(r"#\[[^\]]*\]", "", part)
        p = " ".join(p.split())
        if not p:
            continue
        mm = re.fullmatch(r"(?:pub(?:\([a-z:]+\))?\s+)?([a-z_][a-z0-9_]*)\s*:\s*(.+)", p)
        if not mm:
            raise TranslateError(f"struct {name}: unsupported field shape {p!r}")
        out.append((mm.group(1), mm.group(2)))
    return out


def type_aliases(repo):
    src = strip_comments(read(repo, STATES_MOD_RS))
    al = {}
    for m in re.finditer(r"\bpub\s+type\s+([A-Za-z]+)\s*=\s*([a-z0-9]+)\s*;", src):
        al[m.group(1)] = m.group(2)
    for need in ("Factor", "Amount"):
        if need not in al or al[need] not in INT_TYPES:
            raise TranslateError(f"type alias {need} not found / not an unsigned integer type")
    return al


def const_tables(repo):
    """name -> (kind, value, doc, file) for all integer / bool consts of the store's constants module."""
    aliases = type_aliases(repo)
    items = {}
    for rel in (CONST_MOD_RS, CONST_MARKET_RS, CONST_GLV_RS):
        for c in consts(strip_comments(read(repo, rel), keep_doc=True)):
            if c["name"] in items:
                raise TranslateError(f"constant {c['name']} defined twice ({items[c['name']]['file']} and {rel}); glob re-export would be ambiguous")
            c["file"] = rel
            items[c["name"]] = c
    dec = strip_comments(read(repo, DECIMAL_RS))
    m = find_unique(r"\bpub\s+const\s+MAX_DECIMALS\s*:\s*u8\s*=\s*(\d+)\s*;", dec, "Decimal::MAX_DECIMALS")
    external = {"Decimal::MAX_DECIMALS": int(m.group(1))}
    done, busy = {}, set()

    def width(ty):
        ty = aliases.get(ty, ty)
        return INT_TYPES.get(ty)

    def value(name):
        if name in done:
            return done[name][1]
        if name in busy:
            raise TranslateError(f"cyclic constant {name}")
        c = items.get(name)
        if c is None:
            raise TranslateError(f"unknown constant {name}")
        busy.add(name)

        def env(ident):
            if ident in external:
                return external[ident]
            segs = ident.split("::")
            if all(s in ("super", "self", "crate", "constants") for s in segs[:-1]) and segs[-1] in items:
                return value(segs[-1])
            raise TranslateError(f"constant {name}: cannot resolve identifier {ident!r}")

        if c["ty"] == "bool":
            if c["expr"] not in ("true", "false"):
                raise TranslateError(f"constant {name}: unsupported bool expression {c['expr']!r}")
            done[name] = ("bool", c["expr"] == "true", c["doc"], c["file"])
        else:
            w = width(c["ty"])
            if w is None:
                busy.discard(name)
                done[name] = ("other", None, c["doc"], c["file"])
                return None
            v = eval_const(c["expr"], env)
            if v is None or not (0 <= v < 2**w):
                raise TranslateError(f"constant {name} = {v} does not fit {c['ty']}")
            done[name] = ("int", v, c["doc"], c["file"])
        busy.discard(name)
        return done[name][1]

    for n in items:
        value(n)
    return done


def translate(repo):
    um = strip_comments(read(repo, UTILS_MARKET_RS))
    keys = enum_variants(um, "MarketConfigKey")
    flags = enum_variants(um, "MarketConfigFlag")
    mflags = enum_variants(um, "MarketFlag")
    kinds = enum_variants(strip_comments(read(repo, MODEL_POOL_RS)), "PoolKind")

    cfg = strip_comments(read(repo, CONFIG_RS))
    fields = struct_fields(cfg, "MarketConfig")
    factor_fields = [f for f, t in fields if t == "Factor"]
    other = [(f, t) for f, t in fields if t != "Factor"]
    for f, t in other:
        if not (f == "flag" and t == "MarketConfigFlagContainer") and not (f == "reserved" and re.fullmatch(r"\[Factor; \d+\]", t)):
            raise TranslateError(f"MarketConfig: unexpected non-Factor field {f}: {t}")
    impl = impl_block(cfg, r"\bimpl\s+MarketConfig\s*\{", "impl MarketConfig")

    # ---- init
    init_assign, init_flags = [], []
    for st in statements(fn_body(impl, "init")):
        m = re.fullmatch(r"self\.([a-z_][a-z0-9_]*) = constants::([A-Z][A-Z0-9_]*)", st)
        if m:
            if m.group(1) not in factor_fields:
                raise TranslateError(f"MarketConfig::init assigns unknown field {m.group(1)}")
            init_assign.append((m.group(1), m.group(2)))
            continue
        m = re.fullmatch(r"self\.set_flag\( ?MarketConfigFlag::([A-Za-z0-9]+), (?:constants::([A-Z][A-Z0-9_]*)|(true|false)),? ?\)", st)
        if m:
            if m.group(1) not in flags:
                raise TranslateError(f"MarketConfig::init sets unknown flag {m.group(1)}")
            init_flags.append((snake(m.group(1)), m.group(2) or ("#" + m.group(3))))
            continue
        raise TranslateError(f"MarketConfig::init: unsupported statement {st!r}")

    # ---- get arms
    def arms(fn, ref):
        out, wildcard = [], False
        for pat, ex in match_arms(fn_body(impl, fn), "key", f"MarketConfig::{fn}"):
            if pat == "_":
                if ex.rstrip(",") != "return None":
                    raise TranslateError(f"MarketConfig::{fn}: unexpected wildcard arm {ex!r}")
                wildcard = True
                continue
            if wildcard:
                raise TranslateError(f"MarketConfig::{fn}: arm after wildcard")
            mp = re.fullmatch(r"MarketConfigKey::([A-Za-z0-9]+)", pat)
            me = re.fullmatch(re.escape(ref) + r"self\.([a-z_][a-z0-9_]*)", ex)
            if not mp or not me:
                raise TranslateError(f"MarketConfig::{fn}: unsupported arm {pat!r} => {ex!r}")
            if mp.group(1) not in keys:
                raise TranslateError(f"MarketConfig::{fn}: arm for unknown key {mp.group(1)}")
            if me.group(1) not in factor_fields:
                raise TranslateError(f"MarketConfig::{fn}: arm reads unknown field {me.group(1)}")
            out.append((snake(mp.group(1)), me.group(1)))
        return out

    get_arm = arms("get", "&")

    # flag container: get_flag/set_flag are index based (gmsol_utils::flags!), declared for MarketConfigFlag
    find_unique(r"gmsol_utils::flags!\(\s*MarketConfigFlag\s*,\s*MAX_MARKET_CONFIG_FLAGS\s*,\s*u128\s*\)", cfg, "flags!(MarketConfigFlag..)")
    for fn, expect in (("flag", "self.flag.get_flag(flag)"), ("set_flag", "self.flag.set_flag(flag, value)")):
        got = statements(fn_body(impl, fn))
        if got != [expect]:
            raise TranslateError(f"MarketConfig::{fn}: unexpected body {got!r}")

    ctab = const_tables(repo)

    # ---- pools
    pl = strip_comments(read(repo, POOL_RS))
    pfields = struct_fields(pl, "Pools")
    pool_fields = [f for f, t in pfields if t == "PoolStorage"]
    for f, t in pfields:
        if t != "PoolStorage" and not (f == "reserved" and re.fullmatch(r"\[PoolStorage; \d+\]", t)):
            raise TranslateError(f"Pools: unexpected field {f}: {t}")
    pimpl = impl_block(pl, r"\bimpl\s+Pools\s*\{", "impl Pools")
    if " ".join(fn_params(pimpl, "init").split()) != "&mut self, is_pure: bool":
        raise TranslateError("Pools::init: unexpected parameters")
    pools_init = []
    for st in statements(fn_body(pimpl, "init")):
        m = re.fullmatch(r"self\.([a-z_][a-z0-9_]*) ?\.set_is_pure\((is_pure|true|false)\)", st)
        if not m or m.group(1) not in pool_fields:
            raise TranslateError(f"Pools::init: unsupported statement {st!r}")
        pools_init.append((m.group(1), m.group(2)))
    # the chain PoolStorage::set_is_pure -> Pool::set_is_pure -> is_pure byte
    ps_impl = impl_block(pl, r"\bimpl\s+PoolStorage\s*\{", "impl PoolStorage")
    if statements(fn_body(ps_impl, "set_is_pure")) != ["self.pool.set_is_pure(is_pure)"]:
        raise TranslateError("PoolStorage::set_is_pure: unexpected body")
    p_impl = impl_block(pl, r"\bimpl\s+Pool\s*\{", "impl Pool")
    if statements(fn_body(p_impl, "set_is_pure")) != ["self.is_pure = if is_pure { PURE_VALUE } else { 0 }"]:
        raise TranslateError("Pool::set_is_pure: unexpected body")
    if statements(fn_body(p_impl, "is_pure")) != ["!matches!(self.is_pure, 0)"]:
        raise TranslateError("Pool::is_pure: unexpected body")
    m = find_unique(r"\bconst\s+PURE_VALUE\s*:\s*u8\s*=\s*(\d+)\s*;", pl, "PURE_VALUE")
    pure_value = int(m.group(1))
    pool_get = []
    wildcard = False
    for pat, ex in match_arms(fn_body(pimpl, "get"), "kind", "Pools::get"):
        if pat == "_":
            if ex.rstrip(",") != "return None":
                raise TranslateError("Pools::get: unexpected wildcard arm")
            wildcard = True
            continue
        mp = re.fullmatch(r"PoolKind::([A-Za-z0-9]+)", pat)
        me = re.fullmatch(r"&self\.([a-z_][a-z0-9_]*)", ex)
        if wildcard or not mp or not me or mp.group(1) not in kinds or me.group(1) not in pool_fields:
            raise TranslateError(f"Pools::get: unsupported arm {pat!r} => {ex!r}")
        pool_get.append((snake(mp.group(1)), me.group(1)))

    # ---- Market::init
    mk = strip_comments(read(repo, MARKET_RS))
    mimpl = impl_block(mk, r"\bimpl\s+Market\s*\{", "impl Market")
    params = [" ".join(p.split()) for p in split_top(fn_params(mimpl, "init")) if p.strip()]
    pnames = []
    for p in params:
        if p == "&mut self":
            continue
        mm = re.fullmatch(r"([a-z_][a-z0-9_]*): (.+)", p)
        if not mm:
            raise TranslateError(f"Market::init: unsupported parameter {p!r}")
        pnames.append(mm.group(1))
    meta_assign, pure_cmp, calls = [], None, []
    for st in statements(fn_body(mimpl, "init")):
        m = re.fullmatch(r"self\.meta\.([a-z_]+) = ([a-z_]+)", st)
        if m:
            if m.group(2) not in pnames:
                raise TranslateError(f"Market::init: {st!r} does not assign a parameter")
            meta_assign.append((m.group(1), m.group(2)))
            continue
        m = re.fullmatch(r"let is_pure = self\.meta\.([a-z_]+) == self\.meta\.([a-z_]+)", st)
        if m:
            if pure_cmp is not None:
                raise TranslateError("Market::init: is_pure defined twice")
            pure_cmp = (m.group(1), m.group(2), len(calls))
            continue
        if re.match(r"(let|if|for|while|match|loop)\b", st) or "is_pure =" in st:
            raise TranslateError(f"Market::init: unsupported statement {st!r}")
        calls.append(st)
    if pure_cmp is None:
        raise TranslateError("Market::init: definition of is_pure not found")
    # the Market-level flag helpers used by init
    for fn, expect in (("set_enabled", "self.set_flag(MarketFlag::Enabled, enabled)"), ("is_pure", "self.flag(MarketFlag::Pure)"), ("is_enabled", "self.flag(MarketFlag::Enabled)")):
        got = statements(fn_body(mimpl, fn))
        if got != [expect]:
            raise TranslateError(f"Market::{fn}: unexpected body {got!r}")

    return dict(
        keys=[snake(k) for k in keys],
        flags=[snake(f) for f in flags],
        market_flags=[snake(f) for f in mflags],
        kinds=[snake(k) for k in kinds],
        factor_fields=factor_fields,
        init_assign=init_assign,
        init_flags=init_flags,
        get_arm=get_arm,
        consts=ctab,
        pool_fields=pool_fields,
        pools_init=pools_init,
        pool_get=pool_get,
        pure_value=pure_value,
        meta_assign=meta_assign,
        pure_cmp=pure_cmp,
        market_init_calls=calls,
        market_init_params=pnames,
    )


def emit(t):
    srcs = [CONFIG_RS, CONST_MOD_RS, CONST_MARKET_RS, CONST_GLV_RS, POOL_RS, MARKET_RS, UTILS_MARKET_RS, MODEL_POOL_RS, DECIMAL_RS]
    o = [header("translate/c17.py", srcs)]
    pair = lambda a, b: f"({cq(a)}, {cq(b)})"
    o.append("(* enum MarketConfigKey, strum snake_case names, declaration order *)\n")
    o.append("Definition config_keys : list string := " + clist([cq(k) for k in t["keys"]]) + ".\n\n")
    o.append("(* enum MarketConfigFlag *)\nDefinition config_flags : list string := " + clist([cq(k) for k in t["flags"]]) + ".\n\n")
    o.append("(* enum MarketFlag *)\nDefinition market_flags : list string := " + clist([cq(k) for k in t["market_flags"]]) + ".\n\n")
    o.append("(* enum PoolKind *)\nDefinition pool_kinds : list string := " + clist([cq(k) for k in t["kinds"]]) + ".\n\n")
    o.append("(* struct MarketConfig: the Factor fields *)\nDefinition cfg_fields : list string := " + clist([cq(k) for k in t["factor_fields"]]) + ".\n\n")
    o.append("(* MarketConfig::get: key -> field read (arms in source order; any other key returns None) *)\n")
    o.append("Definition get_arm : list (string * string) := " + clist([pair(a, b) for a, b in t["get_arm"]]) + ".\n\n")
    o.append("(* MarketConfig::init: `self.field = constants::C;` in source order *)\n")
    o.append("Definition init_assign : list (string * string) := " + clist([pair(a, b) for a, b in t["init_assign"]]) + ".\n\n")
    o.append("(* MarketConfig::init: `self.set_flag(MarketConfigFlag::F, constants::C)`; a literal is written \"#true\"/\"#false\" *)\n")
    o.append("Definition init_flag_assign : list (string * string) := " + clist([pair(a, b) for a, b in t["init_flags"]]) + ".\n\n")
    ints = [(n, v) for n, (k, v, _, _) in t["consts"].items() if k == "int"]
    bools = [(n, v) for n, (k, v, _, _) in t["consts"].items() if k == "bool"]
    o.append("(* integer constants of programs/store/src/constants (folded) *)\n")
    o.append("Definition const_value : list (string * Z) := " + clist([f"({cq(n)}, {cz(v)})" for n, v in ints]) + ".\n\n")
    o.append("Definition const_bool : list (string * bool) := " + clist([f"({cq(n)}, {cb(v)})" for n, v in bools]) + ".\n\n")
    o.append("(* doc line of each constant *)\n")
    docs = [(n, d) for n, (k, _, d, _) in t["consts"].items() if k in ("int", "bool")]
    o.append("Definition const_doc : list (string * string) := " + clist([pair(n, d.replace('"', "'").replace("\\", "/")) for n, d in docs]) + ".\n\n")
    o.append("(* struct Pools: the PoolStorage fields *)\nDefinition pool_fields : list string := " + clist([cq(k) for k in t["pool_fields"]]) + ".\n\n")
    o.append("(* Pools::init: `self.field.set_is_pure(arg)`; None = the is_pure parameter, Some b = literal *)\n")
    src = {"is_pure": "None", "true": "(Some true)", "false": "(Some false)"}
    o.append("Definition pools_init : list (string * option bool) := " + clist([f"({cq(a)}, {src[b]})" for a, b in t["pools_init"]]) + ".\n\n")
    o.append("(* Pools::get: kind -> field *)\nDefinition pool_get_arm : list (string * string) := " + clist([pair(a, b) for a, b in t["pool_get"]]) + ".\n\n")
    o.append(f"(* Pool::set_is_pure writes PURE_VALUE / 0; Pool::is_pure is `byte != 0` *)\nDefinition pure_value : Z := {t['pure_value']}.\n\n")
    o.append("(* Market::init: `self.meta.field = parameter;` *)\nDefinition market_meta_assign : list (string * string) := " + clist([pair(a, b) for a, b in t["meta_assign"]]) + ".\n\n")
    a, b, pos = t["pure_cmp"]
    o.append(f"(* Market::init: `let is_pure = self.meta.A == self.meta.B;` and the number of call statements before it *)\nDefinition market_pure_cmp : string * string := {pair(a, b)}.\nDefinition market_pure_cmp_pos : Z := {pos}.\n\n")
    o.append("(* Market::init: every other statement, in order *)\nDefinition market_init_calls : list string := " + clist([cq(s) for s in t["market_init_calls"]]) + ".\n")
    return "".join(o)


def main(argv):
    if len(argv) != 3:
        print(__doc__)
        return 2
    t = translate(argv[1])
    changed = write_if_changed(argv[2], emit(t))
    print(f"c17 translator: {len(t['keys'])} keys, {len(t['get_arm'])} get arms, {len(t['init_assign'])} init assignments, "
          f"{len(t['init_flags'])} init flags, {sum(1 for v in t['consts'].values() if v[0] != 'other')} constants, "
          f"{len(t['pools_init'])} pool inits, {len(t['pool_get'])} pool arms{' (rewritten)' if changed else ''}")
    return 0


if __name__ == "__main__":
    try:
        sys.exit(main(sys.argv))
    except TranslateError as e:
        print(f"TRANSLATE-ERROR c17: {e}")
        sys.exit(3)
