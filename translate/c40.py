#!/usr/bin/env python3
"""C40 translator: the tables the SDK duplicates by hand, next to the program's originals.

usage: c40.py <repo-root> <out.v>

  pools      Pools::get / get_mut arms     programs/store/src/states/market/pool.rs   vs crates/programs/src/model/market.rs
  clocks     Clocks::get / get_mut arms    programs/store/src/states/market/mod.rs    vs crates/programs/src/utils/store.rs
  pool impl  normalised bodies of the Balance / Pool trait methods of the two Pool types, and which Pool methods each overrides
  constants  MARKET_DECIMALS, MARKET_USD_UNIT, …, flag-container sizes on both sides (folded)
(config key arms, flag orders, closed-market helpers and parameter slots of both sides are in coq/gen/C16Tables.v)
"""
import os
import re
import sys

sys.path.insert(0, os.path.dirname(os.path.abspath(__file__)))
from rustlite import *  # noqa
from c17 import struct_fields, const_tables
from c16 import key_arms

P_POOL = "programs/store/src/states/market/pool.rs"
P_MARKET = "programs/store/src/states/market/mod.rs"
S_MARKET = "crates/programs/src/model/market.rs"
S_POOL = "crates/programs/src/model/pool.rs"
S_STORE = "crates/programs/src/utils/store.rs"
S_CONST = "crates/programs/src/constants/mod.rs"
U_MARKET = "crates/utils/src/market.rs"
M_POOL = "crates/model/src/pool/mod.rs"
M_CLOCK = "crates/model/src/clock.rs"


def trait_impl_fns(src, header_regex, what):
    """{fn name: normalised body} of the impl block matched by header_regex."""
    body = impl_block(src, header_regex, what)
    out = {}
    for m in re.finditer(r"\bfn\s+([a-z_][a-z0-9_]*)\s*(<[^>(]*>)?\s*\(", body):
        name = m.group(1)
        p = body.find("(", m.end() - 1)
        q = match_close(body, p)
        b = body.find("{", q)
        e = match_close(body, b)
        txt = " ".join(body[b + 1 : e].split())
        # messages of debug assertions / error strings are not semantics
        out[name] = txt
    return out


def sdk_constants(repo):
    items = {}
    for c in consts(strip_comments(read(repo, S_CONST), keep_doc=True)):
        items[c["name"]] = c
    done = {}

    def value(name):
        if name in done:
            return done[name]
        c = items.get(name)
        if c is None:
            raise TranslateError(f"SDK constant {name} not found")

        def env(ident):
            segs = ident.split("::")
            if segs[-1] in items:
                return value(segs[-1])
            raise TranslateError(f"SDK constant {name}: cannot resolve {ident}")

        done[name] = eval_const(c["expr"], env)
        return done[name]

    out = {}
    for n, c in items.items():
        if re.fullmatch(r"u8|u16|u32|u64|u128|usize", c["ty"]):
            out[n] = value(n)
    return out


def translate(repo):
    kinds = enum_variants(strip_comments(read(repo, M_POOL)), "PoolKind")
    clocks = enum_variants(strip_comments(read(repo, M_CLOCK)), "ClockKind")
    # ---- pools
    pp = strip_comments(read(repo, P_POOL))
    pfields = [f for f, t in struct_fields(pp, "Pools") if t == "PoolStorage"]
    pimpl = impl_block(pp, r"\bimpl\s+Pools\s*\{", "program impl Pools")
    p_pool_get = key_arms(pimpl, "get", "PoolKind", kinds, pfields, "&", scrutinee="kind")
    p_pool_get_mut = key_arms(pimpl, "get_mut", "PoolKind", kinds, pfields, "&mut", scrutinee="kind")
    sm = strip_comments(read(repo, S_MARKET))
    simpl = impl_block(sm, r"\bimpl\s+Pools\s*\{", "SDK impl Pools")
    s_pool_get = key_arms(simpl, "get", "PoolKind", kinds, pfields, "&", scrutinee="kind")
    s_pool_get_mut = key_arms(simpl, "get_mut", "PoolKind", kinds, pfields, "&mut", scrutinee="kind")
    # ---- clocks
    pm = strip_comments(read(repo, P_MARKET))
    cfields = [f for f, t in struct_fields(pm, "Clocks") if t == "i64"]
    cimpl = impl_block(pm, r"\bimpl\s+Clocks\s*\{", "program impl Clocks")
    p_clock_get = key_arms(cimpl, "get", "ClockKind", clocks, cfields, "&", scrutinee="kind")
    p_clock_get_mut = key_arms(cimpl, "get_mut", "ClockKind", clocks, cfields, "&mut", scrutinee="kind")
    ss = strip_comments(read(repo, S_STORE))
    scimpl = impl_block(ss, r"\bimpl\s+Clocks\s*\{", "SDK impl Clocks")
    s_clock_get = key_arms(scimpl, "get", "ClockKind", clocks, cfields, "", scrutinee="kind")
    # ---- Pool trait impls
    sp = strip_comments(read(repo, S_POOL))
    p_bal = trait_impl_fns(pp, r"\bimpl\s+gmsol_model::Balance\s+for\s+Pool\s*\{", "program impl Balance for Pool")
    p_pool = trait_impl_fns(pp, r"\bimpl\s+gmsol_model::Pool\s+for\s+Pool\s*\{", "program impl Pool for Pool")
    s_bal = trait_impl_fns(sp, r"\bimpl\s+gmsol_model::Balance\s+for\s+Pool\s*\{", "SDK impl Balance for Pool")
    s_pool = trait_impl_fns(sp, r"\bimpl\s+gmsol_model::Pool\s+for\s+Pool\s*\{", "SDK impl Pool for Pool")
    def free_fn(src, name):
        ms = list(re.finditer(r"(?m)^(?:pub(?:\([a-z]+\))?\s+)?fn\s+" + name + r"\s*\(", src))
        if len(ms) > 1:
            raise TranslateError(f"free fn {name} defined {len(ms)} times")
        if not ms:
            return ""
        p_ = src.find("(", ms[0].end() - 1)
        q_ = match_close(src, p_)
        b_ = src.find("{", q_)
        return " ".join(src[p_ : match_close(src, b_) + 1].split())

    p_cancel_fn = free_fn(pp, "cancel_amounts")
    s_cancel_fn = free_fn(sp, "cancel_amounts")
    p_is_pure = trait_impl_fns(pp, r"\bimpl\s+Pool\s*\{", "program impl Pool")
    s_is_pure = trait_impl_fns(ss, r"\bimpl\s+Pool\s*\{", "SDK impl Pool")
    # ---- constants
    pc = const_tables(repo)
    sc = sdk_constants(repo)
    um = strip_comments(read(repo, U_MARKET))
    util_consts = {}
    for m in re.finditer(r"pub\s+const\s+(MAX_[A-Z_]+)\s*:\s*usize\s*=\s*(\d+)\s*;", um):
        util_consts[m.group(1)] = int(m.group(2))
    const_pairs = []
    for name in ("MARKET_DECIMALS", "MARKET_USD_UNIT", "MARKET_TOKEN_DECIMALS", "MARKET_USD_TO_AMOUNT_DIVISOR", "FUNDING_AMOUNT_PER_SIZE_ADJUSTMENT"):
        if name not in sc:
            raise TranslateError(f"SDK constant {name} missing")
        if name not in pc or pc[name][0] != "int":
            raise TranslateError(f"program constant {name} missing")
        const_pairs.append((name, pc[name][1], sc[name]))
    for sname, uname in (("NUM_MARKET_CONFIG_FLAGS", "MAX_MARKET_CONFIG_FLAGS"), ("NUM_MARKET_FLAGS", "MAX_MARKET_FLAGS")):
        if sname not in sc or uname not in util_consts:
            raise TranslateError(f"flag container size constants {sname}/{uname} missing")
        const_pairs.append((sname, util_consts[uname], sc[sname]))
    return dict(kinds=[snake(k) for k in kinds], clocks=[snake(c) for c in clocks], pfields=pfields, cfields=cfields,
                p_pool_get=p_pool_get, p_pool_get_mut=p_pool_get_mut, s_pool_get=s_pool_get, s_pool_get_mut=s_pool_get_mut,
                p_clock_get=p_clock_get, p_clock_get_mut=p_clock_get_mut, s_clock_get=s_clock_get,
                p_bal=p_bal, p_pool=p_pool, s_bal=s_bal, s_pool=s_pool,
                p_is_pure=p_is_pure.get("is_pure", ""), s_is_pure=s_is_pure.get("is_pure", ""), const_pairs=const_pairs,
                p_cancel_fn=p_cancel_fn, s_cancel_fn=s_cancel_fn)


def emit(t):
    o = [header("translate/c40.py", [P_POOL, P_MARKET, S_MARKET, S_POOL, S_STORE, S_CONST, U_MARKET, M_POOL, M_CLOCK])]
    pair = lambda a, b: f"({cq(a)}, {cq(b)})"

    def sl(name, xs):
        o.append(f"Definition {name} : list string := " + clist([cq(x) for x in xs]) + ".\n\n")

    def pl(name, xs):
        o.append(f"Definition {name} : list (string * string) := " + clist([pair(a, b) for a, b in xs]) + ".\n\n")

    sl("pool_kinds", t["kinds"])
    sl("clock_kinds", t["clocks"])
    o.append("(* Pools::get / get_mut arms: kind -> field; program, then SDK *)\n")
    pl("p_pool_get", t["p_pool_get"])
    pl("p_pool_get_mut", t["p_pool_get_mut"])
    pl("s_pool_get", t["s_pool_get"])
    pl("s_pool_get_mut", t["s_pool_get_mut"])
    o.append("(* Clocks::get / get_mut arms: kind -> field; program, then SDK (the SDK has get only) *)\n")
    pl("p_clock_get", t["p_clock_get"])
    pl("p_clock_get_mut", t["p_clock_get_mut"])
    pl("s_clock_get", t["s_clock_get"])
    esc = lambda s: s.replace('"', "'").replace("\\", "/")
    o.append("(* whitespace-normalised bodies of the Balance / Pool trait methods of the two Pool types *)\n")
    for nm, d in (("p_balance_impl", t["p_bal"]), ("s_balance_impl", t["s_bal"]), ("p_pool_impl", t["p_pool"]), ("s_pool_impl", t["s_pool"])):
        pl(nm, [(k, esc(v)) for k, v in d.items()])
    o.append(f"Definition p_pool_is_pure : string := {cq(esc(t['p_is_pure']))}.\nDefinition s_pool_is_pure : string := {cq(esc(t['s_is_pure']))}.\n\n")
    o.append("(* the free helper `cancel_amounts(long, short)` used by the override (signature + body; empty if absent) *)\n")
    o.append(f"Definition p_cancel_amounts_fn : string := {cq(esc(t['p_cancel_fn']))}.\nDefinition s_cancel_amounts_fn : string := {cq(esc(t['s_cancel_fn']))}.\n\n")
    o.append("(* constants that exist on both sides: name, program value, SDK value *)\n")
    o.append("Definition const_pairs : list (string * Z * Z) := " + clist([f"({cq(n)}, {cz(a)}, {cz(b)})" for n, a, b in t["const_pairs"]]) + ".\n")
    return "".join(o)


def main(argv):
    if len(argv) != 3:
        print(__doc__)
        return 2
    t = translate(argv[1])
    changed = write_if_changed(argv[2], emit(t))
    print(f"c40 translator: {len(t['p_pool_get'])}/{len(t['s_pool_get'])} pool arms, {len(t['p_clock_get'])}/{len(t['s_clock_get'])} clock arms, "
          f"{len(t['p_pool'])}/{len(t['s_pool'])} Pool trait fns, {len(t['const_pairs'])} shared constants{' (rewritten)' if changed else ''}")
    return 0


if __name__ == "__main__":
    try:
        sys.exit(main(sys.argv))
    except TranslateError as e:
        print(f"TRANSLATE-ERROR c40: {e}")
        sys.exit(3)
