#!/usr/bin/env python3
"""C19 translator: the access-control surface of the on-chain programs, read from the Rust source.

usage: c19.py <repo-root> <out.v> [--dump]

For every `pub fn` of each `#[program]` module (store, treasury, timelock, competition, liquidity-provider):
  * the `#[access_control(...)]` expression, normalised to a guard:
        admin | role R | any-of [R..] (ensure_can_update_market_config) | none
    (role constants resolved through crates/utils/src/role.rs RoleKey / the program's own `roles` module);
  * the `Context<T>` accounts type, and from T's `#[derive(Accounts)]` struct (searched in the program's sources):
        the `Signer` fields, every `has_one = x` (per account), every `constraint = ...` / `address = ...`
        expression, `seeds = [...]` of PDA accounts, `signer` flags;
  * which field `Authentication::authority()` / `store()` (or `CpiAuthentication`) return for T;
  * the instruction handler the entrypoint delegates to.
Anything outside the recognised shapes raises.
"""
import os
import re
import sys

sys.path.insert(0, os.path.dirname(os.path.abspath(__file__)))
from rustlite import *  # noqa

PROGRAMS = [
    ("store", "programs/store/src", "gmsol_store"),
    ("treasury", "programs/treasury/src", "gmsol_treasury"),
    ("timelock", "programs/timelock/src", "gmsol_timelock"),
    ("competition", "programs/competition/src", "gmsol_competition"),
    ("liquidity_provider", "programs/liquidity-provider/src", "gmsol_liquidity_provider"),
]
ROLE_RS = "crates/utils/src/role.rs"

# Authenticate::<helper> -> guard
HELPER_ROLE = {}


def all_rs(repo, rel):
    out = []
    for r, _, fs in os.walk(os.path.join(repo, rel)):
        for f in sorted(fs):
            if f.endswith(".rs"):
                out.append(os.path.relpath(os.path.join(r, f), repo))
    return sorted(out)


def role_consts(repo):
    """RoleKey::X -> "X-string" from crates/utils/src/role.rs (pub const X: &'static str = "...";)."""
    src = strip_comments(read(repo, ROLE_RS))
    impl = impl_block(src, r"\bimpl\s+RoleKey\s*\{", "impl RoleKey")
    out = {}
    for m in re.finditer(r"pub\s+const\s+([A-Z_]+)\s*:\s*&(?:'static\s+)?str\s*=\s*\"([A-Z_]+)\"\s*;", impl):
        out[m.group(1)] = m.group(2)
    if not out:
        raise TranslateError("RoleKey: no role constants found")
    return out


def authenticate_helpers(repo, roles):
    """only_x helper -> guard, from the default methods of trait Authenticate (store authentication.rs)."""
    src = strip_comments(read(repo, "programs/store/src/utils/internal/authentication.rs"))
    m = find_unique(r"\btrait\s+Authenticate\s*<'info>\s*:[^{]*\{", src, "trait Authenticate")
    body, _ = block_after(src, m.end() - 1)
    out = {}
    for fm in re.finditer(r"\bfn\s+([a-z_]+)\s*(<[^>]*>)?\s*\(", body):
        name = fm.group(1)
        fb = " ".join(fn_body(body, name).split())
        if name == "only":
            if fb != "ctx.accounts.only_role(role)":
                raise TranslateError(f"Authenticate::only: unexpected body {fb!r}")
            continue
        if name == "only_admin":
            if fb != "ctx.accounts.only_admin()":
                raise TranslateError(f"Authenticate::only_admin: unexpected body {fb!r}")
            out[name] = ("admin",)
            continue
        if name == "ensure_has_any_role_with_ctx":
            if fb != "ctx.accounts.ensure_has_any_role(roles)":
                raise TranslateError(f"Authenticate::{name}: unexpected body {fb!r}")
            continue
        mm = re.fullmatch(r"Self::only\(ctx, RoleKey::([A-Z_]+)\)", fb)
        if mm:
            out[name] = ("role", roles[mm.group(1)])
            continue
        mm = re.fullmatch(r"Self::ensure_has_any_role_with_ctx\( ctx, \[((?:RoleKey::[A-Z_]+,? ?)+)\], \)", fb)
        if mm:
            out[name] = ("any", [roles[r] for r in re.findall(r"RoleKey::([A-Z_]+)", mm.group(1))])
            continue
        raise TranslateError(f"Authenticate::{name}: unsupported body {fb!r}")
    # the Authentication trait's checks themselves
    m = find_unique(r"\btrait\s+Authentication\s*<'info>\s*\{", src, "trait Authentication")
    tb, _ = block_after(src, m.end() - 1)
    exp = {
        "only_admin": "require!( self.store().load()?.has_admin_role(self.authority().key)?, CoreError::NotAnAdmin ); Ok(())",
        "only_role": "require!( self.store().load()?.has_role(self.authority().key, role)?, CoreError::PermissionDenied ); Ok(())",
    }
    for fn, e in exp.items():
        got = " ".join(fn_body(tb, fn).split())
        if got != e:
            raise TranslateError(f"Authentication::{fn}: unexpected body {got!r}")
    return out


def split_fields(body):
    """Split struct fields at top-level commas; `<..>` generics count only outside brackets."""
    parts, cur, depth, angle = [], [], 0, 0
    i, n = 0, len(body)
    while i < n:
        c = body[i]
        if c == '"':
            j = i + 1
            while j < n and body[j] != '"':
                j += 2 if body[j] == "\\" else 1
            cur.append(body[i : j + 1])
            i = j + 1
            continue
        if c in "([{":
            depth += 1
        elif c in ")]}":
            depth -= 1
        elif depth == 0 and c == "<":
            angle += 1
        elif depth == 0 and c == ">" and angle > 0:
            angle -= 1
        if c == "," and depth == 0 and angle == 0:
            parts.append("".join(cur))
            cur = []
        else:
            cur.append(c)
        i += 1
    if "".join(cur).strip():
        parts.append("".join(cur))
    return parts


def parse_accounts_structs(repo, srcdir):
    """All #[derive(Accounts)] structs of a program: name -> dict(fields=[...], file=...)."""
    out = {}
    for rel in all_rs(repo, srcdir):
        src = strip_comments(read(repo, rel))
        for d in re.finditer(r"#\[derive\(Accounts\)\]", src):
            k = d.end()
            while True:
                while src[k].isspace():
                    k += 1
                if src.startswith("#[", k):
                    k = match_close(src, k + 1) + 1
                    continue
                break
            m = re.compile(r"pub\s+struct\s+([A-Za-z0-9_]+)\s*(<[^>{]*>)?\s*\{").match(src, k)
            if not m:
                raise TranslateError(f"{rel}: #[derive(Accounts)] not followed by a pub struct: {src[k:k+60]!r}")
            name = m.group(1)
            body, _ = block_after(src, m.end() - 1)
            fields = []
            for part in split_fields(body):
                p = part.strip()
                if not p:
                    continue
                attrs = []
                while p.startswith("#["):
                    j = match_close(p, 1)
                    attrs.append(p[2:j])
                    p = p[j + 1 :].strip()
                mm = re.fullmatch(r"(?:pub(?:\([a-z:]+\))?\s+)?([a-z_][a-z0-9_]*)\s*:\s*(.+)", " ".join(p.split()), re.S)
                if not mm:
                    raise TranslateError(f"{rel}: accounts struct {name}: unsupported field {p[:80]!r}")
                fname, fty = mm.group(1), mm.group(2)
                cons = []
                for a in attrs:
                    a = a.strip()
                    if not a.startswith("account("):
                        if re.match(r"(cfg|doc|allow|instruction)\b", a):
                            continue
                        raise TranslateError(f"{rel}: {name}.{fname}: unsupported attribute #[{a[:60]}]")
                    inner = a[len("account(") : -1]
                    for c in split_top(inner):
                        c = " ".join(c.split())
                        if c:
                            cons.append(c)
                fields.append(dict(name=fname, ty=fty, cons=cons))
            if name in out:
                raise TranslateError(f"accounts struct {name} defined twice in {srcdir}")
            out[name] = dict(fields=fields, file=rel)
    return out


def authentication_impls(repo, srcdir):
    """T -> (authority field, store field, trait) from
         impl<'info> [internal::]Authentication<'info> for T<'info>   (authority(): &self.f ; store(): &self.s)
         impl<'info> CpiAuthentication<'info> for T<'info>            (authority(): self.f.to_account_info(); on_error(): must be an error)
         impl<'info> WithStore<'info> for T<'info>                    (store(): self.s.to_account_info(); store_program(): self.p.to_account_info())"""
    out, with_store = {}, {}
    for rel in all_rs(repo, srcdir):
        src = strip_comments(read(repo, rel))
        for m in re.finditer(r"\bimpl\s*<'info>\s*((?:[a-z_]+::)*)(Authentication|CpiAuthentication|WithStore)\s*<'info>\s*for\s+([A-Za-z0-9_]+)\s*<'info>\s*\{", src):
            body, _ = block_after(src, m.end() - 1)
            t, tr = m.group(3), m.group(2)
            if tr == "WithStore":
                s_ = " ".join(fn_body(body, "store").split())
                ms = re.fullmatch(r"self\.([a-z_]+)\.to_account_info\(\)", s_)
                sp = " ".join(fn_body(body, "store_program").split())
                mp = re.fullmatch(r"self\.([a-z_]+)\.to_account_info\(\)", sp)
                if not ms or not mp:
                    raise TranslateError(f"{rel}: WithStore for {t}: unsupported bodies {s_!r} / {sp!r}")
                with_store[t] = (ms.group(1), mp.group(1))
                continue
            a = " ".join(fn_body(body, "authority").split())
            if tr == "Authentication":
                ma = re.fullmatch(r"&self\.([a-z_]+)", a)
                s_ = " ".join(fn_body(body, "store").split())
                ms = re.fullmatch(r"&self\.([a-z_]+)", s_)
                if not ma or not ms:
                    raise TranslateError(f"{rel}: Authentication for {t}: unsupported bodies {a!r} / {s_!r}")
                entry = (ma.group(1), ms.group(1), tr)
            else:
                ma = re.fullmatch(r"self\.([a-z_]+)\.to_account_info\(\)", a)
                oe = " ".join(fn_body(body, "on_error").split())
                if not ma:
                    raise TranslateError(f"{rel}: CpiAuthentication for {t}: unsupported authority() body {a!r}")
                if not re.fullmatch(r"err!\([A-Za-z_:]+\)", oe):
                    raise TranslateError(f"{rel}: CpiAuthentication for {t}: on_error() does not plainly return an error: {oe!r}")
                entry = (ma.group(1), None, tr)
            if t in out:
                raise TranslateError(f"Authentication implemented twice for {t}")
            out[t] = entry
    for t, (a, s_, tr) in list(out.items()):
        if tr == "CpiAuthentication":
            if t not in with_store:
                raise TranslateError(f"CpiAuthentication for {t} without WithStore impl")
            out[t] = (a, with_store[t][0], tr)
    return out


def normalise_guard(expr, roles, helpers, prog_roles, who):
    e = re.sub(r"\s+", "", expr)
    m = re.fullmatch(r"(?:internal::)?Authenticate::([a-z_]+)\(&ctx\)", e)
    if m:
        if m.group(1) not in helpers:
            raise TranslateError(f"{who}: unknown Authenticate helper {m.group(1)}")
        return helpers[m.group(1)]
    m = re.fullmatch(r"(?:internal::)?Authenticate::only\(&ctx,(?:states::)?RoleKey::([A-Z_]+)\)", e)
    if m:
        return ("role", roles[m.group(1)])
    m = re.fullmatch(r"CpiAuthenticate::only\(&ctx,(?:roles|constants::roles)::([A-Z_]+)\)", e)
    if m:
        if m.group(1) not in prog_roles:
            raise TranslateError(f"{who}: unknown program role constant {m.group(1)}")
        return ("cpi_role", prog_roles[m.group(1)])
    m = re.fullmatch(r"CpiAuthenticate::only\(&ctx,RoleKey::([A-Z_]+)\)", e)
    if m:
        return ("cpi_role", roles[m.group(1)])
    m = re.fullmatch(r"CpiAuthenticate::only_admin\(&ctx\)", e)
    if m:
        return ("cpi_admin",)
    raise TranslateError(f"{who}: unsupported access_control expression {expr!r}")


def program_roles(repo, srcdir):
    out = {}
    for rel in all_rs(repo, srcdir):
        if not rel.endswith("roles.rs"):
            continue
        src = strip_comments(read(repo, rel))
        for m in re.finditer(r"pub\s+const\s+([A-Z_]+)\s*:\s*&(?:'static\s+)?str\s*=\s*\"([A-Z_]+)\"\s*;", src):
            out[m.group(1)] = m.group(2)
    return out


AUTH_VOCAB = [
    ("validate_claim_fees_address(", "handler:validate_claim_fees_address"),
    ("has_role(", "handler:has_role"),
    ("has_admin_role(", "handler:has_admin_role"),
    ("is_authority(", "handler:is_authority"),
    ("only_role(", "handler:only_role"),
    ("only_admin(", "handler:only_admin"),
    ("Close::close(", "handler:Close::close"),
    ("validate_timelocked_role(", "handler:validate_timelocked_role"),
    ("CpiAuthenticate::only(", "handler:CpiAuthenticate::only"),
]


def handler_index(repo, srcdir):
    """fn name -> [(file, body)] for every fn in the program's sources (comment-stripped)."""
    idx = {}
    for rel in all_rs(repo, srcdir):
        if rel == srcdir + "/lib.rs":
            continue  # the entrypoints themselves
        src = strip_comments(read(repo, rel))
        for m in re.finditer(r"\bfn\s+([a-z_][a-z0-9_]*)\s*(<[^>(]*>)?\s*\(", src):
            p = src.find("(", m.end() - 1)
            try:
                q = match_close(src, p)
            except TranslateError:
                continue
            b = src.find("{", q)
            semi = src.find(";", q)
            if b < 0 or (0 <= semi < b):
                continue
            try:
                e = match_close(src, b)
            except TranslateError:
                continue
            idx.setdefault(m.group(1), []).append((rel, src[b + 1 : e]))
    return idx


def handler_docs(repo, srcdir):
    """fn name -> concatenated `///` doc text of every fn of that name outside lib.rs."""
    idx = {}
    for rel in all_rs(repo, srcdir):
        if rel == srcdir + "/lib.rs":
            continue
        src = strip_comments(read(repo, rel), keep_doc=True)
        for m in re.finditer(r"((?:[ \t]*///[^\n]*\n)+)(?:[ \t]*#\[[^\n]*\n)*[ \t]*(?:pub(?:\([a-z]+\))?\s+)?fn\s+([a-z_][a-z0-9_]*)\b", src):
            idx[m.group(2)] = idx.get(m.group(2), "") + m.group(1)
    return idx


def doc_roles_of(doc, role_values):
    return sorted(set(r for r in role_values if re.search(r"\b" + re.escape(r) + r"\b", doc)))


def instructions(repo, prog, srcdir, modname, roles, helpers):
    rel = srcdir + "/lib.rs"
    src = strip_comments(read(repo, rel))
    src_doc = strip_comments(read(repo, rel), keep_doc=True)
    hidx = handler_index(repo, srcdir)
    hdocs = handler_docs(repo, srcdir)
    m = find_unique(r"#\[program\]\s*(?:///[^\n]*\n\s*)*pub\s+mod\s+" + modname + r"\s*\{", strip_comments(read(repo, rel), keep_doc=True), f"{prog}: #[program] module")
    m = find_unique(r"#\[program\]\s*pub\s+mod\s+" + modname + r"\s*\{", src, f"{prog}: #[program] module")
    body, _ = block_after(src, m.end() - 1)
    prog_roles = program_roles(repo, srcdir)
    structs = parse_accounts_structs(repo, srcdir)
    auth = authentication_impls(repo, srcdir)
    out = []
    pos = 0
    fn_re = re.compile(r"((?:#\[[^\]]*\]\s*)*)pub\s+fn\s+([a-z_][a-z0-9_]*)\s*(<[^>(]*>)?\s*\(")
    # attributes may contain nested brackets: scan manually
    i = 0
    while True:
        mf = re.compile(r"\bpub\s+fn\s+([a-z_][a-z0-9_]*)\s*(<[^>(]*>)?\s*\(").search(body, i)
        if not mf:
            break
        name = mf.group(1)
        # collect attributes immediately preceding
        attrs = []
        k = mf.start()
        while True:
            pre = body[:k].rstrip()
            if pre.endswith("]"):
                # find the matching "#["
                depth, j = 0, len(pre) - 1
                while j >= 0:
                    if pre[j] == "]":
                        depth += 1
                    elif pre[j] == "[":
                        depth -= 1
                        if depth == 0:
                            break
                    j -= 1
                if j >= 1 and pre[j - 1] == "#":
                    attrs.insert(0, pre[j + 1 : -1])
                    k = j - 1
                    continue
            break
        p = body.find("(", mf.end() - 1)
        q = match_close(body, p)
        params = " ".join(body[p + 1 : q].split())
        b = body.find("{", q)
        e = match_close(body, b)
        fbody = " ".join(body[b + 1 : e].split())
        i = e
        mc = re.match(r"(?:mut )?_?ctx: Context<(?:'_, '_, '[a-z_]+, '[a-z_]+, )?([A-Za-z0-9_]+)(?:<'[a-z_]+>)?>", params)
        if not mc:
            raise TranslateError(f"{prog}::{name}: first parameter is not a Context: {params[:80]!r}")
        ctx_ty = mc.group(1)
        guards = []
        cfgs = []
        for a in attrs:
            a1 = " ".join(a.split())
            if a1.startswith("access_control("):
                guards.append(normalise_guard(a1[len("access_control(") : -1], roles, helpers, prog_roles, f"{prog}::{name}"))
            elif a1.startswith("cfg("):
                cfgs.append(a1)
            elif re.match(r"(allow|deprecated|doc|inline)\b", a1):
                continue
            else:
                raise TranslateError(f"{prog}::{name}: unsupported attribute #[{a1[:60]}]")
        if len(guards) > 1:
            raise TranslateError(f"{prog}::{name}: several access_control attributes")
        if ctx_ty not in structs:
            raise TranslateError(f"{prog}::{name}: accounts struct {ctx_ty} not found")
        st = structs[ctx_ty]
        signers = [f["name"] for f in st["fields"] if re.match(r"Signer<", f["ty"]) or "signer" in f["cons"]]
        has_one = []
        constraints = []
        for f in st["fields"]:
            for c in f["cons"]:
                mh = re.match(r"has_one = ([a-z_]+)", c)
                if mh:
                    has_one.append(f"{f['name']}.{mh.group(1)}")
                elif re.match(r"(constraint|address|owner) = ", c):
                    constraints.append(f"{f['name']}: {c.split(' @ ')[0]}")
        g = guards[0] if guards else ("none",)
        if g[0] != "none":
            if ctx_ty not in auth:
                raise TranslateError(f"{prog}::{name}: guarded but {ctx_ty} has no Authentication impl")
            afield, sfield, tr = auth[ctx_ty]
            if afield not in signers:
                raise TranslateError(f"{prog}::{name}: authority field {afield} of {ctx_ty} is not a Signer")
            if g[0].startswith("cpi") != (tr == "CpiAuthentication"):
                raise TranslateError(f"{prog}::{name}: guard kind {g[0]} does not match trait {tr}")
        else:
            afield, sfield = (auth[ctx_ty][0], auth[ctx_ty][1]) if ctx_ty in auth else ("", "")
        # in-handler authentication: the functions the entrypoint body calls (one level), plus trait-dispatched Close::close
        checks = []
        called = re.findall(r"\b(?:[A-Za-z_]+::)*([a-z_][a-z0-9_]*)\s*\(", fbody)
        texts = [fbody]
        for c in called:
            if c in hidx and len(hidx[c]) == 1 and c not in ("close", "new", "load", "key"):
                texts.append(" ".join(hidx[c][0][1].split()))
        if re.search(r"\b(?:internal::)?Close::close\(|\b[A-Z][A-Za-z0-9]*::close\(\s*&ctx", fbody):
            checks.append("handler:Close::close")
        for t in texts:
            for needle, tag in AUTH_VOCAB:
                if needle in t and tag not in checks:
                    checks.append(tag)
        # PDA seeds / seeds::program of signer accounts (callback authorities); seeds of accounts created here
        init_seeds = []
        for f in st["fields"]:
            if f["name"] in signers:
                for c in f["cons"]:
                    if c.startswith("seeds"):
                        constraints.append(f"{f['name']}: {c}")
            elif any(c in ("init", "init_if_needed") for c in f["cons"]):
                for c in f["cons"]:
                    if c.startswith("seeds ="):
                        init_seeds.append(f"{f['name']}: {c}")
        # documentation: role names mentioned in the entrypoint's doc comment
        dm = re.search(r"((?:[ \t]*///[^\n]*\n)+)(?:[ \t]*#\[[^\n]*\n)*[ \t]*pub\s+fn\s+" + re.escape(name) + r"\b", src_doc)
        doc = dm.group(1) if dm else ""
        for c in called:
            if c in hdocs and c not in ("close", "new", "load", "key"):
                doc += hdocs[c]
        role_values = sorted(set(roles.values()) | set(prog_roles.values()))
        out.append(dict(prog=prog, name=name, guard=g, ctx=ctx_ty, signers=signers, has_one=has_one, constraints=constraints,
                        authority=afield, store=sfield, cfg=cfgs, body=fbody, file=st["file"], checks=checks, init_seeds=init_seeds,
                        doc_roles=doc_roles_of(doc, role_values), doc_admin=bool(re.search(r"\badmin\b|\bADMIN\b", doc))))
    if not out:
        raise TranslateError(f"{prog}: no instructions found")
    names = [o["name"] for o in out]
    if len(set(names)) != len(names):
        raise TranslateError(f"{prog}: duplicate instruction names")
    return out


def translate(repo):
    roles = role_consts(repo)
    helpers = authenticate_helpers(repo, roles)
    res = []
    for prog, srcdir, modname in PROGRAMS:
        res += instructions(repo, prog, srcdir, modname, roles, helpers)
    return roles, helpers, res


def guard_term(g):
    if g[0] == "none":
        return "GNone"
    if g[0] == "admin":
        return "GAdmin"
    if g[0] == "role":
        return f"GRole {cq(g[1])}"
    if g[0] == "any":
        return "GAny [" + "; ".join(cq(r) for r in g[1]) + "]"
    if g[0] == "cpi_role":
        return f"GCpiRole {cq(g[1])}"
    if g[0] == "cpi_admin":
        return "GCpiAdmin"
    raise TranslateError(f"guard {g}")


def emit(roles, helpers, ins):
    o = [header("translate/c19.py", [s + "/lib.rs + instructions/**" for _, s, _ in PROGRAMS] + [ROLE_RS, "programs/store/src/utils/internal/authentication.rs"])]
    o.append(
        "(* the guard an entrypoint's #[access_control(..)] attribute installs *)\n"
        "Inductive guard :=\n"
        "| GNone                              (* no attribute *)\n"
        "| GAdmin                             (* Authenticate::only_admin: store authority (or RESTART_ADMIN after a restart) *)\n"
        "| GRole (r : string)                 (* Authenticate::only(role) and its only_* shorthands *)\n"
        "| GAny (rs : list string)            (* ensure_has_any_role *)\n"
        "| GCpiRole (r : string)              (* CpiAuthenticate::only: role checked by CPI into the store program *)\n"
        "| GCpiAdmin.\n\n"
        "Record instr := mkInstr {\n"
        "  i_prog : string; i_name : string; i_guard : guard; i_ctx : string;\n"
        "  i_authority : string;            (* field returned by Authentication::authority() (\"\" if no impl) *)\n"
        "  i_signers : list string;         (* Signer<'info> fields of the accounts struct *)\n"
        "  i_facts : list string;           (* 'signer:f' | 'has_one:acc.field' | 'constraint:f: expr' | 'init_seeds:f: seeds = [..]'\n"
        "                                      | 'handler:<authentication call found in the delegated handler>' *)\n"
        "  i_doc_roles : list string        (* role names in the doc comment of the entrypoint / of its unchecked_* handler *)\n"
        "}.\n\n"
    )
    o.append("Definition role_names : list string := " + clist([cq(v) for v in sorted(set(roles.values()))]) + ".\n\n")
    rows = []
    for x in ins:
        cons = [c.replace('"', "'") for c in x["constraints"]]
        facts = (["signer:" + s_ for s_ in x["signers"]] + ["has_one:" + h for h in x["has_one"]] + ["constraint:" + c for c in cons]
                 + ["init_seeds:" + c.replace('"', "'") for c in x["init_seeds"]] + list(x["checks"]))
        rows.append(
            f"mkInstr {cq(x['prog'])} {cq(x['name'])} ({guard_term(x['guard'])}) {cq(x['ctx'])} {cq(x['authority'])}\n      "
            + "[" + "; ".join(cq(s_) for s_ in x["signers"]) + "]\n      [" + ";\n       ".join(cq(f) for f in facts) + "]\n      ["
            + "; ".join(cq(c) for c in x["doc_roles"]) + "]"
        )
    o.append("Definition instructions : list instr := " + clist(rows) + ".\n")
    return "".join(o)


def main(argv):
    if len(argv) < 3:
        print(__doc__)
        return 2
    roles, helpers, ins = translate(argv[1])
    if "--dump" in argv:
        for x in ins:
            print(f"{x['prog']}\t{x['name']}\t{x['guard']}\t{x['ctx']}\tauth={x['authority']}\tsigners={x['signers']}\thas_one={x['has_one']}\tchecks={x['checks']}\tdoc={x['doc_roles']}\tcons={x['constraints']}\tinit={x['init_seeds']}")
    changed = write_if_changed(argv[2], emit(roles, helpers, ins))
    by = {}
    for x in ins:
        by.setdefault(x["prog"], [0, 0])
        by[x["prog"]][0] += 1
        by[x["prog"]][1] += x["guard"][0] != "none"
    print("c19 translator: " + ", ".join(f"{p} {g}/{n} guarded" for p, (n, g) in by.items()) + (" (rewritten)" if changed else ""))
    return 0


if __name__ == "__main__":
    try:
        sys.exit(main(sys.argv))
    except TranslateError as e:
        print(f"TRANSLATE-ERROR c19: {e}")
        sys.exit(3)
